"""C12 - PID controllers (DESIGN 4 C12): D1 clamp leaves, D2 integrator guard, D3 equations / pos-inc coincidence,
D4 zero() resets every step-carried field.  Engine: ALG decision trees + PATH effect sets."""
import sympy as sp
import symx, alg, dwarf, effects, llir
from symx import Ptr, Unsupported, TOP

LEVEL = 'other'


def lookup_in(mods):
    def lk(name):
        for m in mods:
            f = m.functions.get(name)
            if f is not None and not f.error:
                return f
        return None
    return lk


class PidDom(alg.Alg):
    """a_pid_fuzzy_out_ is summarised: it may change pid.kp/ki/kd only (justified by rule D1s on its effect set)"""

    def __init__(self, names):
        alg.Alg.__init__(self, names)
        self.havoc_n = 0

    def opaque_call(self, name, args, ins, interp, st):
        if name == 'a_pid_fuzzy_out_':
            p = args[0]
            for fld in ('pid.kp', 'pid.ki', 'pid.kd'):
                off = [k for k, v in self.names.items() if v == fld and k[0] == p.base]
                if not off:
                    raise Unsupported('field %s not found' % fld)
                self.havoc_n += 1
                interp.store(Ptr(p.base, off[0][1]), self.sym('%s~%d' % (fld, self.havoc_n), real=True), llir.DOUBLE, st)
            return None
        return NotImplemented


def field_names(ctx, unit, sname, base='ctx'):
    m = ctx.module(unit)
    md = dwarf.MD(m)
    fl = md.flatten(sname)
    if not fl:
        raise Unsupported('no layout for struct %s' % sname)
    return {(base, off): nm for off, nm in fl.items()}


STEPS = [  # unit, function, struct, arg names, prefix of pid fields
    ('pid', 'a_pid_run_', 'a_pid', ['set', 'fdb', 'err'], ''),
    ('pid', 'a_pid_pos_', 'a_pid', ['fdb', 'err'], ''),
    ('pid', 'a_pid_inc_', 'a_pid', ['fdb', 'err'], ''),
    ('pid', 'a_pid_run', 'a_pid', ['set', 'fdb'], ''),
    ('pid', 'a_pid_pos', 'a_pid', ['set', 'fdb'], ''),
    ('pid', 'a_pid_inc', 'a_pid', ['set', 'fdb'], ''),
    ('pid_neuro', 'a_pid_neuro_run_', 'a_pid_neuro', ['set', 'fdb', 'err', 'ec'], 'pid.'),
    ('pid_neuro', 'a_pid_neuro_inc_', 'a_pid_neuro', ['fdb', 'err', 'ec'], 'pid.'),
    ('pid_neuro', 'a_pid_neuro_run', 'a_pid_neuro', ['set', 'fdb'], 'pid.'),
    ('pid_neuro', 'a_pid_neuro_inc', 'a_pid_neuro', ['set', 'fdb'], 'pid.'),
    ('pid_fuzzy', 'a_pid_fuzzy_run', 'a_pid_fuzzy', ['set', 'fdb'], 'pid.'),
    ('pid_fuzzy', 'a_pid_fuzzy_pos', 'a_pid_fuzzy', ['set', 'fdb'], 'pid.'),
    ('pid_fuzzy', 'a_pid_fuzzy_inc', 'a_pid_fuzzy', ['set', 'fdb'], 'pid.'),
]


def analyse(ctx, unit, fname, sname, argn):
    fn = ctx.fn(unit, fname)
    if fn is None:
        return None, None, None
    mods = [ctx.module(unit), ctx.module('pid')]
    names = field_names(ctx, unit, sname)
    dom = PidDom(names)
    if len(fn.params) != 1 + len(argn):
        raise Unsupported('%s has %d parameters, expected %d' % (fname, len(fn.params), 1 + len(argn)))
    args = [Ptr('ctx', 0)] + [dom.sym(a, real=True) for a in argn]
    it = symx.Interp(dom, lookup_in(mods), inline=lambda n: n != 'a_pid_fuzzy_out_')
    leaves = it.run(fn, args)
    return fn, dom, leaves


def fld(dom, leaf, name, final=True):
    """final (or entry) value of field `name`"""
    key = [k for k, v in dom.names.items() if v == name]
    if not key:
        raise Unsupported('no field %s' % name)
    key = key[0]
    if final and key in leaf.store:
        return leaf.store[key][0]
    return dom.sym(name, real=True)


def has_guard(pc, lo, v, strict_ordered=True):
    """the path condition establishes lo < v (or <=) for every non-NaN-limit input: a comparison between lo and v with the
    right direction (ordered, or the negation of an ordered test) plus NaN-safety of v: some *ordered* comparison that
    involves v holds on the path (limits are finite by the property's precondition, so then v is comparable)"""
    direction = False
    ordered_v = False
    for c in flat(pc):
        if not isinstance(c, alg.Cond) or c.kind != 'fcmp':
            continue
        r = c.rel()
        involves_v = alg.is_zero(c.a - v) or alg.is_zero(c.b - v)
        if involves_v and c.pred.startswith('o') and c.pred not in ('ord',):
            ordered_v = True
        if r in ('<', '<=') and alg.is_zero(c.a - lo) and alg.is_zero(c.b - v):
            direction = True
        if r in ('>', '>=') and alg.is_zero(c.b - lo) and alg.is_zero(c.a - v):
            direction = True
    # NaN can only arise from finite inputs (the property's precondition) through a division: demand NaN-safety there
    vv = sp.sympify(v)
    may_nan = any(isinstance(x, sp.Pow) and x.exp.is_number and x.exp < 0 for x in sp.preorder_traversal(vv))
    return direction and (ordered_v or not may_nan)


def flat(pc):
    for c in pc:
        if isinstance(c, alg.BoolOp) and c.op == 'and':
            for x in flat(c.args):
                yield x
        else:
            yield c


# ---------------------------------------------------------------- D5: what the public step functions hand to the step equations
class WrapDom(alg.Alg):
    """the step functions proper (trailing underscore) stay uninterpreted; after such a call every field of the controller holds an
    unknown new value, so a read behind it cannot pass for a read of the previous state"""
    def __init__(self, names, inner):
        alg.Alg.__init__(self, names)
        self.inner = inner
        self.ncall = 0

    def call(self, name, args, ins, interp, st, fn):
        if name in self.inner:
            self.ncall += 1
            st.calls.append((name, list(args)))
            for key, nm in self.names.items():
                st.store[key] = (self.sym('after%d_%s' % (self.ncall, nm), real=True), llir.DOUBLE)
            return self.sym('ret%d_%s' % (self.ncall, name), real=True)
        return alg.Alg.call(self, name, args, ins, interp, st, fn)


def derivations(ctx):
    """err = set - fdb; ec = err - (the error stored by the previous step), read before anything is updated; the fuzzy controllers
    schedule their gains from (ec, err) BEFORE the step that uses them; the arguments reach the step equations in the documented order"""
    rep = ctx.rep
    S_, F_ = sp.Symbol('set', real=True), sp.Symbol('fdb', real=True)
    E = S_ - F_
    PREV = sp.Symbol('pid.err', real=True)
    table = {
        ('pid', 'a_pid_run', 'a_pid', ''): [('a_pid_run_', ['ctx', S_, F_, E])],
        ('pid', 'a_pid_pos', 'a_pid', ''): [('a_pid_pos_', ['ctx', F_, E])],
        ('pid', 'a_pid_inc', 'a_pid', ''): [('a_pid_inc_', ['ctx', F_, E])],
        ('pid_neuro', 'a_pid_neuro_run', 'a_pid_neuro', 'pid.'): [('a_pid_neuro_run_', ['ctx', S_, F_, E, E - PREV])],
        ('pid_neuro', 'a_pid_neuro_inc', 'a_pid_neuro', 'pid.'): [('a_pid_neuro_inc_', ['ctx', F_, E, E - PREV])],
        ('pid_fuzzy', 'a_pid_fuzzy_run', 'a_pid_fuzzy', 'pid.'): [('a_pid_fuzzy_out_', ['ctx', E - PREV, E]), ('a_pid_run_', ['ctx', S_, F_, E])],
        ('pid_fuzzy', 'a_pid_fuzzy_pos', 'a_pid_fuzzy', 'pid.'): [('a_pid_fuzzy_out_', ['ctx', E - PREV, E]), ('a_pid_pos_', ['ctx', F_, E])],
        ('pid_fuzzy', 'a_pid_fuzzy_inc', 'a_pid_fuzzy', 'pid.'): [('a_pid_fuzzy_out_', ['ctx', E - PREV, E]), ('a_pid_inc_', ['ctx', F_, E])],
    }
    inner = set(n for v in table.values() for n, _ in v)
    for (unit, fname, sname, prefix), want in table.items():
        fn = ctx.fn(unit, fname)
        if fn is None:
            rep.unk('D5', fname, 'anchor vanished')
            continue
        loc = fn.loc(fn.entry.instrs[0])
        try:
            names = field_names(ctx, unit, sname)
            # the previous error is called pid.err in every controller
            names = {k: (v if prefix or v != 'err' else 'pid.err') for k, v in names.items()}
            dom = WrapDom(names, inner)
            mods = [ctx.module(unit)]
            # local helpers (a shared prologue extracted into a static function) are followed; the step functions stay opaque

            def lk(nm, mods=mods):
                for m_ in mods:
                    f_ = m_.functions.get(nm)
                    if f_ is not None and not f_.error and nm not in inner:
                        return f_
                return None
            it = symx.Interp(dom, lk)
            lv = it.run(fn, [Ptr('ctx', 0), dom.sym('set', real=True), dom.sym('fdb', real=True)])
            probs = []
            for lf in lv:
                calls = [c for c in lf.calls if isinstance(c, tuple) and c[0] in inner]
                if [c[0] for c in calls] != [n for n, _ in want]:
                    if sorted(c[0] for c in calls) == sorted(n for n, _ in want):
                        probs.append('calls %s, expected the order %s (the gains must be scheduled before the step that uses them)' % ([c[0] for c in calls], [n for n, _ in want]))
                        continue
                    # built from other pieces (a step inlined by hand, a new helper): not comparable with the table, no verdict
                    raise Unsupported('%s calls %s, the table expects %s' % (fname, [c[0] for c in calls], [n for n, _ in want]))
                for (cn, ca), (_, wa) in zip(calls, want):
                    if len(ca) != len(wa):
                        probs.append('%s gets %d arguments' % (cn, len(ca)))
                        continue
                    for k_, (a_, w_) in enumerate(zip(ca, wa)):
                        if w_ == 'ctx':
                            if not (isinstance(a_, Ptr) and a_.base == 'ctx'):
                                probs.append('%s: argument %d is %s, expected the controller' % (cn, k_ + 1, a_))
                        elif isinstance(a_, Ptr) or not alg.is_zero(sp.sympify(a_) - w_):
                            probs.append('%s: argument %d is %s, expected %s' % (cn, k_ + 1, a_, w_))
                if not (lf.ret is not None and str(lf.ret).startswith('ret%d_' % len(want))):
                    probs.append('returns %s, expected the result of %s' % (lf.ret, want[-1][0]))
            if not lv:
                probs.append('no path')
            if probs:
                rep.bad('D5', fname, '; '.join(sorted(set(probs))[:2]), loc=loc, key='%s: derivation of err / ec' % fname)
            else:
                rep.ok('D5', fname, '%s' % '; then '.join('%s(%s)' % (n, ', '.join(map(str, a))) for n, a in want), loc=loc, sample={'fn': fname, 'calls': [n for n, _ in want]})
        except Unsupported as e:
            rep.unk('D5', fname, str(e), loc=loc)


def run(ctx):
    rep = ctx.rep
    rep.explanation = ('every step function is abstractly interpreted over exact real-closed terms with the controller state and inputs '
                       'symbolic; its decision-tree leaves give, per path, the path condition (ordered float comparisons), the returned '
                       'value and the final state.  D1: every leaf returns outmin, outmax, or a value guarded by ordered comparisons '
                       'outmin < v < outmax (so NaN cannot pass).  D2: sum changes exactly on the leaves whose path condition satisfies the '
                       'documented integration condition.  D3: leaf values equal the documented difference equations; pos/inc coincide '
                       'algebraically.  D4: zero() stores 0 to every field that steps carry over and no setter writes')
    rep.trusted += ['lib/symx.py + lib/alg.py', 'sympy']
    rep.assumptions += ['IEEE operations read as exact real operations; finiteness of state over unbounded histories is not decided',
                        'the fuzzy scratch buffers (idx/val) and rule tables do not overlap the controller object; the operator callback is pure']
    results = {}
    for unit, fname, sname, argn, pre in STEPS:
        try:
            fn, dom, leaves = analyse(ctx, unit, fname, sname, argn)
        except Unsupported as e:
            rep.unk('D1', fname, str(e))
            continue
        if fn is None:
            rep.unk('D1', fname, 'anchor vanished')
            continue
        results[fname] = (fn, dom, leaves, pre)
        loc = fn.loc(fn.entry.instrs[0])
        omin = dom.sym(pre + 'outmin', real=True)
        omax = dom.sym(pre + 'outmax', real=True)
        probs = []
        kinds = set()
        for lf in leaves:
            r = lf.ret
            try:
                o = fld(dom, lf, pre + 'out')
            except Unsupported as e:
                probs.append(str(e))
                continue
            if r is None or r is TOP:
                probs.append('returns an undefined value')
                continue
            if not alg.is_zero(sp.sympify(r) - sp.sympify(o)):
                probs.append('returned value %s differs from the stored output %s' % (str(r)[:80], str(o)[:80]))
            for nm in ('outmin', 'outmax'):
                k = [kk for kk, v in dom.names.items() if v == pre + nm][0]
                if k in lf.store:
                    probs.append('step function overwrites the limit %s' % nm)
            if alg.is_zero(r - omin):
                kinds.add('min')
            elif alg.is_zero(r - omax):
                kinds.add('max')
            elif has_guard(lf.pc, omin, r) and has_guard(lf.pc, r, omax):
                kinds.add('mid')
            else:
                probs.append('a path returns %s without ordered guards outmin < v < outmax (path: %s)' % (str(r)[:120], str(lf.pc)[:200]))
        if not probs and kinds != {'min', 'max', 'mid'}:
            probs.append('clamp leaves %s, expected outmin / outmax / guarded value' % sorted(kinds))
        if probs:
            rep.bad('D1', fname, '; '.join(sorted(set(probs))[:3]), loc=loc, key='%s: clamp' % fname)
        else:
            rep.ok('D1', fname, '%d paths: each returns outmin, outmax or a value with ordered guards outmin < v < outmax; stored out = returned value'
                   % len(leaves), loc=loc, sample={'fn': fname, 'paths': len(leaves)})
    fuzzy_summary(ctx)
    integrator(ctx, results)
    equations(ctx, results)
    zero(ctx, results)
    derivations(ctx)
    rep.floor('D5', 8)
    # the fuzzy gain scheduler feeding the PID step: buffer discipline, weighted mean, guarded normaliser (shared with C13)
    from props import C13_fuzzy
    C13_fuzzy.run(ctx)
    for r_ in ('F5a', 'F5b', 'F5c', 'F5d', 'F5e'):
        rep.floor(r_, 1)
    rep.floor('D1', 13)
    rep.floor('D2', 1)
    rep.floor('D3', 6)
    rep.floor('D4', 3)
    fixtures(ctx)


def fuzzy_summary(ctx):
    """D1s: a_pid_fuzzy_out_ touches the controller core only through a_pid_set_kpid"""
    rep = ctx.rep
    fn = ctx.fn('pid_fuzzy', 'a_pid_fuzzy_out_')
    if fn is None:
        rep.unk('D1s', 'a_pid_fuzzy_out_', 'anchor vanished')
        return
    loc = fn.loc(fn.entry.instrs[0])
    eff = effects.effects(fn)
    probs = []
    for roots, ins in eff['stores']:
        for r in roots:
            if r[0] == 'param' and r[1] == fn.params[0][1]:
                probs.append('direct store into the controller object at %s' % fn.loc(ins))
            elif r[0] in ('top',):
                probs.append('store through an untracked pointer at %s' % fn.loc(ins))
    allowed = {'a_pid_fuzzy_mf', 'a_pid_set_kpid', None}
    mod_ = ctx.module('pid_fuzzy')
    for n, ins in eff['calls']:
        if n not in allowed and not (n or '').startswith('llvm.'):
            callee = mod_.functions.get(n)
            if callee is not None and not callee.error and 'internal' in (callee.linkage or ''):
                # a file-local helper (part of the scheduler extracted into a static function): it must not store or call anything itself
                ce = effects.effects(callee)
                bad_st = [1 for roots, _ in ce['stores'] for r in roots if r[0] in ('param', 'top')]
                bad_ca = [c for c, _ in ce['calls'] if c is not None and not c.startswith('llvm.')]
                if bad_st or bad_ca:
                    probs.append('calls the helper %s, which stores through its arguments or calls %s' % (n, bad_ca))
                continue
            probs.append('calls %s' % n)
    # the final call passes base gains + offsets
    setk = [ins for n, ins in eff['calls'] if n == 'a_pid_set_kpid']
    if len(setk) != 1:
        probs.append('%d calls to a_pid_set_kpid, expected 1' % len(setk))
    if probs:
        rep.bad('D1s', 'a_pid_fuzzy_out_', '; '.join(sorted(set(probs))[:3]), loc=loc, key='a_pid_fuzzy_out_: effects')
    else:
        rep.ok('D1s', 'a_pid_fuzzy_out_', 'writes only scratch buffers reached through loaded pointers and pid.kp/ki/kd via a_pid_set_kpid (%d stores, %d calls)'
               % (len(eff['stores']), len(eff['calls'])), loc=loc)
    # a_pid_set_kpid writes exactly kp, ki, kd
    try:
        fn2, dom, leaves = analyse(ctx, 'pid', 'a_pid_set_kpid', 'a_pid', ['kp_', 'ki_', 'kd_'])
        w = sorted(dom.names[k] for k in leaves[0].store if k in dom.names)
        if w == ['kd', 'ki', 'kp'] and len(leaves) == 1:
            rep.ok('D1s', 'a_pid_set_kpid', 'stores exactly kp, ki, kd')
        else:
            rep.bad('D1s', 'a_pid_set_kpid', 'stores %s' % w, key='a_pid_set_kpid: effects')
    except Unsupported as e:
        rep.unk('D1s', 'a_pid_set_kpid', str(e))


def truth3(pc, atoms):
    """three-valued truth of named atoms from the path condition; atoms: name -> (lhs, rhs) meaning lhs < rhs"""
    val = {}
    for c in flat_all(pc):
        if not isinstance(c, alg.Cond) or c.kind != 'fcmp':
            continue
        for nm, (l, r) in atoms.items():
            rel = c.rel()
            pos = c.pred.startswith('o')
            if alg.is_zero(c.a - l) and alg.is_zero(c.b - r):
                if rel == '<':
                    val[nm] = True
                elif rel == '>=':
                    val[nm] = False
            elif alg.is_zero(c.a - r) and alg.is_zero(c.b - l):
                if rel == '>':
                    val[nm] = True
                elif rel == '<=':
                    val[nm] = False
    return val


def _atom_of(c, atoms):
    """(name, truth of the atom when c holds) for a comparison that is one of the atoms in some spelling"""
    if not isinstance(c, alg.Cond) or c.kind != 'fcmp':
        return None
    rel = c.rel()
    for nm, (l, r) in atoms.items():
        if alg.is_zero(c.a - l) and alg.is_zero(c.b - r):
            if rel == '<':
                return (nm, True)
            if rel == '>=':
                return (nm, False)
        elif alg.is_zero(c.a - r) and alg.is_zero(c.b - l):
            if rel == '>':
                return (nm, True)
            if rel == '<=':
                return (nm, False)
    return None


def decide_by_models(pc, atoms):
    """value of (lo and hi) or dir when it is the same under every assignment of the atoms consistent with the path condition"""
    import itertools

    def ev(c, asg):
        if isinstance(c, alg.BoolOp):
            vals = [ev(x, asg) for x in c.args]
            if c.op == 'and':
                return all(vals)
            if c.op == 'or':
                return any(vals)
            return True
        a = _atom_of(c, atoms)
        if a is None:
            return True          # a condition about something else does not restrict the atoms
        return asg[a[0]] == a[1]
    seen = set()
    for bits in itertools.product((False, True), repeat=3):
        asg = dict(zip(('lo', 'hi', 'dir'), bits))
        if all(ev(c, asg) for c in pc):
            seen.add((asg['lo'] and asg['hi']) or asg['dir'])
    return seen.pop() if len(seen) == 1 else None


def decide_by_signs(pc, s, err, smin, smax):
    """the documented condition on a path whose tests are spelled through signs: enumerate the sign models of (sum, err) and the
    position of sum relative to its limits (summin <= 0 <= summax); evaluate every condition that speaks about these four symbols only;
    conditions with other symbols (the output clamp) can be met independently of the model by the free limits they mention.
    -> True / False when all models of the path agree, 'mixed' when the path contains models of both kinds, None when a condition over
    the four symbols cannot be evaluated"""
    import itertools
    core = {s, err, smin, smax}
    seen = set()
    # concrete representatives: sum in {-2,-1,0,1,2}, limits summin in {-1,0}, summax in {0,1}, err in {-1,0,1}
    for sv, ev_, lo_, hi_ in itertools.product((-2, -1, 0, 1, 2), (-1, 0, 1), (-1, 0), (0, 1)):
        env = {s: sv, err: ev_, smin: lo_, smax: hi_}

        def ev(c):
            if isinstance(c, alg.BoolOp):
                vs = [ev(a) for a in c.args]
                if c.op == 'and':
                    return False if False in vs else (None if None in vs else True)
                return True if True in vs else (None if None in vs else False)
            if not isinstance(c, alg.Cond):
                return None
            fs = sp.sympify(c.a).free_symbols | sp.sympify(c.b).free_symbols
            if not fs <= core:
                return 'free' if fs - core else None
            d = sp.sympify(c.a).subs(env) - sp.sympify(c.b).subs(env)
            rel = c.rel()
            return {'<': d < 0, '<=': d <= 0, '>': d > 0, '>=': d >= 0, '==': d == 0, '!=': d != 0}[rel]

        def ev3(c):
            v = ev(c)
            return True if v == 'free' else v
        vals = []
        for c in pc:
            if isinstance(c, alg.BoolOp):
                # a disjunction / conjunction mixing core and free conditions: free parts are satisfiable independently
                def evb(x):
                    if isinstance(x, alg.BoolOp):
                        vs = [evb(a) for a in x.args]
                        if x.op == 'and':
                            return False if False in vs else (None if None in vs else True)
                        return True if True in vs else (None if None in vs else False)
                    return ev3(x)
                vals.append(evb(c))
            else:
                vals.append(ev3(c))
        if None in vals:
            return None
        if all(bool(v) for v in vals):
            seen.add(bool((lo_ < sv and sv < hi_) or sv * ev_ < 0))
    if len(seen) == 2:
        return 'mixed'
    return seen.pop() if seen else 'infeasible'


def flat_all(pc):
    for c in pc:
        if isinstance(c, alg.BoolOp):
            if c.op == 'and':
                for x in flat_all(c.args):
                    yield x
        else:
            yield c


def integrator(ctx, results):
    rep = ctx.rep
    if 'a_pid_pos_' not in results:
        rep.unk('D2', 'a_pid_pos_', 'not analysed')
        return
    fn, dom, leaves, pre = results['a_pid_pos_']
    loc = fn.loc(fn.entry.instrs[0])
    # the parameters fdb / err carry the names of the fields that hold the PREVIOUS feedback / error: analyse with distinct names,
    # otherwise sum * ctx->err (previous error) cannot be told from sum * err (current error)
    try:
        fn, dom, leaves = analyse(ctx, 'pid', 'a_pid_pos_', 'a_pid', ['fdb_in', 'err_in'])
    except Unsupported as e:
        rep.unk('D2', 'a_pid_pos_', str(e))
        return
    s = dom.sym('sum', real=True)
    smin, smax = dom.sym('summin', real=True), dom.sym('summax', real=True)
    ki, err = dom.sym('ki', real=True), dom.sym('err_in', real=True)
    atoms = {'lo': (smin, s), 'hi': (s, smax), 'dir': (s * err, sp.Integer(0))}
    probs = []
    unks = []
    n_int = n_hold = 0
    for lf in leaves:
        sf = fld(dom, lf, 'sum')
        changed = not alg.is_zero(sf - s)
        t = truth3(lf.pc, atoms)

        def A(x):
            return t.get(x)
        # doc: (lo and hi) or dir   (three-valued)
        def and3(a, b):
            if a is False or b is False:
                return False
            if a is None or b is None:
                return None
            return True

        def or3(a, b):
            if a is True or b is True:
                return True
            if a is None or b is None:
                return None
            return False
        want = or3(and3(A('lo'), A('hi')), A('dir'))
        if want is None:
            # the path condition may hold disjunctions (a || b merged into one test): decide by enumerating the truth values of the
            # three atoms that are consistent with it
            want = decide_by_models(lf.pc, atoms)
        if want is None:
            want = decide_by_signs(lf.pc, s, err, smin, smax)
        if want == 'infeasible':
            continue      # no order of sum, its limits and the sign of err satisfies the path: it is never taken
        if want == 'mixed':
            probs.append('the path %s is taken both where the documented condition (summin < sum < summax) or sum*err < 0 holds and where it does not '
                         '(e.g. sum = 0 on a limit with err < 0)' % (str(lf.pc)[:200]))
            continue
        if want is None:
            unks.append('path condition %s does not determine the integration condition' % (str(lf.pc)[:160]))
            continue
        if changed != want:
            probs.append('integrator %s on a path where the documented condition is %s (path %s)' % (
                'moves' if changed else 'holds', want, str(lf.pc)[:160]))
        if changed:
            n_int += 1
            if not alg.is_zero(sf - (s + ki * err)):
                probs.append('integrator increment is %s, expected ki*err' % sp.expand(sf - s))
        else:
            n_hold += 1
    if (not n_int or not n_hold) and not unks:
        probs.append('integrating paths: %d, holding paths: %d' % (n_int, n_hold))
    if not probs and unks:
        rep.unk('D2', 'a_pid_pos_', '; '.join(sorted(set(unks))[:2]), loc=loc)
    elif probs:
        rep.bad('D2', 'a_pid_pos_', '; '.join(sorted(set(probs))[:3]), loc=loc, key='a_pid_pos_: integrator guard')
    else:
        rep.ok('D2', 'a_pid_pos_', 'sum += ki*err exactly when (summin < sum < summax) or sum*err < 0 (%d integrating, %d holding paths): '
               'outside its clamp the integrator only moves back, so it overshoots by at most one increment' % (n_int, n_hold), loc=loc,
               sample={'paths': len(leaves)})


def mid_leaves(dom, leaves, pre):
    omin = dom.sym(pre + 'outmin', real=True)
    omax = dom.sym(pre + 'outmax', real=True)
    out = []
    for lf in leaves:
        r = sp.sympify(lf.ret)
        if not alg.is_zero(r - omin) and not alg.is_zero(r - omax):
            out.append(lf)
    return out


def equations(ctx, results):
    rep = ctx.rep
    S = lambda dom, n: dom.sym(n, real=True)
    # ---- documented equations on the unclamped leaves
    specs = {
        'a_pid_run_': lambda d: S(d, 'set'),
        'a_pid_inc_': lambda d: S(d, 'out') + S(d, 'kp') * (S(d, 'err') - S(d, 'err@')) + S(d, 'ki') * S(d, 'err') + S(d, 'kd') * ((S(d, 'fdb@') - S(d, 'fdb')) - S(d, 'var')),
    }
    for fname in ('a_pid_run_', 'a_pid_pos_', 'a_pid_inc_'):
        if fname not in results:
            rep.unk('D3', fname, 'not analysed')
            continue
        fn, dom, leaves, pre = results[fname]
        loc = fn.loc(fn.entry.instrs[0])
        # entry state symbols are named like the fields; arguments fdb/err shadow the field names: rename args
        probs = []
        # re-run with distinct argument names to avoid the clash between parameter and field names
        try:
            argn = {'a_pid_run_': ['set', 'fdb_in', 'err_in'], 'a_pid_pos_': ['fdb_in', 'err_in'], 'a_pid_inc_': ['fdb_in', 'err_in']}[fname]
            fn, dom, leaves = analyse(ctx, 'pid', fname, 'a_pid', argn)
        except Unsupported as e:
            rep.unk('D3', fname, str(e))
            continue
        results[fname + '#'] = (fn, dom, leaves, '')
        kp, ki, kd = S(dom, 'kp'), S(dom, 'ki'), S(dom, 'kd')
        e_, f_ = S(dom, 'err_in'), S(dom, 'fdb_in')
        var_new = S(dom, 'fdb') - f_
        for lf in leaves:
            if fname == 'a_pid_run_':
                want = S(dom, 'set')
            elif fname == 'a_pid_inc_':
                want = S(dom, 'out') + kp * (e_ - S(dom, 'err')) + ki * e_ + kd * (var_new - S(dom, 'var'))
            else:
                want = kp * e_ + fld(dom, lf, 'sum') + kd * var_new
            for nm, w in (('var', var_new), ('fdb', f_), ('err', e_)):
                if not alg.is_zero(fld(dom, lf, nm) - w):
                    probs.append('cache %s becomes %s, expected %s' % (nm, fld(dom, lf, nm), w))
            r = sp.sympify(lf.ret)
            if alg.is_zero(r - S(dom, 'outmin')) or alg.is_zero(r - S(dom, 'outmax')):
                # the clamped candidate must be the same expression: the guards mention it
                cand = [c for c in flat_all(lf.pc) if isinstance(c, alg.Cond) and (alg.is_zero(c.a - want) or alg.is_zero(c.b - want))]
                if not cand:
                    probs.append('the value tested against the limits is not the documented expression on a saturating path')
                continue
            if not alg.is_zero(r - want):
                probs.append('output %s, documented %s' % (sp.expand(r), sp.expand(want)))
        if probs:
            rep.bad('D3', fname, '; '.join(sorted(set(probs))[:3]), loc=loc, key='%s: equation' % fname)
        else:
            rep.ok('D3', fname, 'unclamped output and the caches var/fdb/err equal the documented difference equation on all %d paths' % len(leaves),
                   loc=loc, sample={'fn': fname})
    # ---- pos / inc coincidence
    if 'a_pid_pos_#' in results and 'a_pid_inc_#' in results:
        fnp, dp, lp, _ = results['a_pid_pos_#']
        fni, di, li, _ = results['a_pid_inc_#']
        mp = [l for l in mid_leaves(dp, lp, '') if not alg.is_zero(fld(dp, l, 'sum') - S(dp, 'sum'))]
        mi = mid_leaves(di, li, '')
        if len(mi) != 1 or not mp:
            rep.unk('D3', 'pos/inc', 'no unclamped integrating leaf (pos %d, inc %d)' % (len(mp), len(mi)))
        else:
            ok = True
            for l in mp:
                prev = S(dp, 'kp') * S(dp, 'err') + S(dp, 'sum') + S(dp, 'kd') * S(dp, 'var')
                inc = sp.sympify(mi[0].ret) - S(di, 'out')
                # both domains use the same symbol names
                if not alg.is_zero((sp.sympify(l.ret) - prev) - inc):
                    ok = False
            if ok:
                rep.ok('D3', 'pos/inc', 'positional output minus the positional expression of the previous state equals the increment of a_pid_inc_ '
                       '(polynomial identity): the two modes coincide while no limit is active')
            else:
                rep.bad('D3', 'pos/inc', 'positional and incremental forms differ algebraically', key='pos/inc: coincidence')
    # ---- wrappers pass err = set - fdb
    for unit, fname, sname, argn, pre in STEPS:
        if fname.endswith('_') or fname not in results:
            continue
        fn, dom, leaves, pre = results[fname]
        loc = fn.loc(fn.entry.instrs[0])
        bad = []
        for lf in leaves:
            e = fld(dom, lf, pre + 'err')
            if not alg.is_zero(e - (S(dom, 'set') - S(dom, 'fdb'))):
                bad.append('err cache becomes %s, expected set - fdb' % e)
        if bad:
            rep.bad('D3', fname, bad[0], loc=loc, key='%s: err' % fname)
        else:
            rep.ok('D3', fname, 'error passed on is set - fdb', loc=loc)


def zero(ctx, results):
    rep = ctx.rep
    groups = [('pid', 'a_pid', 'a_pid_zero', ['a_pid_run_', 'a_pid_pos_', 'a_pid_inc_'], ''),
              ('pid_neuro', 'a_pid_neuro', 'a_pid_neuro_zero', ['a_pid_neuro_run_', 'a_pid_neuro_inc_'], 'pid.'),
              ('pid_fuzzy', 'a_pid_fuzzy', 'a_pid_fuzzy_zero', ['a_pid_fuzzy_run', 'a_pid_fuzzy_pos', 'a_pid_fuzzy_inc'], 'pid.')]
    for unit, sname, zname, steps, pre in groups:
        try:
            carried = set()
            names = None
            for s in steps:
                if s not in results:
                    raise Unsupported('%s not analysed' % s)
                fn, dom, leaves, _ = results[s]
                names = dom.names
                written = set()
                read = set()
                for lf in leaves:
                    written |= set(names[k] for k in lf.store if k in names)
                    for (b, off, ty) in lf.entry:
                        if (b, off) in names:
                            read.add(names[(b, off)])
                carried |= (written & read)
                # fields written by one step and read by another also carry state
                results.setdefault('_w' + unit, set()).update(written)
                results.setdefault('_r' + unit, set()).update(read)
            carried |= results['_w' + unit] & results['_r' + unit]
            # setters: functions of the unit named *_set_*
            m = ctx.module(unit)
            setter_w = set()
            for fname, f in m.functions.items():
                if '_set_' in fname and f.params and f.params[0][0].is_ptr:
                    try:
                        fn2, d2, lv = analyse(ctx, unit, fname, sname, ['p%d' % i for i in range(len(f.params) - 1)])
                        for lf in lv:
                            setter_w |= set(d2.names[k] for k in lf.store if k in d2.names)
                    except Unsupported:
                        pass
            need = sorted(carried - setter_w)
            fz, dz, lz = analyse(ctx, unit, zname, sname, [])
            if fz is None:
                rep.unk('D4', zname, 'anchor vanished')
                continue
            loc = fz.loc(fz.entry.instrs[0])
            missing = []
            for lf in lz:
                for nm in need:
                    k = [kk for kk, v in dz.names.items() if v == nm][0]
                    if k not in lf.store or not alg.is_zero(sp.sympify(lf.store[k][0])):
                        missing.append(nm)
            if missing:
                rep.bad('D4', zname, 'step-carried field(s) %s not reset to 0' % sorted(set(missing)), loc=loc, key='%s: %s' % (zname, sorted(set(missing))[0]))
            else:
                rep.ok('D4', zname, 'stores 0 to every step-carried field not owned by a setter: %s' % need, loc=loc, sample={'zero': zname, 'fields': need})
        except Unsupported as e:
            rep.unk('D4', zname, str(e))


def fixtures(ctx):
    d = alg.Alg()
    a, b, v = d.sym('lo', real=True), d.sym('hi', real=True), d.sym('v', real=True)
    good = [alg.Cond('fcmp', 'olt', a, v), alg.Cond('fcmp', 'olt', v, b)]
    bad = [alg.Cond('fcmp', 'uge', v, a), alg.Cond('fcmp', 'uge', b, v)]  # only negated tests: NaN passes both
    alt = [alg.Cond('fcmp', 'uge', v, a), alg.Cond('fcmp', 'olt', v, b)]  # min-first clamp spelling: still NaN-safe
    if has_guard(good, a, v) and has_guard(good, v, b) and not has_guard([alg.Cond('fcmp', 'uge', 1 / v, a), alg.Cond('fcmp', 'uge', b, 1 / v)], a, 1 / v) and has_guard(alt, a, v):
        ctx.rep.ok('FIXTURE', 'clamp-guard', 'unordered (NaN-passing) guard rejected, ordered guard accepted')
    else:
        ctx.rep.unk('FIXTURE', 'clamp-guard', 'positive control failed')
