"""C04 rule B8 - contents against the abstract sequence on the loop-free paths (symbolic index query).

For a path of a container operation the block effects (a_copy / a_move / a_swap with element offsets and lengths that are linear
terms in the count, the index and count arguments) are known.  For a FRESH symbolic position k of the final sequence the
analysis walks the effects backwards: if k lies in the destination of an effect it came from the corresponding source position,
otherwise it is unchanged - a case split decided by Fourier-Motzkin feasibility under the path condition.  The origin reached
(old[e], ext[e] = the caller's array, or a new slot) must be the one the abstract sequence operation prescribes for k; the final
count and the element the returned pointer designates are compared as well.  An overlapping a_swap(p, p + siz, m*siz) is the
left rotation by one over m + 1 elements (lemma resting on rule B5)."""
import sympy as sp
import fm, lin
from lin import Effect
from symx import Ptr, Unsupported

S = lambda n: sp.Symbol(n, integer=True, nonnegative=True)
K = sp.Symbol('pos', integer=True, nonnegative=True)


def block_ops(C, lf, siz):
    """[(kind, dst element, src ('st'|'ext', element) , length in elements)] in program order; None if not expressible"""
    ops = []
    es = [e for e in lf.calls if isinstance(e, Effect) and e.name in ('a_copy', 'a_move', 'a_swap', 'memcpy', 'memmove')]
    i = 0
    while i < len(es):
        e = es[i]
        if i + 1 >= len(es) or es[i + 1].ins is not e.ins:
            return None
        f = es[i + 1]
        i += 2
        d_is, d_off = C.storage(Ptr(e.base, e.off))
        s_is, s_off = C.storage(Ptr(f.base, f.off))
        n = lin.divide(e.size, siz)
        if n is None:
            return None
        if e.name == 'a_swap':
            if not (d_is and s_is):
                return None
            a, b = lin.divide(d_off, siz), lin.divide(s_off, siz)
            if a is None or b is None:
                return None
            ops.append(('swap', a, ('st', b), n))
            continue
        if not d_is:
            continue        # copies out of the container do not change it
        a = lin.divide(d_off, siz)
        if a is None:
            return None
        if s_is:
            b = lin.divide(s_off, siz)
            if b is None:
                return None
            ops.append(('copy', a, ('st', b), n))
        else:
            b = lin.divide(f.off, siz)
            if b is None:
                return None
            ops.append(('copy', a, ('ext', b), n))
    return ops


def con(c, kenv):
    return lin.subst_con(c, kenv)


def feasible(cons):
    return not fm.unsat(cons)


def origins(q, ops, cons, kenv):
    """walk the effects backwards from position q: -> [(constraints, ('old'|'ext', expr))]"""
    alts = [(list(cons), q)]
    done = []
    for kind, a, (sk, b), n in reversed(ops):
        nxt = []
        for cs, x in alts:
            if kind == 'put':
                hit = cs + [con(fm.le(a, x), kenv), con(fm.le(x, a), kenv)]
                if feasible(hit):
                    done.append((hit, ('val', b)))
                below = cs + [con(fm.le(x, a - 1), kenv)]
                if feasible(below):
                    nxt.append((below, x))
                above = cs + [con(fm.le(a + 1, x), kenv)]
                if feasible(above):
                    nxt.append((above, x))
            elif kind == 'copy':
                inside = cs + [con(fm.le(a, x), kenv), con(fm.le(x, a + n - 1), kenv)]
                if feasible(inside):
                    if sk == 'st':
                        nxt.append((inside, sp.expand(x - a + b)))
                    else:
                        done.append((inside, ('ext', sp.expand(x - a + b))))
                below = cs + [con(fm.le(x, a - 1), kenv)]
                if feasible(below):
                    nxt.append((below, x))
                above = cs + [con(fm.le(a + n, x), kenv)]
                if feasible(above):
                    nxt.append((above, x))
            else:
                d = sp.expand(b - a)
                if d == 1:
                    # rotation over [a, a + n]: position a + n receives old a, the others shift down
                    last = cs + [con(fm.le(a + n, x), kenv), con(fm.le(x, a + n), kenv), con(fm.le(1, n), kenv)]
                    if feasible(last):
                        nxt.append((last, sp.expand(a)))
                    mid = cs + [con(fm.le(a, x), kenv), con(fm.le(x, a + n - 1), kenv)]
                    if feasible(mid):
                        nxt.append((mid, sp.expand(x + 1)))
                    below = cs + [con(fm.le(x, a - 1), kenv)]
                    if feasible(below):
                        nxt.append((below, x))
                    above = cs + [con(fm.le(a + n + 1, x), kenv)]
                    if feasible(above):
                        nxt.append((above, x))
                    zero = cs + [con(fm.le(n, 0), kenv), con(fm.le(a, x), kenv), con(fm.le(x, a), kenv)]
                    if feasible(zero):
                        nxt.append((zero, x))
                else:
                    raise Unsupported('a_swap of ranges %s apart' % d)
        alts = nxt
    return done + [(cs, ('old', x)) for cs, x in alts]


def eq_entailed(cons, x, y, kenv):
    try:
        return fm.entails(cons, con(fm.le(x, y), kenv)) and fm.entails(cons, con(fm.le(y, x), kenv))
    except fm.NonLinear:
        return False


# ---------------------------------------------------------------- abstract sequence operations
def spec_for(name, kind):
    """-> function(status) -> dict(final=expr, pieces=[(conds, origin)], ret=None|('content', conds, origin)) ; status 'ok' | 'fail'"""
    n0 = S('num_')
    idx = S('arg_idx')
    cnt = S('arg_num')
    base = name[len('a_%s_' % kind):]
    L = fm.le
    same = dict(final=n0, pieces=[([], ('old', K))], ret=None)

    def push_at(i):
        return dict(final=n0 + 1, pieces=[([L(K, i - 1)], ('old', K)), ([L(i + 1, K)], ('old', K - 1)), ([L(i, K), L(K, i)], ('new', None))],
                    ret=('slot', [], i))

    def remove_at(j):
        return dict(final=n0 - 1, pieces=[([L(K, j - 1)], ('old', K)), ([L(j, K)], ('old', K + 1))], ret=('content', [], ('old', j)))
    if base == 'push_back':
        return lambda st: [([], push_at(n0))] if st == 'ok' else [([], same)]
    if base == 'push_fore':
        return lambda st: [([], push_at(sp.Integer(0)))] if st == 'ok' else [([], same)]
    if base == 'insert':
        return lambda st: [([L(idx, n0 - 1)], push_at(idx)), ([L(n0, idx)], push_at(n0))] if st == 'ok' else [([], same)]
    if base == 'pull_back':
        return lambda st: [([L(1, n0)], remove_at(n0 - 1))] if st == 'ok' else [([L(n0, 0)], same)]
    if base == 'pull_fore':
        return lambda st: [([L(1, n0)], remove_at(sp.Integer(0)))] if st == 'ok' else [([L(n0, 0)], same)]
    if base == 'remove':
        return lambda st: [([L(1, n0), L(idx, n0 - 2)], remove_at(idx)), ([L(1, n0), L(n0 - 1, idx)], remove_at(n0 - 1))] if st == 'ok' else [([L(n0, 0)], same)]
    if base == 'erase':
        def er(st):
            if st != 'ok':
                return [([L(n0, idx)], same)]
            out = []
            # c = min(cnt, n0 - idx)
            for cs, c in (([L(cnt, n0 - idx)], cnt), ([L(n0 - idx + 1, cnt)], n0 - idx)):
                out.append(([L(idx, n0 - 1)] + cs, dict(final=n0 - c, pieces=[([L(K, idx - 1)], ('old', K)), ([L(idx, K)], ('old', K + c))], ret=None)))
            return out
        return er
    if base == 'store':
        def stf(st):
            if st != 'ok':
                return [([], same)]
            out = [([L(cnt, 0)], same)]
            out.append(([L(1, cnt), L(idx, n0 - 1)], dict(final=n0 + cnt, pieces=[([L(K, idx - 1)], ('old', K)), ([L(idx, K), L(K, idx + cnt - 1)], ('ext', K - idx)),
                                                                                   ([L(idx + cnt, K)], ('old', K - cnt))], ret=None)))
            out.append(([L(1, cnt), L(n0, idx)], dict(final=n0 + cnt, pieces=[([L(K, n0 - 1)], ('old', K)), ([L(n0, K)], ('ext', K - n0))], ret=None)))
            return out
        return stf
    return None


def status_of(lf, dom):
    r = lf.ret
    if isinstance(r, Ptr):
        return 'fail' if r.base == 'null' else 'ok'
    if r is None:
        return 'ok'
    c = dom.concrete(r)
    if c is not None:
        return 'ok' if c == 0 else 'fail'
    return None


def check(C, fn, name, dom, leaves, facts0, rep):
    spec = spec_for(name, C.kind)
    if spec is None:
        return
    siz = S('siz_')
    loc = fn.loc(fn.entry.instrs[0])
    probs, unk = [], []
    nq = 0
    for lf in leaves:
        st = status_of(lf, dom)
        if st is None:
            continue      # result of a callback inside a summarised loop: contents on such paths are not decided
        try:
            ops = block_ops(C, lf, siz)
        except Unsupported as e:
            unk.append(str(e))
            continue
        if ops is None:
            unk.append('a block effect is not a whole number of elements')
            continue
        fin = sp.sympify(lf.store[('ctx', C.off['num_'])][0]) if ('ctx', C.off['num_']) in lf.store else S('num_')
        try:
            cases = lin.cases_of(dom, lf, facts0)
        except Unsupported as e:
            unk.append(str(e))
            continue
        for cs in cases:
            kenv = cs.kenv
            for sconds, sp_ in spec(st):
                try:
                    cons = cs.cons + [con(c, kenv) for c in sconds]
                except fm.NonLinear:
                    continue
                if not feasible(cons):
                    continue
                # final count
                nq += 1
                if not eq_entailed(cons, fin, sp_['final'], kenv):
                    w = lin.witness(lin.Case(cons, kenv), con(fm.le(fin, sp_['final']), kenv), None) or \
                        lin.witness(lin.Case(cons, kenv), con(fm.le(sp_['final'], fin), kenv), None)
                    probs.append(('count', 'element count becomes %s, the abstract sequence has %s elements%s' % (fin, sp_['final'], wit(w))))
                    continue
                # contents
                for pconds, want in sp_['pieces']:
                    try:
                        c2 = cons + [con(fm.le(0, K), kenv), con(fm.le(K, sp_['final'] - 1), kenv)] + [con(c, kenv) for c in pconds]
                    except fm.NonLinear:
                        continue
                    if not feasible(c2):
                        continue
                    if want[0] == 'new':
                        continue
                    try:
                        alts = origins(K, ops, c2, kenv)
                    except Unsupported as e:
                        unk.append(str(e))
                        continue
                    for c3, got in alts:
                        nq += 1
                        if got[0] != want[0] or not eq_entailed(c3, got[1], want[1], kenv):
                            w = lin.witness(lin.Case(c3, kenv), con(fm.le(got[1] + 1, want[1]), kenv), None) if got[0] == want[0] else None
                            w = w or lin.witness(lin.Case(c3, kenv), con(fm.le(want[1] + 1, got[1]), kenv), None) if got[0] == want[0] else w
                            probs.append(('content', 'position pos of the result holds %s[%s], the abstract sequence has %s[%s] there%s' % (
                                got[0], got[1], want[0], want[1], wit(w))))
                # returned element
                rs = sp_['ret']
                if rs is not None and isinstance(lf.ret, Ptr) and lf.ret.base != 'null':
                    isst, off = C.storage(lf.ret)
                    X = lin.divide(off, siz) if isst else None
                    if X is None:
                        unk.append('returned pointer is not an element address')
                    elif rs[0] == 'slot':
                        nq += 1
                        if not eq_entailed(cons, X, rs[2], kenv):
                            probs.append(('return', 'returns element %s, the new slot is at %s' % (X, rs[2])))
                    else:
                        try:
                            alts = origins(X, ops, cons, kenv)
                        except Unsupported as e:
                            unk.append(str(e))
                            alts = []
                        for c3, got in alts:
                            nq += 1
                            if got[0] != rs[2][0] or not eq_entailed(c3, got[1], rs[2][1], kenv):
                                probs.append(('return', 'the returned pointer designates %s[%s], the removed element is %s[%s]' % (got[0], got[1], rs[2][0], rs[2][1])))
    if probs:
        seen = set()
        for kind, msg in probs:
            if kind in seen:
                continue
            seen.add(kind)
            rep.bad('B8', '%s{%s}' % (name, kind), msg, loc=loc, key='%s: %s against the abstract sequence' % (name, kind))
    elif unk:
        rep.unk('B8', name, '; '.join(sorted(set(unk))[:2])[:300], loc=loc)
    else:
        rep.ok('B8', name, 'final count, the origin of every position of the result and the returned element agree with the abstract sequence operation (%d symbolic queries)' % nq,
               loc=loc, sample={'fn': name, 'queries': nq})


def wit(w):
    if not w:
        return ''
    return ' (e.g. ' + ', '.join('%s=%s' % (k, v) for k, v in sorted(w.items(), key=lambda kv: str(kv[0])) if not str(k).startswith(('k', 'q', 'r', 'M'))) + ')'


# ---------------------------------------------------------------- B10: the block moves behind the binary searches
def check_sorted_move(C, fn, name, dom, leaves, facts0, rep, exit_vals):
    """sort_fore / sort_back / push_sort with spare capacity: behind the binary search the element is moved to the position the
    search ended at and everything in between shifts by one.  p is the position the code itself writes the element to (the last
    copy, resp. the returned slot); obligations: p equals the final value of the search variable (upper end for sort_fore, lower
    end for the others), the origin of EVERY position of the result is that of the abstract move (symbolic index query), the
    count is unchanged (+1 for push_sort).  The bubble variants (container full) are iteration tables of rule B9."""
    base = name[len('a_%s_' % C.kind):]
    if base not in ('sort_fore', 'sort_back', 'push_sort'):
        return
    siz = S('siz_')
    n0 = S('num_')
    loc = fn.loc(fn.entry.instrs[0])
    L = fm.le
    # the end of the search interval that closes on the insertion point: the upper end for sort_fore (b <= i, i = m - 1), the lower one otherwise
    evs = [{'i': v['hi' if base == 'sort_fore' else 'lo']} for (f_, h_), v in exit_vals.items() if f_ == fn.name]
    probs, unk, nq, nmoves = [], [], 0, 0
    for lf in leaves:
        st = status_of(lf, dom)
        if st != 'ok':
            continue
        try:
            ops = block_ops(C, lf, siz)
        except Unsupported as e:
            unk.append(str(e))
            continue
        if ops is None:
            unk.append('a block effect is not a whole number of elements')
            continue
        if any(k == 'swap' for k, _, _, _ in ops):
            continue           # a path through the bubble loop of the full container
        fin = sp.sympify(lf.store[('ctx', C.off['num_'])][0]) if ('ctx', C.off['num_']) in lf.store else n0
        retX = None
        if base == 'push_sort':
            if not isinstance(lf.ret, Ptr):
                continue
            isst, off = C.storage(lf.ret)
            retX = lin.divide(off, siz) if isst else None
            if retX is None:
                unk.append('returned pointer is not an element address')
                continue
        if not ops and base != 'push_sort':
            continue           # nothing moved: covered by the unchanged-sequence reading of B8-style checks below only when something moves
        nmoves += 1
        p = retX if base == 'push_sort' else ops[-1][1]
        try:
            cases = lin.cases_of(dom, lf, facts0, extra_terms=[p])
        except Unsupported as e:
            unk.append(str(e))
            continue
        for cs in cases:
            kenv = cs.kenv
            cons = cs.cons
            nq += 1
            want_fin = n0 + 1 if base == 'push_sort' else n0
            if not eq_entailed(cons, fin, want_fin, kenv):
                probs.append(('count', 'element count becomes %s, expected %s' % (fin, want_fin)))
                continue
            # tie to the search result
            tied = False
            for ev in evs:
                target = ev.get('i')
                if target is not None and eq_entailed(cons, p, target, kenv):
                    tied = True
                elif target is not None and not ops:
                    # nothing is moved because the search ended at (or behind) the last position: lower end >= p on this path; that it is
                    # not beyond p is the interval invariant lo <= hi <= count of the reference search (rule B9)
                    try:
                        if fm.entails(cons, con(fm.le(p, target), kenv)):
                            tied = True
                    except fm.NonLinear:
                        pass
            nq += 1
            if evs and not tied:
                probs.append(('position', 'the element is placed at position %s, the search ended at %s' % (p, ' / '.join(str(ev.get('i')) for ev in evs))))
            if base == 'sort_fore':
                pieces = [([L(K, p - 1)], ('old', K + 1)), ([L(p, K), L(K, p)], ('old', sp.Integer(0))), ([L(p + 1, K)], ('old', K))]
            elif base == 'sort_back':
                pieces = [([L(K, p - 1)], ('old', K)), ([L(p, K), L(K, p)], ('old', n0 - 1)), ([L(p + 1, K)], ('old', K - 1))]
            else:
                pieces = [([L(K, p - 1)], ('old', K)), ([L(p + 1, K)], ('old', K - 1))]
            for pconds, want in pieces:
                try:
                    c2 = cons + [con(fm.le(0, K), kenv), con(fm.le(K, want_fin - 1), kenv)] + [con(c, kenv) for c in pconds]
                except fm.NonLinear:
                    continue
                if not feasible(c2):
                    continue
                try:
                    alts = origins(K, ops, c2, kenv)
                except Unsupported as e:
                    unk.append(str(e))
                    continue
                for c3, got in alts:
                    nq += 1
                    if got[0] != want[0] or not eq_entailed(c3, got[1], want[1], kenv):
                        w = lin.witness(lin.Case(c3, kenv), con(fm.le(got[1] + 1, want[1]), kenv), None) if got[0] == want[0] else None
                        w = w or (lin.witness(lin.Case(c3, kenv), con(fm.le(want[1] + 1, got[1]), kenv), None) if got[0] == want[0] else None)
                        probs.append(('content', 'with the element placed at %s, position pos of the result holds %s[%s], the abstract move has %s[%s] there%s' % (
                            p, got[0], got[1], want[0], want[1], wit(w))))
    if probs:
        seen = set()
        for kind, msg in probs:
            if kind in seen:
                continue
            seen.add(kind)
            rep.bad('B10', '%s{%s}' % (name, kind), msg, loc=loc, key='%s: %s of the sorted move' % (name, kind))
    elif unk:
        rep.unk('B10', name, '; '.join(sorted(set(unk))[:2])[:300], loc=loc)
    elif nmoves == 0 or not evs:
        rep.unk('B10', name, 'no path behind a summarised binary search moves the element (%d paths, %d searches)' % (nmoves, len(evs)), loc=loc)
    else:
        rep.ok('B10', name, 'behind the binary search the element lands at the position the search ended at, every other position of the result has the origin of the abstract move and the count is right (%d symbolic queries on %d paths)' % (nq, nmoves),
               loc=loc, sample={'fn': name, 'queries': nq, 'paths': nmoves})
