"""C02 - red-black tree (DESIGN 4 C02).  SHAPE on tree fragments with ghost colours / black heights (lib/tree.py).

Induction over the two fix-up loops; every obligation is decided by abstract interpretation of one loop iteration (or of the
loop-free unlink segment) of the real code on every locally consistent fragment:
  I1  one iteration of a_rbt_insert_adjust: node red; root case, black parent, red parent with red uncle (recolour, continue at
      the grandparent), black/absent uncle with inner or outer node (one or two rotations); both mirror images, all places of
      the grandparent, black heights 0 and >= 1
  E0  a_rbt_remove up to the fix-up loop: the three unlink cases (no left child, no right child, successor splice at spine
      depth 0, 1, 2) over every valid colouring of the neighbourhood; decides whether a black node was lost
  A1  one iteration of the removal fix-up: red sibling, black sibling with black nephews (recolour, stop or continue), near red
      nephew, far red nephew; mirrors, parent colours, black heights 0 and >= 1
  D2  a_rbt_insert / a_rbt_search descent steps (shared with C01)
Checked after every run: parent/child agreement, in-order word, definite colours, no red node with a red child (including the
node above the fragment), equal black heights at every materialised node, black height of the fragment as required by the
loop invariant, root black."""
import itertools
import sympy as sp
import llir, symx, tree, irx
from tree import Frag, Final, TreeDom
from symx import Ptr, NULL, Unsupported
from props.C01 import place as place_avl, top_of, other, descents, Checker as _Ck

LEVEL = 'other'
X = sp.Symbol('x', integer=True, nonnegative=True)
KCASES = [('k=0', sp.Integer(0)), ('k>=1', X + 1)]
RED, BLACK = 0, 1
SPINES = (0, 1, 2)


def iszero(e):
    return sp.expand(sp.sympify(e)) == 0


class RB:
    """ghost labels: summary subtree = (current colour tag, black height of its children)"""
    def __init__(self, ctx, mod):
        self.ctx, self.mod, self.rep = ctx, mod, ctx.rep
        self.lookup = lambda n: mod.functions.get(n)

    def colour(self, F, n):
        if n is None:
            return BLACK
        p, tag = F.parent(n)
        try:
            return int(tag)
        except Exception:
            return None

    def bh(self, F, n, depth=0):
        """black height including n; raises on inconsistency"""
        if n is None:
            return sp.Integer(0)
        if isinstance(n, tuple) or n == '?' or depth > 40:
            raise Unsupported('black height of an unknown subtree %r' % (n,))
        d = F.frag.nodes.get(n)
        if d is None:
            raise Unsupported('node %s is not part of the fragment' % n)
        c = self.colour(F, n)
        if c is None:
            raise Unsupported('colour of %s is not definite' % n)
        if d['summary']:
            return d['label']['bhc'] + c
        l = self.bh(F, F.child(n, 'l'), depth + 1)
        r = self.bh(F, F.child(n, 'r'), depth + 1)
        if sp.expand(l - r) != 0:
            raise Mismatch('black heights below %s differ: left %s, right %s' % (n, l, r))
        return l + c

    def problems_nobh(self, F, top):
        return [p_ for p_ in self.problems(F, top, BLACK, bh=False)]

    def problems(self, F, top, above_colour, bh=True):
        probs = []
        for n in F.members(top):
            d = F.frag.nodes.get(n)
            if d is None:
                probs.append('unknown node %s in the tree' % n)
                continue
            c = self.colour(F, n)
            if c not in (0, 1):
                probs.append('colour of %s is not definite (%s)' % (n, F.parent(n)[1]))
                continue
            if d['summary']:
                continue
            if c == RED:
                for side in ('l', 'r'):
                    k = F.child(n, side)
                    if isinstance(k, str) and k != '?' and self.colour(F, k) == RED:
                        probs.append('red node %s has the red child %s' % (n, k))
        if isinstance(top, str) and above_colour == RED and self.colour(F, top) == RED:
            probs.append('red node above the fragment has the red child %s' % top)
        if not probs and bh:
            try:
                self.bh(F, top)
            except Mismatch as e:
                probs.append(str(e))
        return probs


class Mismatch(Exception):
    pass


def bsub(fr, name, parent, bh, colour=BLACK):
    """subtree with black height bh (counting its root if black): None when bh = 0 and black"""
    if colour == BLACK:
        if iszero(bh):
            return None
        fr.summary(name, p=parent, tag=BLACK, bhc=bh - 1)
    else:
        fr.summary(name, p=parent, tag=RED, bhc=bh)
    return name


def place(fr, pos, top, above_colour):
    """root object or a parent U of the given colour above the fragment top"""
    if pos == 'root':
        fr.rootobj, fr.top = 'ROOT', top
        return None
    side = 'l' if pos == 'UL' else 'r'
    fr.summary('W', p='U', tag=BLACK, bhc=sp.Symbol('w', integer=True, nonnegative=True))
    fr.node('U', l=top if side == 'l' else 'W', r=top if side == 'r' else 'W', p='UP', tag=above_colour)
    return 'U'


def context_problems(F, pos, s, above_colour):
    probs = []
    if pos == 'root':
        return probs
    if ('ROOT', 0) in s.store:
        probs.append('the root pointer is written although the fragment is not at the root')
    side = 'l' if pos == 'UL' else 'r'
    if F.child('U', other(side)) != 'W':
        probs.append('the sibling link of the node above the fragment changed')
    if F.parent('U') != ('UP', above_colour):
        probs.append('the parent word of the node above the fragment changed')
    return probs


def run(ctx):
    rep = ctx.rep
    rep.explanation = ('abstract interpretation of single loop iterations and the loop-free unlink segment of a_rbt_insert_adjust / a_rbt_remove '
                       '(with the inlined removal fix-up) / a_rbt_insert / a_rbt_search on explicit tree fragments with ghost colours and symbolic '
                       'black heights; induction over the two fix-up loops')
    rep.rule_text = 'I1 insertion fix-up step; E0 unlink segment; A1 removal fix-up step; D2 descent steps'
    rep.trusted += ['lib/symx.py, lib/shape.py, lib/tree.py', 'the induction argument over the two fix-up loops (DESIGN 4 C02)']
    rep.assumptions += ['packed-pointer build (A_SIZE_POINTER > 1)', 'nodes are 2-byte aligned; the comparison callback is a pure total order and does not touch the tree']
    mod = ctx.module('rbt')
    if ctx.tier == 'thorough' and len(KCASES) == 2:
        KCASES.extend([('k=1', sp.Integer(1)), ('k>=2', X + 2)])
        global SPINES
        SPINES = (0, 1, 2, 3)
    rb = RB(ctx, mod)
    insert_step(rb)
    fix_step(rb)
    unlink_segment(rb)
    rep.floor('E0', 200)
    rep.floor('A1', 150)
    descents(_Ck(ctx, mod), 'a_rbt', 1, rule='D2')
    rep.floor('I1', 60)
    rep.floor('D2', 15)


# ---------------------------------------------------------------- insertion fix-up
def insert_step(rb):
    rep = rb.rep
    fn = rb.mod.functions.get('a_rbt_insert_adjust')
    if fn is None:
        rep.unk('I1', 'a_rbt_insert_adjust', 'anchor vanished')
        return
    rep.functions.add(fn.name)
    loops = fn.loops()
    if len(loops) != 1:
        rep.unk('I1', fn.name, 'expected one fix-up loop, found %d' % len(loops))
        return
    header = loops[0][0]
    phis = [i for i in header.instrs if i.op == 'phi']
    if len(phis) != 2:
        rep.unk('I1', fn.name, 'loop carries %d values, expected (parent, node)' % len(phis))
        return
    # which phi is the node: the one initialised from the parameter
    pn = [p for p in phis if any(o.k == 'reg' and o.v == fn.params[1][1] for o in p.ops)]
    if len(pn) != 1:
        rep.unk('I1', fn.name, 'cannot tell the node from the parent among the loop values')
        return
    pn = pn[0]
    pp = [p for p in phis if p is not pn][0]
    # entry: parent is read off the (red) node
    cases = []
    for kname, k in KCASES:
        cases.append(('N is the root %s' % kname, dict(kind='root', k=k)))
        for pos, ac in (('root', None), ('UL', BLACK), ('UR', RED)):
            for sN in ('l', 'r'):
                for sib in (BLACK, RED):
                    cases.append(('black parent@%s N=%s sibling %s %s' % (pos, sN, 'red' if sib == RED else 'black', kname),
                                  dict(kind='blackparent', pos=pos, ac=ac, sN=sN, sib=sib, k=k)))
        for pos, ac in (('root', None), ('UL', BLACK), ('UR', BLACK), ('UL', RED), ('UR', RED)):
            for sP in ('l', 'r'):
                for sN in ('l', 'r'):
                    for uncle in (BLACK, RED):
                        cases.append(('red parent G@%s%s P=%s N=%s uncle %s %s' % (pos, '' if ac is None else ('/above ' + ('red' if ac == RED else 'black')), sP, sN,
                                                                                 'red' if uncle == RED else 'black', kname),
                                      dict(kind='redparent', pos=pos, ac=ac, sP=sP, sN=sN, uncle=uncle, k=k)))
    for label, c in cases:
        try:
            insert_case(rb, fn, header, pn, pp, label, **c)
        except Unsupported as e:
            rep.unk('I1', label, 'fragment too small or construct outside the domain: %s' % e)


def insert_case(rb, fn, header, pn, pp, label, kind, k, pos=None, ac=None, sN=None, sP=None, sib=None, uncle=None):
    rep = rb.rep
    fr = Frag(1)
    if kind == 'root':
        fr.rootobj, fr.top = 'ROOT', 'N'
        a = bsub(fr, 'NA', 'N', k)
        b = bsub(fr, 'NB', 'N', k)
        fr.node('N', l=a, r=b, p=None, tag=RED)
        top0, parent0, pos, orig = 'N', NULL, 'root', None
    elif kind == 'blackparent':
        above = place(fr, pos, 'P', ac)
        a = bsub(fr, 'NA', 'N', k)
        b = bsub(fr, 'NB', 'N', k)
        fr.node('N', l=a, r=b, p='P', tag=RED)
        S = bsub(fr, 'S', 'P', k, colour=sib)
        fr.node('P', l='N' if sN == 'l' else S, r='N' if sN == 'r' else S, p=above, tag=BLACK)
        top0, parent0, orig = 'P', Ptr('P', 0), k + 1
    else:
        above = place(fr, pos, 'G', ac)
        a = bsub(fr, 'NA', 'N', k)
        b = bsub(fr, 'NB', 'N', k)
        fr.node('N', l=a, r=b, p='P', tag=RED)
        S = bsub(fr, 'S', 'P', k)
        fr.node('P', l='N' if sN == 'l' else S, r='N' if sN == 'r' else S, p='G', tag=RED)
        Un = bsub(fr, 'Un', 'G', k, colour=uncle)
        fr.node('G', l='P' if sP == 'l' else Un, r='P' if sP == 'r' else Un, p=above, tag=BLACK)
        top0, parent0, orig = 'G', Ptr('P', 0), k + 1
    st = fr.state()
    word0 = Final(fr, st.store).inorder(top0)
    dom = TreeDom(1)
    it = symx.Interp(dom, rb.lookup)
    ro, rets = it.run_region(fn, [Ptr('ROOT', 0), Ptr('N', 0)], header, {pn.res: Ptr('N', 0), pp.res: parent0}, [header], st=st)
    outs = [('return', s, None, None) for s, r in rets]
    for s, blk, prev in ro:
        outs.append(('continue', s, it.val(pn.ops[pn.x['labels'].index(prev.name)], s, fn), it.val(pp.ops[pp.x['labels'].index(prev.name)], s, fn)))
    if not outs:
        rep.unk('I1', label, 'no path through the iteration')
        return
    for okind, s, nn, np_ in outs:
        F = Final(fr, s.store)
        top = top_of(F, pos)
        probs = context_problems(F, pos, s, ac) + (F.link_problems(top, None if pos == 'root' else 'U') if isinstance(top, str) else ['top of the fragment is %r' % (top,)])
        w = F.inorder(top) if isinstance(top, str) else []
        if w != word0:
            probs.append('in-order sequence changed: %s -> %s' % (' '.join(word0), ' '.join(w)))
        if not probs:
            if okind == 'return':
                probs += rb.problems(F, top, ac)
                if pos == 'root' and rb.colour(F, top) != BLACK:
                    probs.append('the root is left red')
                if not probs and orig is not None and sp.expand(rb.bh(F, top) - orig) != 0:
                    probs.append('black height of the fragment changed from %s to %s' % (orig, rb.bh(F, top)))
            else:
                # invariant for the next iteration: node' = top is red, everything below is a valid red-black tree of the
                # original black height, parent' is the parent of node'
                below = rb.problems(F, top, BLACK)
                probs += below
                if not (isinstance(nn, Ptr) and nn.base == top and nn.off == 0):
                    probs.append('fix-up continues at %s, not at the top %s of the recoloured fragment' % (nn, top))
                if rb.colour(F, top) != RED:
                    probs.append('fix-up continues with a black node')
                want = NULL if pos == 'root' else Ptr('U', 0)
                if not (isinstance(np_, Ptr) and np_ == want):
                    probs.append('parent carried into the next iteration is %s, expected %s' % (np_, want))
                if not probs and sp.expand(rb.bh(F, top) - orig) != 0:
                    probs.append('black height of the recoloured fragment is %s, expected %s' % (rb.bh(F, top), orig))
        path = ' > '.join(x.split(':')[1] for x in s.trace[-6:])
        if probs:
            rep.bad('I1', '%s [%s]' % (label, okind), '; '.join(probs[:3]) + ' (blocks: %s)' % path, loc=fn.loc(header.term), key='a_rbt_insert_adjust: fix-up step')
        else:
            rep.ok('I1', '%s [%s]' % (label, okind), 'links, order, colours and black heights consistent' + ('' if okind == 'return' else '; invariant re-established at the grandparent'),
                   sample={'fragment': word0, 'after': w})


# ---------------------------------------------------------------- removal fix-up
def fix_loop(fn):
    """(header, node phi, parent phi) of the removal fix-up loop: the node value enters as null"""
    for h, body, lat in fn.loops():
        phis = [i for i in h.instrs if i.op == 'phi']
        if len(phis) != 2:
            continue
        for p in phis:
            outside = [o for o, lb in zip(p.ops, p.x['labels']) if fn.bmap[lb] not in body]
            if len(outside) == 1 and outside[0].k in ('null', 'zero'):
                q = [x for x in phis if x is not p][0]
                return h, p, q
    return None


def bh_def(rb, F, n, deficit, depth=0):
    """black height where the (node, side) slot `deficit` counts one more than it has"""
    if n is None:
        return sp.Integer(0)
    d = F.frag.nodes.get(n)
    if d is None or isinstance(n, tuple) or depth > 40:
        raise Unsupported('black height of %r' % (n,))
    c = rb.colour(F, n)
    if c is None:
        raise Unsupported('colour of %s is not definite' % n)
    if d['summary']:
        return d['label']['bhc'] + c
    l = bh_def(rb, F, F.child(n, 'l'), deficit, depth + 1) + (1 if deficit == (n, 'l') else 0)
    r = bh_def(rb, F, F.child(n, 'r'), deficit, depth + 1) + (1 if deficit == (n, 'r') else 0)
    if sp.expand(l - r) != 0:
        raise Mismatch('black heights below %s differ: left %s, right %s' % (n, l, r))
    return l + c


def nephew(fr, name, parent, colour, d, materialise):
    """child of the sibling with black height d: black subtree / null, or a red node (materialised with two black children)"""
    if colour == BLACK:
        return bsub(fr, name, parent, d)
    if not materialise:
        fr.summary(name, p=parent, tag=RED, bhc=d)
        return name
    a = bsub(fr, name + 'a', name, d)
    b = bsub(fr, name + 'b', name, d)
    fr.node(name, l=a, r=b, p=parent, tag=RED)
    return name


def fix_step(rb):
    rep = rb.rep
    fn = rb.mod.functions.get('a_rbt_remove')
    lp = fix_loop(fn) if fn is not None else None
    if lp is None:
        rep.unk('A1', 'a_rbt_remove', 'removal fix-up loop not found')
        return
    rep.functions.add(fn.name)
    header, pn, pp = lp
    for dname, d in KCASES:
        for pos, ac in (('root', None), ('UL', BLACK), ('UR', BLACK), ('UL', RED), ('UR', RED)):
            for s in ('l', 'r'):
                for cP in (BLACK, RED):
                    if cP == RED and (pos == 'root' or ac == RED):
                        continue
                    for sc in (BLACK, RED):
                        if sc == RED and cP == RED:
                            continue
                        for near in (BLACK, RED):
                            for far in (BLACK, RED):
                                label = 'P@%s%s %s short=%s sibling %s nephews near %s far %s d%s' % (
                                    pos, '' if ac is None else ('/above ' + 'rb'[ac]), 'rb'[cP].upper(), s, 'rb'[sc], 'rb'[near], 'rb'[far], dname[1:])
                                try:
                                    fix_case(rb, fn, header, pn, pp, label, pos, ac, s, cP, sc, near, far, d)
                                except Unsupported as e:
                                    rep.unk('A1', label, 'fragment too small or construct outside the domain: %s' % e)


def fix_case(rb, fn, header, pn, pp, label, pos, ac, s, cP, sc, near, far, d):
    rep = rb.rep
    o = other(s)
    fr = Frag(1)
    above = place(fr, pos, 'P', ac)
    D = bsub(fr, 'D', 'P', d)
    if sc == BLACK:
        NN = nephew(fr, 'NN', 'S', near, d, True)
        FN = nephew(fr, 'FN', 'S', far, d, False)
        fr.node('S', l=NN if s == 'l' else FN, r=NN if s == 'r' else FN, p='P', tag=BLACK)
    else:
        # red sibling: its children are black with black height d + 1; the near one becomes the new sibling
        NN = nephew(fr, 'NN', 'SN', near, d, True)
        FN = nephew(fr, 'FN', 'SN', far, d, False)
        fr.node('SN', l=NN if s == 'l' else FN, r=NN if s == 'r' else FN, p='S', tag=BLACK)
        fr.summary('SF', p='S', tag=BLACK, bhc=d)
        fr.node('S', l='SN' if s == 'l' else 'SF', r='SN' if s == 'r' else 'SF', p='P', tag=RED)
    fr.node('P', l=D if s == 'l' else 'S', r=D if s == 'r' else 'S', p=above, tag=cP)
    orig = cP + d + 1
    st = fr.state()
    word0 = Final(fr, st.store).inorder('P')
    dom = TreeDom(1)
    it = symx.Interp(dom, rb.lookup)
    env0 = {pn.res: Ptr(D, 0) if D else NULL, pp.res: Ptr('P', 0)}
    ro, rets = it.run_region(fn, [Ptr('ROOT', 0), Ptr('Xgone', 0)], header, env0, [header], st=st)
    outs = [('return', s_, None, None) for s_, r in rets]
    for s_, blk, prev in ro:
        outs.append(('continue', s_, it.val(pn.ops[pn.x['labels'].index(prev.name)], s_, fn), it.val(pp.ops[pp.x['labels'].index(prev.name)], s_, fn)))
    if not outs:
        rep.unk('A1', label, 'no path through the iteration')
        return
    for kind, s_, nn, np_ in outs:
        F = Final(fr, s_.store)
        top = top_of(F, pos)
        probs = context_problems(F, pos, s_, ac) + (F.link_problems(top, None if pos == 'root' else 'U') if isinstance(top, str) else ['top of the fragment is %r' % (top,)])
        w = F.inorder(top) if isinstance(top, str) else []
        if w != word0:
            probs.append('in-order sequence changed: %s -> %s' % (' '.join(word0), ' '.join(w)))
        if not probs:
            if kind == 'return':
                probs += rb.problems(F, top, ac)
                if pos == 'root' and rb.colour(F, top) != BLACK:
                    probs.append('the root is left red')
                if not probs:
                    b = rb.bh(F, top)
                    if sp.expand(b - orig) != 0 and not (pos == 'root' and sp.expand(b - (orig - 1)) == 0):
                        probs.append('fix-up stops although the black height of the fragment is %s instead of %s' % (b, orig))
            else:
                probs += rb.problems(F, top, BLACK)
                if pos == 'root':
                    probs.append('fix-up continues above the root')
                else:
                    if not (isinstance(nn, Ptr) and nn.base == top and nn.off == 0):
                        probs.append('fix-up continues at %s, not at the top %s of the fragment' % (nn, top))
                    if not (isinstance(np_, Ptr) and np_ == Ptr('U', 0)):
                        probs.append('parent carried into the next iteration is %s' % (np_,))
                    if rb.colour(F, top) != BLACK:
                        probs.append('fix-up continues with a red node (it should have been blackened instead)')
                    if not probs and sp.expand(rb.bh(F, top) - (orig - 1)) != 0:
                        probs.append('fix-up continues although the black height of the fragment is %s (expected one short of %s)' % (rb.bh(F, top), orig))
        path = ' > '.join(x.split(':')[1] for x in s_.trace[-6:])
        if probs:
            rep.bad('A1', '%s [%s]' % (label, kind), '; '.join(probs[:3]) + ' (blocks: %s)' % path, loc=fn.loc(header.term), key='a_rbt_remove: fix-up step')
        else:
            rep.ok('A1', '%s [%s]' % (label, kind), 'links, order, colours and black heights consistent' + ('' if kind == 'return' else '; deficit moved one level up'),
                   sample={'fragment': word0, 'after': w})


# ---------------------------------------------------------------- unlink segment
def hang(fr, name, parent, bh, colour):
    """subtree of black height bh and the given root colour; returns None when impossible, (None,) for the empty tree"""
    if colour == BLACK:
        if bh == 0:
            return (None,)
        fr.summary(name, p=parent, tag=BLACK, bhc=sp.Integer(bh - 1))
        return (name,)
    fr.summary(name, p=parent, tag=RED, bhc=sp.Integer(bh))
    return (name,)


def unlink_patterns():
    """neighbourhoods of the node X to be removed: dicts describing a valid red-black fragment (validity re-checked on the built fragment)"""
    out = []
    for pos in ('root', 'l', 'r'):
        for c0 in ((None,) if pos == 'root' else (BLACK, RED)):
            for cS0 in ((None,) if pos == 'root' else (BLACK, RED)):
                for cX in (BLACK, RED):
                    # (a)/(b): at most one child
                    for kids in ('none', 'l', 'r'):
                        out.append(dict(kind='simple', pos=pos, c0=c0, cS0=cS0, cX=cX, kids=kids))
                    # (c): two children, successor at spine depth k
                    for k in SPINES:
                        for cY in (BLACK, RED):
                            for yk in (False, True):
                                for cols in itertools.product((BLACK, RED), repeat=k):
                                    for rs in itertools.product((BLACK, RED), repeat=k):
                                        for cA in (BLACK, RED):
                                            out.append(dict(kind='splice', pos=pos, c0=c0, cS0=cS0, cX=cX, k=k, cY=cY, yk=yk, cols=cols, rs=rs, cA=cA))
    return out


def build_unlink(p):
    fr = Frag(1)
    pos = p['pos']
    if p['kind'] == 'simple':
        K = None
        if p['kids'] != 'none':
            fr.node('K', l=None, r=None, p='X', tag=RED)
            K = 'K'
        bhX = p['cX']
        fr.node('X', l=K if p['kids'] == 'l' else None, r=K if p['kids'] == 'r' else None, p=None if pos == 'root' else 'P0', tag=p['cX'])
        chain = []
    else:
        k = p['k']
        chain = {0: ['Y'], 1: ['R', 'Y'], 2: ['R', 'M', 'Y'], 3: ['R', 'M', 'M2', 'Y']}[k]
        KY = None
        if p['yk']:
            fr.node('KY', l=None, r=None, p='Y', tag=RED)
            KY = 'KY'
        parents = {chain[0]: 'X'}
        for i in range(1, len(chain)):
            parents[chain[i]] = chain[i - 1]
        fr.node('Y', l=None, r=KY, p=parents['Y'], tag=p['cY'])
        b = p['cY']
        for i in range(k - 1, -1, -1):
            n = chain[i]
            h = hang(fr, 'RS' + n, n, b, p['rs'][i])
            fr.node(n, l=chain[i + 1], r=h[0], p=parents[n], tag=p['cols'][i])
            b = b + p['cols'][i]
        h = hang(fr, 'A', 'X', b, p['cA'])
        if h[0] is None:
            return None
        fr.node('X', l='A', r=chain[0], p=None if pos == 'root' else 'P0', tag=p['cX'])
        bhX = b + p['cX']
    if pos == 'root':
        fr.rootobj, fr.top = 'ROOT', 'X'
    else:
        h = hang(fr, 'C0', 'P0', bhX, p['cS0'])
        fr.node('P0', l='X' if pos == 'l' else h[0], r='X' if pos == 'r' else h[0], p='PP0', tag=p['c0'])
    return fr, bhX


def unlink_segment(rb):
    rep = rb.rep
    fn = rb.mod.functions.get('a_rbt_remove')
    lp = fix_loop(fn) if fn is not None else None
    if lp is None:
        rep.unk('E0', 'a_rbt_remove', 'removal fix-up loop not found')
        return
    header, pn, pp = lp
    # the walk to the successor is read-only
    for h, b, lat in fn.loops():
        if h is header:
            continue
        wr = [i for blk in b for i in blk.instrs if i.op == 'store']
        (rep.bad if wr else rep.ok)('E0', 'successor descent', 'the walk to the in-order successor %s' % ('writes memory' if wr else 'is read-only'),
                                    **({'key': 'a_rbt_remove: descent writes'} if wr else {}))
    nvalid = 0
    for p in unlink_patterns():
        built = build_unlink(p)
        if built is None:
            continue
        fr, bhX = built
        st = fr.state()
        F0 = Final(fr, st.store)
        top0 = 'X' if p['pos'] == 'root' else 'P0'
        if p['pos'] == 'root' and p['cX'] != BLACK:
            continue
        if rb.problems(F0, top0, BLACK):
            continue     # not a red-black tree to begin with
        nvalid += 1
        label = ' '.join('%s=%s' % (k, ''.join('rb'[x] for x in v) if isinstance(v, tuple) else ('rb'[v] if v in (0, 1) and k.startswith('c') else v))
                         for k, v in p.items() if v is not None)
        try:
            unlink_case(rb, fn, header, pn, pp, p, fr, st, bhX, top0, label)
        except Unsupported as e:
            rep.unk('E0', label, 'construct outside the domain: %s' % e)
    rep.note('E0: %d valid neighbourhoods of the removed node enumerated' % nvalid)


def unlink_case(rb, fn, header, pn, pp, p, fr, st, bhX, top0, label):
    rep = rb.rep
    pos = p['pos']
    F0 = Final(fr, st.store)
    word0 = [x for x in F0.inorder(top0) if x != 'X']
    orig = rb.bh(F0, top0)
    dom = TreeDom(1)
    it = symx.Interp(dom, rb.lookup)
    ro, rets = it.run_region(fn, [Ptr('ROOT', 0), Ptr('X', 0)], fn.entry, {}, [header], st=st)
    outs = [('return', s_, None, None) for s_, r in rets]
    for s_, blk, prev in ro:
        outs.append(('fix', s_, it.val(pn.ops[pn.x['labels'].index(prev.name)], s_, fn), it.val(pp.ops[pp.x['labels'].index(prev.name)], s_, fn)))
    for kind, s_, nn, np_ in outs:
        F = Final(fr, s_.store)
        probs = []
        if pos == 'root':
            top = F.top()
            if top is not None:
                probs += F.link_problems(top, None) if isinstance(top, str) else ['root pointer is %r' % (top,)]
        else:
            top = 'P0'
            probs += F.link_problems('P0', 'PP0')
            if F.parent('P0') != ('PP0', p['c0']):
                probs.append('parent word of the parent of the removed node changed')
            if ('ROOT', 0) in s_.store:
                probs.append('root pointer written although the removed node is not the root')
        w = F.inorder(top) if isinstance(top, str) else []
        if w != word0:
            probs.append('in-order sequence is %s, expected %s' % (' '.join(w), ' '.join(word0)))
        if 'X' in F.members(top) if isinstance(top, str) else False:
            probs.append('the removed node is still reachable')
        if not probs:
            if kind == 'return':
                if top is not None:
                    probs += rb.problems(F, top, BLACK)
                    if pos == 'root' and rb.colour(F, top) != BLACK:
                        probs.append('the root is left red')
                    if not probs and pos != 'root' and sp.expand(rb.bh(F, top) - orig) != 0:
                        probs.append('no fix-up although the black height changed from %s to %s' % (orig, rb.bh(F, top)))
            else:
                # deficit: node = null on one side of parent', the other side has black height one
                if not (isinstance(nn, Ptr) and nn.base == 'null'):
                    probs.append('fix-up starts with node %s, expected null' % (nn,))
                if not (isinstance(np_, Ptr) and np_.base in fr.nodes and np_.off == 0):
                    probs.append('fix-up starts at %s' % (np_,))
                else:
                    par = np_.base
                    nul = [sd for sd in ('l', 'r') if F.child(par, sd) is None]
                    if len(nul) != 1:
                        probs.append('fix-up starts at %s which has %d empty links: the short side cannot be told' % (par, len(nul)))
                    else:
                        bad = [x for x in rb.problems_nobh(F, top)]
                        probs += bad
                        if not probs:
                            try:
                                b = bh_def(rb, F, top, (par, nul[0]))
                                if pos != 'root' and sp.expand(b - orig) != 0:
                                    probs.append('with the lost black node counted the black height is %s, expected %s' % (b, orig))
                            except Mismatch as e:
                                probs.append('%s (with the empty %s link of %s counted as one black node short)' % (e, nul[0], par))
        if probs:
            rep.bad('E0', '%s [%s]' % (label, kind), '; '.join(probs[:3]), loc=fn.loc(fn.entry.term), key='a_rbt_remove: unlink')
        else:
            rep.ok('E0', '%s [%s]' % (label, kind), 'removed, successor/child re-linked and recoloured; %s' % (
                'tree is red-black again' if kind == 'return' else 'exactly one black node is missing below the fix-up parent'))
