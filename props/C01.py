"""C01 - AVL tree (DESIGN 4 C01).  SHAPE on tree fragments with ghost heights (lib/tree.py).

The unbounded histories are handled by induction on the two retracing loops; every obligation below is decided by abstract
interpretation of one loop iteration (or one loop-free segment) of the real code on every locally consistent fragment:
  G0  a_avl_insert_adjust, entry to the loop: a fresh leaf under a parent whose factor describes the tree before the insertion
  G1  one iteration of the growth loop: subtree N grew by one, its factor is non-zero, everything below is consistent, P's factor
      describes the old heights; all 3 places of P (root, left/right child), both sides, all factors, the heavy child's factor,
      and the null-ness patterns a = 0, 1, >= 2 of the subtrees
  R0  a_avl_remove, entry to the shrink loop: leaf / one-child unlink (root and non-root) and the successor splice
      (successor = right child, = left child of the right child, deeper)
  R1  one iteration of the shrink loop: one side of P shrank by one; all factors of P, of the taller sibling and of its inner child
  D1  a_avl_insert descent/link step and a_avl_search descent step (comparison-directed, duplicate returns the resident
      node without any store)
Checked after every run: parent/child agreement, in-order word (minus the removed node), stored factor = height difference in
{-1,0,1} for every materialised node, tags of untouched subtrees preserved, and the loop invariant or the final height claim."""
import itertools
import sympy as sp
import llir, symx, tree, irx
from tree import Frag, Final, TreeDom, hmax, height_cmp
from symx import Ptr, NULL, Unsupported

LEVEL = 'other'
X = sp.Symbol('x', integer=True, nonnegative=True)
ACASES = [('a=0', sp.Integer(0)), ('a=1', sp.Integer(1)), ('a>=2', X + 2)]


def other(side):
    return 'r' if side == 'l' else 'l'


def is_zero(h):
    return sp.expand(h) == 0


class Checker:
    def __init__(self, ctx, mod):
        self.ctx, self.mod, self.rep = ctx, mod, ctx.rep
        self.lookup = lambda n: mod.functions.get(n)

    # ---- ghost heights on a final state
    def height(self, F, n, memo=None, depth=0):
        if n is None:
            return sp.Integer(0)
        if isinstance(n, tuple) or n == '?' or depth > 40:
            raise Unsupported('height of an unknown subtree %r' % (n,))
        d = F.frag.nodes.get(n)
        if d is None:
            raise Unsupported('node %s is not part of the fragment' % n)
        if d['summary']:
            return d['label']['h']
        return 1 + hmax(self.height(F, F.child(n, 'l'), memo, depth + 1), self.height(F, F.child(n, 'r'), memo, depth + 1))

    def factor_problems(self, F, top, skip=()):
        probs = []
        for n in F.members(top):
            d = F.frag.nodes.get(n)
            if d is None:
                probs.append('unknown node %s in the tree' % n)
                continue
            p, tag = F.parent(n)
            if d['summary']:
                if sp.expand(sp.sympify(tag) - d['tag']) != 0:
                    probs.append('balance tag of the untouched subtree %s changed (%s)' % (n, tag))
                continue
            if n in skip:
                continue
            c = tag if isinstance(tag, int) else F.frag and None
            try:
                c = int(tag)
            except Exception:
                probs.append('balance tag of %s is not a definite value: %s' % (n, tag))
                continue
            if c not in (0, 1, 2):
                probs.append('balance tag of %s is %d (undefined encoding)' % (n, c))
                continue
            try:
                d_ = height_cmp(self.height(F, F.child(n, 'r')), self.height(F, F.child(n, 'l')))
            except Unsupported as e:
                probs.append(str(e))
                continue
            if d_ is None or d_ != c - 1:
                probs.append('stored factor of %s is %+d but height(right) - height(left) = %s' % (n, c - 1, d_))
            elif abs(d_) > 1:
                probs.append('%s is out of balance (%+d)' % (n, d_))
        return probs


def struct_ok(mod, name):
    st = mod.structs.get(name) or mod.structs.get('struct.' + name)
    return st is not None


def loop_of(fn, pick=None):
    ls = fn.loops()
    if pick:
        ls = [l for l in ls if pick(l)]
    return ls


def run(ctx):
    rep = ctx.rep
    rep.explanation = ('abstract interpretation of single loop iterations and loop-free segments of a_avl_insert_adjust / a_avl_remove / '
                       'a_avl_insert / a_avl_search on explicit tree fragments with symbolic subtree heights; induction over the retracing loops')
    rep.rule_text = 'G0/G1 growth entry and step; R0/R1 removal entry and shrink step; D1 descent steps'
    rep.trusted += ['lib/symx.py, lib/shape.py, lib/tree.py', 'the induction argument over the two retracing loops (DESIGN 4 C01)']
    rep.assumptions += ['packed-pointer build (A_SIZE_POINTER > 3), the only one this host can produce',
                        'nodes are 4-byte aligned; the comparison callback is a pure total order and does not touch the tree']
    mod = ctx.module('avl')
    if ctx.tier == 'thorough' and len(ACASES) == 3:
        ACASES.extend([('a=2', sp.Integer(2)), ('a=3', sp.Integer(3)), ('a>=4', X + 4)])
    ck = Checker(ctx, mod)
    growth_entry(ck)
    growth_step(ck)
    shrink_step(ck)
    remove_entry(ck)
    descents(ck, 'a_avl', 3)
    rep.floor('D1', 15)
    rep.floor('R0', 100)
    rep.floor('R1', 200)
    rep.floor('G0', 6)
    rep.floor('G1', 250)


# ---------------------------------------------------------------- growth
def place(fr, pos, top):
    """hang the fragment top under the root object or under a parent U (other child W)"""
    if pos == 'root':
        fr.rootobj = 'ROOT'
        fr.top = top
        return None
    side = 'l' if pos == 'UL' else 'r'
    fr.summary('W', p='U', h=sp.Symbol('hW', integer=True, nonnegative=True) + 1)
    fr.node('U', l=top if side == 'l' else 'W', r=top if side == 'r' else 'W', p='?', tag=sp.Symbol('tU', integer=True, nonnegative=True))
    return 'U'


def sub(fr, name, parent, h):
    """summary subtree of height h under parent, or nothing when h = 0"""
    if is_zero(h):
        return None
    fr.summary(name, p=parent, h=h)
    return name


def top_of(F, pos):
    if pos == 'root':
        return F.top()
    return F.child('U', 'l' if pos == 'UL' else 'r')


def context_problems(F, pos, s):
    """the part of the tree above the fragment is untouched"""
    probs = []
    if pos == 'root':
        return probs
    if ('ROOT', 0) in s.store:
        probs.append('the root pointer is written although the fragment is not at the root')
    side = 'l' if pos == 'UL' else 'r'
    if F.child('U', other(side)) != 'W':
        probs.append('the sibling link of the parent above the fragment changed')
    if ('U', Frag.P) in s.store:
        probs.append('the parent word of the node above the fragment is written')
    return probs


def growth_step(ck):
    rep = ck.rep
    fn = ck.mod.functions.get('a_avl_insert_adjust')
    if fn is None:
        rep.unk('G1', 'a_avl_insert_adjust', 'anchor vanished')
        return
    rep.functions.add(fn.name)
    loops = fn.loops()
    if len(loops) != 1:
        rep.unk('G1', fn.name, 'expected one retracing loop, found %d' % len(loops))
        return
    header, body, latches = loops[0]
    phis = [i for i in header.instrs if i.op == 'phi']
    if len(phis) != 1:
        rep.unk('G1', fn.name, 'loop carries %d values, expected the climbing node only' % len(phis))
        return
    ph = phis[0]
    for pos in ('root', 'UL', 'UR'):
        for sN in ('l', 'r'):
            for fP in (-1, 0, 1):
                for fN in (-1, 1):
                    for aname, a in ACASES:
                        for fE in (-1, 0, 1):
                            if aname == 'a=0' and fE != 0:
                                continue
                            label = 'P@%s N=%s fP=%+d fN=%+d fE=%+d %s' % (pos, sN, fP, fN, fE, aname)
                            try:
                                growth_case(ck, fn, header, ph, pos, sN, fP, fN, a, fE, label)
                            except Unsupported as e:
                                rep.unk('G1', label, 'fragment too small or construct outside the domain: %s' % e)


def build_growth(pos, sN, fP, fN, a, fE):
    fr = Frag(3)
    above = place(fr, pos, 'P')
    hC = a + 1 + (fP if sN == 'l' else -fP)
    C = sub(fr, 'C', 'P', hC)
    fr.node('P', l='N' if sN == 'l' else C, r='N' if sN == 'r' else C, p=above, tag=fP + 1)
    big = 'r' if fN > 0 else 'l'
    D = sub(fr, 'D', 'N', a)
    fr.node('N', l='E' if big == 'l' else D, r='E' if big == 'r' else D, p='P', tag=fN + 1)
    hF, hG = {0: (a, a), -1: (a, a - 1), 1: (a - 1, a)}[fE]
    Fn = sub(fr, 'F', 'E', hF)
    G = sub(fr, 'G', 'E', hG)
    fr.node('E', l=Fn, r=G, p='N', tag=fE + 1)
    old = 1 + hmax(a + 1, hC)
    return fr, old


def growth_case(ck, fn, header, ph, pos, sN, fP, fN, a, fE, label):
    rep = ck.rep
    fr, old = build_growth(pos, sN, fP, fN, a, fE)
    st = fr.state()
    F0 = Final(fr, st.store)
    word0 = F0.inorder('P')
    dom = TreeDom(3)
    it = symx.Interp(dom, ck.lookup)
    args = [Ptr('ROOT', 0), Ptr('N', 0)]
    ro, rets = it.run_region(fn, args, header, {ph.res: Ptr('N', 0)}, [header], st=st)
    outs = [('return', s, None) for s, r in rets]
    for s, blk, prev in ro:
        nv = it.val(ph.ops[ph.x['labels'].index(prev.name)], s, fn)
        outs.append(('continue', s, nv))
    if not outs:
        rep.unk('G1', label, 'no path through the iteration')
        return
    for kind, s, nv in outs:
        F = Final(fr, s.store)
        top = top_of(F, pos)
        probs = []
        probs += context_problems(F, pos, s)
        probs += F.link_problems(top, None if pos == 'root' else 'U')
        w = F.inorder(top)
        if w != word0:
            probs.append('in-order sequence changed: %s -> %s' % (' '.join(word0), ' '.join(w)))
        if not probs:
            probs += ck.factor_problems(F, top)
        if not probs:
            h = ck.height(F, top)
            d = height_cmp(h, old)
            if kind == 'return':
                if d != 0:
                    probs.append('retracing stops although the subtree height changed from %s to %s: the ancestors keep stale factors' % (old, h))
            else:
                if not (isinstance(nv, Ptr) and nv.base == top and nv.off == 0):
                    probs.append('retracing continues at %s, not at the root %s of the grown subtree' % (nv, top))
                if d != 1:
                    probs.append('retracing continues although the subtree height went from %s to %s' % (old, h))
                p_, tag = F.parent(top)
                if tag == 1:
                    probs.append('retracing continues with a balanced node (its subtree cannot have grown)')
        path = ' > '.join(x.split(':')[1] for x in s.trace[-6:])
        if probs:
            rep.bad('G1', '%s [%s]' % (label, kind), '; '.join(probs[:3]) + ' (blocks: %s)' % path, loc=fn.loc(header.term),
                    key='a_avl_insert_adjust: growth step')
        else:
            rep.ok('G1', '%s [%s]' % (label, kind), 'links, order and factors consistent; height %s' % ('restored' if kind == 'return' else 'grown by one, invariant re-established'),
                   sample={'fragment': word0, 'after': w})


def growth_entry(ck):
    rep = ck.rep
    fn = ck.mod.functions.get('a_avl_insert_adjust')
    if fn is None:
        rep.unk('G0', 'a_avl_insert_adjust', 'anchor vanished')
        return
    loops = fn.loops()
    if len(loops) != 1:
        return
    header = loops[0][0]
    ph = [i for i in header.instrs if i.op == 'phi'][0]
    # empty tree: the new node is the root
    cases = [('empty tree', None, None, None, None)]
    for pos in ('root', 'UL', 'UR'):
        for sN in ('l', 'r'):
            for hC in (0, 1):
                cases.append(('P@%s leaf=%s sibling height %d' % (pos, sN, hC), pos, sN, hC, None))
    for label, pos, sN, hC, _ in cases:
        try:
            fr = Frag(3)
            if pos is None:
                fr.rootobj, fr.top = 'ROOT', 'N'
                fr.node('N', l=None, r=None, p=None, tag=1)
                old = sp.Integer(0)
                top0 = 'N'
            else:
                above = place(fr, pos, 'P')
                C = sub(fr, 'C', 'P', sp.Integer(hC))
                fP = (hC - 0) if sN == 'l' else (0 - hC)
                fr.node('P', l='N' if sN == 'l' else C, r='N' if sN == 'r' else C, p=above, tag=fP + 1)
                fr.node('N', l=None, r=None, p='P', tag=1)
                old = sp.Integer(1 + hC)
                top0 = 'P'
            st = fr.state()
            word0 = Final(fr, st.store).inorder(top0)
            dom = TreeDom(3)
            it = symx.Interp(dom, ck.lookup)
            ro, rets = it.run_region(fn, [Ptr('ROOT', 0), Ptr('N', 0)], fn.entry, {}, [header], st=st)
            outs = [('return', s, None) for s, r in rets]
            for s, blk, prev in ro:
                outs.append(('continue', s, it.val(ph.ops[ph.x['labels'].index(prev.name)], s, fn)))
            for kind, s, nv in outs:
                F = Final(fr, s.store)
                top = top_of(F, pos or 'root')
                probs = context_problems(F, pos or 'root', s) + F.link_problems(top, None if (pos or 'root') == 'root' else 'U')
                w = F.inorder(top)
                if w != word0:
                    probs.append('in-order sequence changed: %s -> %s' % (word0, w))
                if not probs:
                    probs += ck.factor_problems(F, top)
                if not probs and pos is not None:
                    d = height_cmp(ck.height(F, top), old)
                    if kind == 'return' and d != 0:
                        probs.append('returns although the parent subtree grew from height %s' % old)
                    if kind == 'continue':
                        if not (isinstance(nv, Ptr) and nv.base == 'P' and nv.off == 0):
                            probs.append('the loop starts at %s instead of the parent' % (nv,))
                        if d != 1:
                            probs.append('the loop is entered although the parent subtree did not grow')
                if pos is None and kind != 'return':
                    probs.append('the loop is entered for a tree that consists of the new node')
                if probs:
                    rep.bad('G0', '%s [%s]' % (label, kind), '; '.join(probs[:3]), loc=fn.loc(fn.entry.term), key='a_avl_insert_adjust: growth entry')
                else:
                    rep.ok('G0', '%s [%s]' % (label, kind), 'parent factor updated; %s' % ('height unchanged' if kind == 'return' else 'invariant established'))
        except Unsupported as e:
            rep.unk('G0', label, 'construct outside the domain: %s' % e)


# ---------------------------------------------------------------- shrink step
def shrink_loop(fn):
    """the retracing loop of a_avl_remove: the one that carries two values (parent, left flag)"""
    for h, body, lat in fn.loops():
        phis = [i for i in h.instrs if i.op == 'phi']
        if len(phis) == 2 and any(p.ty.is_ptr for p in phis) and any(p.ty.is_int for p in phis):
            pp = [p for p in phis if p.ty.is_ptr][0]
            pl = [p for p in phis if p.ty.is_int][0]
            return h, body, pp, pl
    return None


def build_shrink(pos, s, fP, t, fS, fE):
    """P whose side s lost one level; returns (fragment, old height of P) or None when the combination is not a valid AVL state"""
    fr = Frag(3)
    above = place(fr, pos, 'P')
    o = other(s)
    hS = t + 1 + (fP if s == 'l' else -fP)
    T = sub(fr, 'T', 'P', t)
    if is_zero(hS):
        S = None
        if fS != 0 or fE != 0:
            return None
    else:
        # sibling S (height hS) with outer child O (side o) and inner child E (side s)
        inner, outer = {0: (hS - 1, hS - 1), 1: (hS - 2, hS - 1), -1: (hS - 1, hS - 2)}[fS if o == 'r' else -fS]
        # fS = h(right) - h(left); for o == 'r' the outer child is S.right
        if height_cmp(inner, 0) is not None and height_cmp(inner, 0) < 0:
            return None
        if height_cmp(outer, 0) is not None and height_cmp(outer, 0) < 0:
            return None
        O = sub(fr, 'O', 'S', outer)
        if is_zero(inner):
            E = None
            if fE != 0:
                return None
        else:
            hF, hG = {0: (inner - 1, inner - 1), -1: (inner - 1, inner - 2), 1: (inner - 2, inner - 1)}[fE]
            for h in (hF, hG):
                c = height_cmp(h, 0)
                if c is not None and c < 0:
                    return None
            Fn = sub(fr, 'F', 'E', hF)
            G = sub(fr, 'G', 'E', hG)
            fr.node('E', l=Fn, r=G, p='S', tag=fE + 1)
            E = 'E'
        fr.node('S', l=E if s == 'l' else O, r=E if s == 'r' else O, p='P', tag=fS + 1)
        S = 'S'
    fr.node('P', l=T if s == 'l' else S, r=T if s == 'r' else S, p=above, tag=fP + 1)
    old = 1 + hmax(t + 1, hS)
    return fr, old


def shrink_step(ck):
    rep = ck.rep
    fn = ck.mod.functions.get('a_avl_remove')
    if fn is None:
        rep.unk('R1', 'a_avl_remove', 'anchor vanished')
        return
    rep.functions.add(fn.name)
    lp = shrink_loop(fn)
    if lp is None:
        rep.unk('R1', fn.name, 'retracing loop (parent, side) not found')
        return
    header, body, pp, pl = lp
    for pos in ('root', 'UL', 'UR'):
        for s in ('l', 'r'):
            for fP in (-1, 0, 1):
                for tname, t in ACASES:
                    for fS in (-1, 0, 1):
                        for fE in (-1, 0, 1):
                            built = build_shrink(pos, s, fP, t, fS, fE)
                            if built is None:
                                continue
                            label = 'P@%s shrunk=%s fP=%+d fS=%+d fE=%+d t%s' % (pos, s, fP, fS, fE, tname[1:])
                            try:
                                shrink_case(ck, fn, header, pp, pl, pos, s, built, label)
                            except Unsupported as e:
                                rep.unk('R1', label, 'fragment too small or construct outside the domain: %s' % e)


def past_test(it, fn, args, header, ro, pp, pl, conc=None):
    """paths arriving at the loop header -> [(kind, state, parent, side)].  A header that only tests the loop variables (while form)
    is passed through: the path either leaves the function ('return') or enters the body ('continue'); a header that already does
    the work of the step (do-while form) is an arrival in itself."""
    _, body, _ = [l for l in fn.loops() if l[0] is header][0]
    pure = all(i.op in ('phi', 'icmp', 'br') for i in header.instrs) and len(header.succs) == 2 and any(b not in body for b in header.succs)
    inside = [b for b in header.succs if b in body]
    outs = []
    for s_, blk, prev in ro:
        if pure and inside:
            env = dict(s_.env)
            for ph in header.instrs:
                if ph.op == 'phi':
                    env[ph.res] = it.val(ph.ops[ph.x['labels'].index(prev.name)], s_, fn)
            ro2, rets2 = it.run_region(fn, args, header, env, inside, st=s_, prev=prev)
            outs += [('return', s2, None, None) for s2, r in rets2]
            for s2, b2, p2 in ro2:
                outs.append(('continue', s2, s2.env[pp.res], s2.env[pl.res]))
        else:
            outs.append(('continue', s_, it.val(pp.ops[pp.x['labels'].index(prev.name)], s_, fn),
                         it.val(pl.ops[pl.x['labels'].index(prev.name)], s_, fn)))
    return outs


def shrink_case(ck, fn, header, pp, pl, pos, s, built, label):
    rep = ck.rep
    fr, old = built
    st = fr.state()
    word0 = Final(fr, st.store).inorder('P')
    dom = TreeDom(3)
    it = symx.Interp(dom, ck.lookup)
    args = [Ptr('ROOT', 0), Ptr('Xgone', 0)]
    env0 = {pp.res: Ptr('P', 0), pl.res: dom.int_const(1 if s == 'l' else 0, 32)}
    ro, rets = it.run_region(fn, args, header, env0, [header], st=st)
    outs = [('return', s_, None, None) for s_, r in rets] + past_test(it, fn, args, header, ro, pp, pl)
    if not outs:
        rep.unk('R1', label, 'no path through the iteration')
        return
    for kind, s_, np_, nl in outs:
        F = Final(fr, s_.store)
        top = top_of(F, pos)
        probs = context_problems(F, pos, s_) + F.link_problems(top, None if pos == 'root' else 'U')
        w = F.inorder(top)
        if w != word0:
            probs.append('in-order sequence changed: %s -> %s' % (' '.join(word0), ' '.join(w)))
        if not probs:
            probs += ck.factor_problems(F, top)
        if not probs:
            h = ck.height(F, top)
            d = height_cmp(h, old)
            if kind == 'return':
                if not (d == 0 or (d == -1 and pos == 'root')):
                    probs.append('retracing stops although the subtree height went from %s to %s below an ancestor' % (old, h))
            else:
                if pos == 'root':
                    probs.append('retracing continues above the root')
                else:
                    if not (isinstance(np_, Ptr) and np_.base == 'U' and np_.off == 0):
                        probs.append('retracing continues at %s, not at the parent of the shrunk subtree' % (np_,))
                    cl = dom.concrete(nl)
                    if cl is None or (cl != 0) != (pos == 'UL'):
                        probs.append('side flag %s does not say which child of the parent shrank (%s)' % (nl, pos))
                    if d != -1:
                        probs.append('retracing continues although the subtree height went from %s to %s' % (old, h))
        path = ' > '.join(x.split(':')[1] for x in s_.trace[-6:])
        if probs:
            rep.bad('R1', '%s [%s]' % (label, kind), '; '.join(probs[:3]) + ' (blocks: %s)' % path, loc=fn.loc(header.term),
                    key='a_avl_remove: shrink step')
        else:
            rep.ok('R1', '%s [%s]' % (label, kind), 'links, order and factors consistent; %s' % (
                'height settled' if kind == 'return' else 'shrunk by one, invariant re-established'), sample={'fragment': word0, 'after': w})


# ---------------------------------------------------------------- removal entry
def run_entry(ck, fn, fr, header, pp, pl, xnode='X'):
    dom = TreeDom(3)
    it = symx.Interp(dom, ck.lookup)
    st = fr.state()
    ro, rets = it.run_region(fn, [Ptr('ROOT', 0), Ptr(xnode, 0)], fn.entry, {}, [header], st=st)
    outs = [('return', s_, None, None) for s_, r in rets]
    for kind, s_, np_, nl in past_test(it, fn, [Ptr('ROOT', 0), Ptr(xnode, 0)], header, ro, pp, pl):
        outs.append((kind, s_, np_, dom.concrete(nl) if kind == 'continue' else None))
    return outs


def stored_factor(F, n):
    p, tag = F.parent(n)
    try:
        return int(tag) - 1
    except Exception:
        return None


def remove_entry(ck):
    rep = ck.rep
    fn = ck.mod.functions.get('a_avl_remove')
    lp = shrink_loop(fn) if fn is not None else None
    if lp is None:
        rep.unk('R0', 'a_avl_remove', 'anchor vanished')
        return
    header, body, pp, pl = lp
    # descent to the successor must not write anything (locality of the splice for spines of any length)
    inner = [l for l in fn.loops() if l[0] is not header and not (l[1] >= body)]
    for h, b, lat in inner:
        wr = [i for blk in b for i in blk.instrs if i.op in ('store', 'call') and not (i.op == 'call' and str(i.x.get('callee')).startswith('@llvm.dbg'))]
        if wr:
            rep.bad('R0', 'successor descent', 'the loop that walks to the in-order successor writes memory', loc=fn.loc(wr[0]), key='a_avl_remove: descent writes')
        else:
            rep.ok('R0', 'successor descent', 'the walk to the in-order successor is read-only (spine nodes between the right child and the successor\'s parent are untouched)')
    # (A) at most one child
    for pos in ('root', 'l', 'r'):
        for kids in ('none', 'l', 'r'):
            for fP in (-1, 0, 1):
                if pos == 'root' and fP != 0:
                    continue
                label = 'unlink X@%s children=%s fP=%+d' % (pos, kids, fP)
                try:
                    fr = Frag(3)
                    hX = 1 if kids == 'none' else 2
                    K = None
                    if kids != 'none':
                        fr.summary('K', p='X', h=sp.Integer(1))
                        K = 'K'
                    fX = {'none': 0, 'l': -1, 'r': 1}[kids]
                    if pos == 'root':
                        fr.rootobj, fr.top = 'ROOT', 'X'
                        fr.node('X', l=K if kids == 'l' else None, r=K if kids == 'r' else None, p=None, tag=fX + 1)
                        top0, above = 'X', None
                    else:
                        hC = hX + (fP if pos == 'l' else -fP)
                        if hC < 0:
                            continue
                        C = sub(fr, 'C', 'P', sp.Integer(hC))
                        fr.node('P', l='X' if pos == 'l' else C, r='X' if pos == 'r' else C, p='PP', tag=fP + 1)
                        fr.node('X', l=K if kids == 'l' else None, r=K if kids == 'r' else None, p='P', tag=fX + 1)
                        top0 = 'P'
                    word0 = [x for x in Final(fr, fr.state().store).inorder(top0) if x != 'X']
                    for kind, s_, np_, nl in run_entry(ck, fn, fr, header, pp, pl):
                        F = Final(fr, s_.store)
                        probs = []
                        if pos == 'root':
                            top = F.top()
                            if kind != 'return':
                                probs.append('retracing starts although the removed node was the root with at most one child')
                            probs += F.link_problems(top, None) if top else []
                            w = F.inorder(top)
                        else:
                            top = 'P'
                            probs += F.link_problems('P', 'PP')
                            w = F.inorder('P')
                            if ('ROOT', 0) in s_.store:
                                probs.append('root pointer written although the removed node is not the root')
                            if kind != 'continue':
                                probs.append('returns without retracing although a subtree of the parent shrank')
                            else:
                                if not (isinstance(np_, Ptr) and np_.base == 'P' and np_.off == 0):
                                    probs.append('retracing starts at %s instead of the parent of the removed node' % (np_,))
                                if nl is None or (nl != 0) != (pos == 'l'):
                                    probs.append('side flag %s does not match the side the node was removed from (%s)' % (nl, pos))
                                if stored_factor(F, 'P') != fP:
                                    probs.append('factor of the parent changed before retracing')
                                if not probs:
                                    hs = ck.height(F, F.child('P', pos))
                                    if height_cmp(hs, hX - 1) != 0:
                                        probs.append('the side of the parent did not shrink by exactly one')
                        if w != word0:
                            probs.append('in-order sequence is %s, expected %s' % (' '.join(w), ' '.join(word0)))
                        if not probs:
                            probs += ck.factor_problems(F, top, skip=('P',))
                        if probs:
                            rep.bad('R0', '%s [%s]' % (label, kind), '; '.join(probs[:3]), loc=fn.loc(fn.entry.term), key='a_avl_remove: unlink')
                        else:
                            rep.ok('R0', '%s [%s]' % (label, kind), 'node unlinked, child re-parented, invariant of the shrink loop established')
                except Unsupported as e:
                    rep.unk('R0', label, 'construct outside the domain: %s' % e)
    # (B) two children: successor splice with a spine of length k
    for pos in ('root', 'l', 'r'):
        for k in (0, 1, 2):
            for b in (0, 1):
                for fs in itertools.product((-1, 0, 1), repeat=k):
                    for fX in (-1, 0, 1):
                        label = 'splice X@%s spine=%d b=%d f=%s fX=%+d' % (pos, k, b, ','.join('%+d' % f for f in fs), fX)
                        try:
                            splice_case(ck, fn, header, pp, pl, pos, k, b, fs, fX, label)
                        except Unsupported as e:
                            rep.unk('R0', label, 'construct outside the domain: %s' % e)


def splice_case(ck, fn, header, pp, pl, pos, k, b, fs, fX, label):
    rep = ck.rep
    fr = Frag(3)
    chain = ['Y'] if k == 0 else (['R', 'Y'] if k == 1 else ['R', 'M', 'Y'])
    H0 = {}
    # bottom-up heights
    B = sub(fr, 'B', 'Y', sp.Integer(b))
    H0['Y'] = 1 + b
    hts = {}
    for i in range(k - 1, -1, -1):
        n, c = chain[i], chain[i + 1]
        hr = H0[c] + fs[i]
        if hr < 0:
            return
        hts[n] = hr
        H0[n] = 1 + max(H0[c], hr)
    hA = H0[chain[0]] - fX
    if hA < 1:
        return
    parents = {chain[0]: 'X'}
    for i in range(1, len(chain)):
        parents[chain[i]] = chain[i - 1]
    fr.node('Y', l=None, r=B, p=parents['Y'], tag=b + 1)
    for i in range(k):
        n = chain[i]
        RS = sub(fr, 'RS' + n, n, sp.Integer(hts[n]))
        fr.node(n, l=chain[i + 1], r=RS, p=parents[n], tag=fs[i] + 1)
    fr.summary('A', p='X', h=sp.Integer(hA))
    H0['X'] = 1 + max(hA, H0[chain[0]])
    if pos == 'root':
        fr.rootobj, fr.top = 'ROOT', 'X'
        fr.node('X', l='A', r=chain[0], p=None, tag=fX + 1)
    else:
        fr.summary('C0', p='P0', h=sp.Symbol('hc', integer=True, nonnegative=True) + 1)
        tP0 = sp.Symbol('tP0', integer=True, nonnegative=True)
        fr.node('P0', l='X' if pos == 'l' else 'C0', r='X' if pos == 'r' else 'C0', p='PP0', tag=tP0)
        fr.node('X', l='A', r=chain[0], p='P0', tag=fX + 1)
    word0 = [x for x in Final(fr, fr.state().store).inorder('X') if x != 'X']
    for kind, s_, np_, nl in run_entry(ck, fn, fr, header, pp, pl):
        F = Final(fr, s_.store)
        probs = []
        if pos == 'root':
            top = F.top()
            probs += F.link_problems(top, None) if isinstance(top, str) else ['root pointer is %r' % (top,)]
        else:
            top = F.child('P0', pos)
            if F.child('P0', other(pos)) != 'C0':
                probs.append('sibling link of the parent changed')
            if F.parent('P0') != ('PP0', tP0):
                probs.append('parent word of the parent of the removed node changed')
            probs += F.link_problems(top, 'P0') if isinstance(top, str) else ['child slot of the parent is %r' % (top,)]
        if top != 'Y':
            probs.append('the in-order successor does not take the place of the removed node (%s)' % (top,))
        w = F.inorder(top) if isinstance(top, str) else []
        if w != word0:
            probs.append('in-order sequence is %s, expected %s' % (' '.join(w), ' '.join(word0)))
        want_parent, want_left = ('Y', 0) if k == 0 else (chain[k - 1], 1)
        if kind != 'continue':
            probs.append('returns without retracing')
        else:
            if not (isinstance(np_, Ptr) and np_.base == want_parent and np_.off == 0):
                probs.append('retracing starts at %s, expected %s (parent of the spliced-out successor)' % (np_, want_parent))
            if nl is None or (nl != 0) != (want_left != 0):
                probs.append('side flag %s, expected %d' % (nl, want_left))
        if not probs:
            # factors: off the path current heights; on the path the heights before the removal
            path_nodes = ['Y'] + chain[:k]     # Y sits in X's place; chain nodes above the old position of Y
            probs += ck.factor_problems(F, top, skip=tuple(path_nodes))
            if stored_factor(F, 'Y') != fX:
                probs.append('successor does not inherit the balance factor of the removed node')
            for i in range(k):
                if stored_factor(F, chain[i]) != fs[i]:
                    probs.append('factor of %s changed before retracing' % chain[i])
            # the slot the successor left shrank by exactly one
            slot = F.child(want_parent, 'l' if want_left else 'r')
            if height_cmp(ck.height(F, slot), H0['Y'] - 1) != 0:
                probs.append('the subtree the successor was taken from did not shrink by exactly one')
        if probs:
            rep.bad('R0', '%s [%s]' % (label, kind), '; '.join(probs[:3]), loc=fn.loc(fn.entry.term), key='a_avl_remove: successor splice')
        else:
            rep.ok('R0', '%s [%s]' % (label, kind), 'successor spliced into the place of the removed node with its factor; invariant of the shrink loop established',
                   sample={'before': Final(fr, fr.state().store).inorder('X'), 'after': w})


# ---------------------------------------------------------------- descents (shared with C02 through the module argument)
OPS = {'<': lambda a, b: a < b, '<=': lambda a, b: a <= b, '>': lambda a, b: a > b, '>=': lambda a, b: a >= b,
       '==': lambda a, b: a == b, '!=': lambda a, b: a != b}


def cmp_signs(s):
    """which signs of the comparison result are compatible with the path condition"""
    import alg
    out = []
    for v in (-1, 0, 1):
        ok = True
        for c in s.pc:
            if isinstance(c, alg.Cond):
                a = sp.sympify(c.a)
                b = sp.sympify(c.b)
                syms = (a.free_symbols | b.free_symbols)
                if len(syms) != 1:
                    continue
                sy = list(syms)[0]
                if not OPS[c.rel()](a.subs(sy, v), b.subs(sy, v)):
                    ok = False
        if ok:
            out.append(v)
    return out


def same_store(s, st0):
    diffs = []
    for k, v in s.store.items():
        if k not in st0 or repr(st0[k][0]) != repr(v[0]):
            diffs.append(k)
    return diffs


def descent_invariant(ck, ins, header, pp, pl, x, cand, mask, adj, frag_of=None):
    """is  x == cand(parent, link)  an invariant of the descent loop?  checked on the arrival from the function entry and, with the
    loop head seeded accordingly at the root link and below a node, on every arrival of one step"""
    def frag(holder, content):
        fr = Frag(mask)
        if content:
            fr.summary('ML', p='M', h=sp.Integer(1))
            fr.summary('MR', p='M', h=sp.Integer(1))
            fr.node('M', l='ML', r='MR', p='Hn' if holder != 'root' else None, tag=1)
        if holder == 'root':
            fr.rootobj, fr.top = 'ROOT', ('M' if content else None)
        else:
            fr.summary('HS', p='Hn', h=sp.Integer(1))
            c = 'M' if content else None
            fr.node('Hn', l=c if holder == 'l' else 'HS', r=c if holder == 'r' else 'HS', p='HP', tag=1)
        fr.node('NEW', l='?', r='?', p='?', tag=0)
        return fr
    args = [Ptr('ROOT', 0), Ptr('NEW', 0), symx.FnPtr('cmp')]
    try:
        for content in (True, False):
            fr = frag('root', content)
            st = fr.state()
            it = symx.Interp(TreeDom(mask), ck.lookup, inline=lambda n: n != adj)
            ro, rets = it.run_region(ins, args, ins.entry, {}, [header], st=st)
            for s_, blk, prev in ro:
                vals = {p.res: it.val(p.ops[p.x['labels'].index(prev.name)], s_, ins) for p in (pp, pl, x)}
                if vals[x.res] != cand(vals[pp.res], vals[pl.res], s_, it, x.ty):
                    return False
        for holder in ('root', 'l', 'r'):
            link = Ptr('ROOT', 0) if holder == 'root' else Ptr('Hn', Frag.L if holder == 'l' else Frag.R)
            par = NULL if holder == 'root' else Ptr('Hn', 0)
            fr = frag(holder, True)
            st = fr.state()
            it = symx.Interp(TreeDom(mask), ck.lookup, inline=lambda n: n != adj)
            env = {pp.res: par, pl.res: link, x.res: cand(par, link, st, it, x.ty)}
            ro, rets = it.run_region(ins, args, header, env, [header], st=st)
            for s_, blk, prev in ro:
                vals = {p.res: it.val(p.ops[p.x['labels'].index(prev.name)], s_, ins) for p in (pp, pl, x)}
                if vals[x.res] != cand(vals[pp.res], vals[pl.res], s_, it, x.ty):
                    return False
    except Unsupported:
        return False
    return True


def descents(ck, prefix, mask, rule='D1'):
    """insert: comparison-directed descent, duplicate returns the resident node untouched, the new node is initialised and
    attached at the null link that ended the descent, then rebalancing is called; search: same direction convention"""
    rep = ck.rep
    ins = ck.mod.functions.get(prefix + '_insert')
    sea = ck.mod.functions.get(prefix + '_search')
    adj = prefix + '_insert_adjust'
    if ins is None or sea is None:
        rep.unk(rule, prefix, 'anchor vanished')
        return
    rep.functions.update([ins.name, sea.name])
    # ---- insert
    loops = ins.loops()
    if len(loops) != 1:
        rep.unk(rule, ins.name, 'expected one descent loop')
        return
    header = loops[0][0]
    phis = [i for i in header.instrs if i.op == 'phi']
    pl = [p for p in phis if p.ty.is_ptr and p.ty.a is not None and p.ty.a.is_ptr]
    pp = [p for p in phis if p not in pl]
    # further node-pointer variables are accepted when they are redundant: equal to *link or to parent at the loop head, by
    # induction (checked on the entry and on every step below); the first non-link pointer that is not redundant is the parent
    if len(pl) != 1 or len(pp) < 1 or any(not p.ty.is_ptr for p in pp):
        rep.unk(rule, ins.name, 'descent loop does not carry (parent, link)')
        return
    pl = pl[0]
    CANDS = {'*link': lambda par_, link_, st_, it_, ty_: it_.load(link_, ty_, st_), 'parent': lambda par_, link_, st_, it_, ty_: par_}
    choice = None
    for cand_pp in pp:
        extras = [p for p in pp if p is not cand_pp]
        sel = {}
        okc = True
        for x in extras:
            sel[x.res] = None
            for cname in ('*link', 'parent'):
                if descent_invariant(ck, ins, header, cand_pp, pl, x, CANDS[cname], mask, adj, frag_of=None):
                    sel[x.res] = cname
                    break
            if sel[x.res] is None:
                okc = False
        if okc:
            choice = (cand_pp, extras, sel)
            break
    if choice is None:
        rep.unk(rule, ins.name, 'descent loop does not carry (parent, link)')
        return
    pp, extras, sel = choice

    def seed(par_, link_, st_, it_):
        env = {pp.res: par_, pl.res: link_}
        for x in extras:
            env[x.res] = CANDS[sel[x.res]](par_, link_, st_, it_, x.ty)
        return env

    def frag(holder, content):
        fr = Frag(mask)
        if content:
            fr.summary('ML', p='M', h=sp.Integer(1))
            fr.summary('MR', p='M', h=sp.Integer(1))
            fr.node('M', l='ML', r='MR', p='Hn' if holder != 'root' else None, tag=1)
        if holder == 'root':
            fr.rootobj, fr.top = 'ROOT', ('M' if content else None)
        else:
            fr.summary('HS', p='Hn', h=sp.Integer(1))
            c = 'M' if content else None
            fr.node('Hn', l=c if holder == 'l' else 'HS', r=c if holder == 'r' else 'HS', p='HP', tag=1)
        fr.node('NEW', l='?', r='?', p='?', tag=0)
        return fr
    for holder in ('root', 'l', 'r'):
        link = Ptr('ROOT', 0) if holder == 'root' else Ptr('Hn', Frag.L if holder == 'l' else Frag.R)
        par = NULL if holder == 'root' else Ptr('Hn', 0)
        # (a) occupied link: one descent step
        fr = frag(holder, True)
        st = fr.state()
        st0 = dict(st.store)
        dom = TreeDom(mask)
        it = symx.Interp(dom, ck.lookup, inline=lambda n: n != adj)
        try:
            ro, rets = it.run_region(ins, [Ptr('ROOT', 0), Ptr('NEW', 0), symx.FnPtr('cmp')], header, seed(par, link, st, it), [header], st=st)
        except Unsupported as e:
            rep.unk(rule, '%s step at %s' % (ins.name, holder), str(e))
            continue
        seen = set()
        for s, blk, prev in ro:
            sg = cmp_signs(s)
            np_ = it.val(pp.ops[pp.x['labels'].index(prev.name)], s, ins)
            nl = it.val(pl.ops[pl.x['labels'].index(prev.name)], s, ins)
            want = {(-1,): Ptr('M', Frag.L), (1,): Ptr('M', Frag.R)}.get(tuple(sg))
            probs = []
            if want is None:
                probs.append('descent continues for comparison results %s' % sg)
            else:
                seen.add(sg[0])
                if not (isinstance(nl, Ptr) and nl == want):
                    probs.append('cmp %s 0 descends to %s, expected the %s link of the visited node' % ('<' if sg[0] < 0 else '>', nl, 'left' if sg[0] < 0 else 'right'))
                if not (isinstance(np_, Ptr) and np_ == Ptr('M', 0)):
                    probs.append('parent candidate is %s, not the visited node' % (np_,))
            if same_store(s, st0):
                probs.append('the descent writes %s' % same_store(s, st0)[:2])
            if [c for c in s.calls if c[0] == 'cmp' and not (c[1][0] == Ptr('NEW', 0) and c[1][1] == Ptr('M', 0))]:
                probs.append('comparison is not called as cmp(new node, resident node)')
            (rep.bad if probs else rep.ok)(rule, '%s step at %s link, cmp%s0' % (ins.name, holder, {-1: '<', 1: '>'}.get(sg[0] if sg else 0, '?')),
                                           '; '.join(probs) or 'descends to the matching child link, parent candidate = visited node',
                                           **({'key': '%s: descent' % ins.name, 'loc': ins.loc(header.term)} if probs else {}))
        for s, r in rets:
            sg = cmp_signs(s)
            probs = []
            if sg != [0]:
                probs.append('returns during the descent for comparison results %s' % sg)
            else:
                seen.add(0)
            if not (isinstance(r, Ptr) and r == Ptr('M', 0)):
                probs.append('duplicate key returns %s, not the resident node' % (r,))
            # the tree must be left alone; what happens to the rejected node (it is not an element) is not the property's business
            tw = [k_ for k_ in same_store(s, st0) if k_[0] != 'NEW']
            if tw:
                probs.append('duplicate insertion writes %s' % tw[:2])
            if [c for c in s.calls if c[0] != 'cmp']:
                probs.append('duplicate insertion calls %s' % [c[0] for c in s.calls if c[0] != 'cmp'])
            (rep.bad if probs else rep.ok)(rule, '%s step at %s link, cmp=0' % (ins.name, holder), '; '.join(probs) or 'returns the resident node, no store, no rebalancing',
                                           **({'key': '%s: duplicate' % ins.name, 'loc': ins.loc(header.term)} if probs else {}))
        if seen != {-1, 0, 1}:
            rep.bad(rule, '%s step at %s link' % (ins.name, holder), 'comparison outcomes handled: %s' % sorted(seen), key='%s: descent' % ins.name, loc=ins.loc(header.term))
        # (b) null link: attach
        fr = frag(holder, False)
        st = fr.state()
        dom = TreeDom(mask)
        it = symx.Interp(dom, ck.lookup, inline=lambda n: n != adj)
        try:
            ro, rets = it.run_region(ins, [Ptr('ROOT', 0), Ptr('NEW', 0), symx.FnPtr('cmp')], header, seed(par, link, st, it), [header], st=st)
        except Unsupported as e:
            rep.unk(rule, '%s attach at %s' % (ins.name, holder), str(e))
            continue
        probs = []
        if ro or len(rets) != 1:
            probs.append('attach step does not end the descent')
        for s, r in rets:
            F = Final(fr, s.store)
            if not (isinstance(r, Ptr) and r.base == 'null'):
                probs.append('successful insertion returns %s instead of null' % (r,))
            got = F.top() if holder == 'root' else F.child('Hn', holder)
            if got != 'NEW':
                probs.append('the new node is not stored into the link that ended the descent (%s)' % (got,))
            if F.child('NEW', 'l') is not None or F.child('NEW', 'r') is not None:
                probs.append('children of the new node are not cleared')
            p_, tag = F.parent('NEW')
            if p_ != (None if holder == 'root' else 'Hn'):
                probs.append('parent of the new node is %s' % (p_,))
            if mask == 3 and tag != 1:
                probs.append('balance tag of the new node is %s (expected balanced)' % (tag,))
            if mask == 1 and tag != 0:
                probs.append('the new node is not red (tag %s)' % (tag,))
            calls = [c for c in s.calls if c[0] == adj]
            if len(calls) != 1 or not (calls[0][1][0] == Ptr('ROOT', 0) and calls[0][1][1] == Ptr('NEW', 0)):
                probs.append('rebalancing is not called once with (root, new node): %s' % (s.calls,))
        (rep.bad if probs else rep.ok)(rule, '%s attach at %s link' % (ins.name, holder), '; '.join(probs) or 'new node initialised, attached, rebalancing called',
                                       **({'key': '%s: attach' % ins.name, 'loc': ins.loc(header.term)} if probs else {}))
    # entry: link starts at the root pointer
    fr = frag('root', True)
    st = fr.state()
    dom = TreeDom(mask)
    it = symx.Interp(dom, ck.lookup, inline=lambda n: n != adj)
    ro, rets = it.run_region(ins, [Ptr('ROOT', 0), Ptr('NEW', 0), symx.FnPtr('cmp')], ins.entry, {}, [header], st=st)
    ok = len(ro) == 1 and not rets
    if ok:
        s, blk, prev = ro[0]
        nl = it.val(pl.ops[pl.x['labels'].index(prev.name)], s, ins)
        ok = isinstance(nl, Ptr) and nl == Ptr('ROOT', 0)
    (rep.ok if ok else rep.bad)(rule, '%s entry' % ins.name, 'descent starts at the root pointer' if ok else 'descent does not start at the root pointer',
                                **({} if ok else {'key': '%s: entry' % ins.name}))
    # ---- search
    if any(i.op == 'store' for i in sea.instrs()):
        rep.bad(rule, sea.name, 'lookup writes memory', key='%s: store' % sea.name)
    loops = sea.loops()
    if len(loops) != 1:
        rep.unk(rule, sea.name, 'expected one descent loop')
        return
    header = loops[0][0]
    ph = [i for i in header.instrs if i.op == 'phi']
    if len(ph) != 1:
        rep.unk(rule, sea.name, 'descent loop does not carry the current node only')
        return
    ph = ph[0]
    for content in (True, False):
        fr = frag('root', content)
        st = fr.state()
        dom = TreeDom(mask)
        it = symx.Interp(dom, ck.lookup)
        cur = Ptr('M', 0) if content else NULL
        ro, rets = it.run_region(sea, [Ptr('ROOT', 0), Ptr('KEY', 0), symx.FnPtr('cmp')], header, {ph.res: cur}, [header], st=st)
        seen = set()
        probs = []
        for s, blk, prev in ro:
            sg = cmp_signs(s)
            nv = it.val(ph.ops[ph.x['labels'].index(prev.name)], s, sea)
            want = {(-1,): Ptr('ML', 0), (1,): Ptr('MR', 0)}.get(tuple(sg))
            if want is None or nv != want:
                probs.append('for comparison results %s the lookup moves to %s' % (sg, nv))
            else:
                seen.add(sg[0])
            if [c for c in s.calls if c[0] == 'cmp' and not (c[1][0] == Ptr('KEY', 0) and c[1][1] == Ptr('M', 0))]:
                probs.append('comparison is not called as cmp(key, resident node)')
        for s, r in rets:
            sg = cmp_signs(s)
            if content:
                if sg != [0] or r != Ptr('M', 0):
                    probs.append('lookup returns %s for comparison results %s' % (r, sg))
                else:
                    seen.add(0)
            else:
                if not (isinstance(r, Ptr) and r.base == 'null'):
                    probs.append('lookup in an empty subtree returns %s' % (r,))
        if content and seen != {-1, 0, 1}:
            probs.append('comparison outcomes handled: %s' % sorted(seen))
        (rep.bad if probs else rep.ok)(rule, '%s %s' % (sea.name, 'step' if content else 'miss'), '; '.join(probs) or (
            'left on <, right on >, found on = (same convention as insert)' if content else 'null when the descent falls off the tree'),
            **({'key': '%s: step' % sea.name, 'loc': sea.loc(header.term)} if probs else {}))
