"""C18 - UTF-8 (DESIGN 4 C18).  U2 encode writes, U3 class table, U4 round trip and prefix failure (BIT, per class,
all code points of the class at once), U1d decoder on arbitrary bytes: reads < num, result <= num, continuation bytes
(BIT, every byte string, num = 0..6 and any num > 6), U5 a_utf_length loop template.  U1/U2 for symbolic num and
a_utf_catc's reservation are LIN obligations (added when LIN is available)."""
import json, os
import sympy as sp
import symx, bit, alg, looptx, llir
from bit import BV, ZERO, ONE, Lin, Off
from symx import Ptr, Unsupported, NULL

LEVEL = 'proof'
SPEC = json.load(open(os.path.join(os.path.dirname(__file__), '..', 'specs', 'utf8.json')))


def lookup_in(mods):
    def lk(name):
        for m in mods:
            f = m.functions.get(name)
            if f is not None and not f.error:
                return f
        return None
    return lk


def pc_range(pc, x, dom=None):
    """[lo, hi] of the masked code point from the opaque comparisons on it"""
    lo, hi = 0, (1 << 31) - 1
    pc2 = []
    for c in pc:
        if isinstance(c, BV) and dom is not None:
            for nm, cc in dom.cond_atoms.items():
                if c.bits[0] == bit.atom(nm):
                    c = cc
                elif c.bits[0] == bit.bnot(bit.atom(nm)):
                    c = cc.neg()
        pc2.append(c)
    for c in pc2:
        if isinstance(c, bit.Cond) and isinstance(c.b, BV) and c.b.value() is not None:
            k = c.b.value()
            p, pos = c.pred, c.pos
            if (p == 'ult' and pos) or (p == 'uge' and not pos):
                hi = min(hi, k - 1)
            elif (p == 'ule' and pos) or (p == 'ugt' and not pos):
                hi = min(hi, k)
            elif (p == 'uge' and pos) or (p == 'ult' and not pos):
                lo = max(lo, k)
            elif (p == 'ugt' and pos) or (p == 'ule' and not pos):
                lo = max(lo, k + 1)
            elif p == 'eq' and k == 0:
                if pos:
                    hi = 0
                else:
                    lo = max(lo, 1)
    return lo, hi


def under(pc, bv, const):
    """is bv == const on every input satisfying the single-bit path conditions?"""
    for i, b in enumerate(bv.bits):
        want = ONE if (const >> i) & 1 else ZERO
        if b == want:
            continue
        if not bit.implies(pc, b ^ want):
            if any(isinstance(a, str) and a.startswith('C{') for mo in (b if not isinstance(b, int) else ()) for a in mo):
                # the bit is an uninterpreted comparison: the analysis cannot tell, which is not a refutation
                raise Unsupported('result bit %d is an uninterpreted comparison (%s)' % (i, bit.fmt_bit(b)))
            return False
    return True


def nonzero_under(pc):
    """x != 0 forced by a single-bit condition?"""
    return any(isinstance(c, BV) for c in pc)


def run(ctx):
    rep = ctx.rep
    rep.explanation = ('a_utf_encode is abstractly interpreted once with a symbolic 31-bit code point; its decision-tree leaves are '
                       'the length classes (range from the ladder comparisons, known-zero bits from the power-of-two bounds); the '
                       'bytes each class writes are compared with the UTF-8 table in ANF; those byte vectors are fed to the '
                       'abstract semantics of a_utf_decode (num = len: same length and code point; num < len: 0); a_utf_decode is '
                       'also analysed on completely symbolic bytes for num = 0..6 and any num > 6')
    rep.trusted += ['lib/bit.py ANF']
    m = ctx.module('utf')
    lk = lookup_in([m])
    enc = ctx.fn('utf', 'a_utf_encode')
    dec = ctx.fn('utf', 'a_utf_decode')
    if enc is None or dec is None:
        rep.unk('U3', 'a_utf_encode/a_utf_decode', 'anchor vanished')
        return
    classes = {c['len']: c for c in SPEC['classes']}
    try:
        dom = bit.Bit()
        it = symx.Interp(dom, lk)
        X = BV.sym('x', 32)
        leaves = it.run(enc, [X, Ptr('buf', 0)])
    except Unsupported as e:
        rep.unk('U3', 'a_utf_encode', str(e))
        return
    loc = enc.loc(enc.entry.instrs[0])
    seen = {}
    for lf in leaves:
        lo, hi = pc_range(lf.pc_raw, X, dom)
        r = lf.ret
        n = r.value() if isinstance(r, BV) else None
        if n is None and isinstance(r, BV):
            # class 1: offset = (x > 0) under the path condition x != 0
            if under(lf.pc_raw, r, 1):
                n = 1
                lo = max(lo, 1)
            elif under(lf.pc_raw, r, 0):
                n = 0
                hi = 0
        if lo > hi:
            # a path for arguments with bit 31 set only (rejected instead of masked, say): not a code point, outside the property
            continue
        if n is None:
            rep.unk('U3', 'a_utf_encode', 'length on path %s is not a constant: %r' % (lf.pc, r), loc=loc)
            continue
        if lo == 0 and hi < (1 << 12):
            # a test of the whole (small) code point against zero arrives as a bit-level condition: x == 0 / x != 0 on this path?
            try:
                allz = ONE
                for i_ in range(max(1, hi.bit_length())):
                    allz = bit.band(allz, bit.bnot(X.bits[i_]))
                if bit.implies(lf.pc_raw, allz):              # "all bits zero" is false on this path
                    lo = 1
                elif bit.implies(lf.pc_raw, bit.bnot(allz)):   # ... is true on this path
                    hi = 0
            except Exception:
                pass
        sym = 'a_utf_encode[len=%d]' % n
        cl = classes.get(n)
        if cl is None:
            rep.bad('U3', sym, 'returns length %d for code points [%#x,%#x]' % (n, lo, hi), loc=loc, key='a_utf_encode: length %d' % n)
            continue
        # class 0/1 share the ladder range [0,0x7F]: split by the non-zero condition
        if n == 0:
            wlo, whi = 0, 0
            if lo == 0 and hi == 0x7F:
                hi = 0
        else:
            wlo, whi = int(cl['lo'], 16), int(cl['hi'], 16)
        if (lo, hi) != (wlo, whi):
            rep.bad('U3', sym, 'length %d is chosen for code points [%#x,%#x], the UTF-8 table says [%#x,%#x]' % (n, lo, hi, wlo, whi),
                    loc=loc, key='a_utf_encode: class %d range' % n)
        else:
            rep.ok('U3', sym, 'length %d exactly for code points [%#x,%#x]' % (n, lo, hi), loc=loc,
                   sample={'len': n, 'range': [hex(lo), hex(hi)], 'path': [repr(c)[:60] for c in lf.pc][:4]})
        seen[n] = lf
        # ---- U2: bytes written
        cells = {k[1]: v for k, v in lf.store.items() if k[0] == 'buf'}
        probs = []
        if sorted(cells, key=str) != list(range(n)):
            probs.append('writes indices %s, expected 0..%d' % (sorted(cells, key=str), n - 1))
        else:
            pb = cl.get('payload_bits', 0) if n else 0
            # the code point as seen on this path: bits above the class's payload are zero (range checked by U3)
            xs = BV(list(X.bits[:pb]) + [ZERO] * (32 - pb))
            for k in range(n):
                v, t = cells[k]
                if t != llir.I(8):
                    probs.append('index %d written with width %r' % (k, t))
                    continue
                if n == 1:
                    want = BV(list(xs.bits[:7]) + [ZERO])
                elif k == 0:
                    top = pb - 6 * (n - 1)
                    lead = [ONE] * n + [ZERO]
                    want = BV(list(xs.bits[6 * (n - 1):6 * (n - 1) + top]) + list(reversed(lead)))
                else:
                    sh = 6 * (n - 1 - k)
                    want = BV(list(xs.bits[sh:sh + 6]) + [ZERO, ONE])
                if v != want:
                    probs.append('byte %d is %r, expected %r' % (k, v, want))
        if probs:
            rep.bad('U2', sym, '; '.join(probs[:2]), loc=loc, key='a_utf_encode: class %d bytes' % n)
        else:
            rep.ok('U2', sym, 'writes exactly indices 0..%d with the table\'s lead/continuation layout' % (n - 1), loc=loc,
                   sample={'len': n, 'byte0': repr(cells[0][0]) if n else None})
        # ---- U4: round trip through the decoder's abstract semantics
        if n >= 1 and not probs:
            roundtrip(rep, dec, lk, lf, n, cells, BV(list(X.bits[:cl['payload_bits']]) + [ZERO] * (32 - cl['payload_bits'])), loc)
    for n in range(0, 7):
        if n not in seen:
            rep.bad('U3', 'a_utf_encode[len=%d]' % n, 'no path of the encoder produces length %d' % n, loc=loc, key='a_utf_encode: class %d missing' % n)
    # encoder with buf == NULL: same length, no store
    try:
        dom = bit.Bit()
        it = symx.Interp(dom, lk)
        lv = it.run(enc, [BV.sym('x', 32), NULL])
        if any(k[0] not in ('alloca',) and not str(k[0]).startswith('alloca') for l in lv for k in l.store):
            rep.bad('U2', 'a_utf_encode[buf=NULL]', 'stores through a null buffer', loc=loc, key='a_utf_encode: null store')
        else:
            rep.ok('U2', 'a_utf_encode[buf=NULL]', 'no store when the buffer is null (%d paths)' % len(lv), loc=loc)
    except Unsupported as e:
        rep.unk('U2', 'a_utf_encode[buf=NULL]', str(e))
    arbitrary(rep, dec, lk)
    length_loop(ctx)
    lead_loop(ctx, lk)
    rep.floor('U3', 7)
    rep.floor('U2', 8)
    rep.floor('U4', 6 * 2 + 15)
    rep.floor('U6', 1)
    rep.floor('U1d', 16)
    fixtures(ctx)


def current_x(lf, X):
    """X with the substitutions learnt on the path (known-zero bits): recover from the returned/stored values is not
    possible in general, so re-apply the refinements of the path conditions"""
    d = bit.Bit()
    st = symx.State()
    st.env['x'] = BV(list(X.bits[:31]) + [ZERO])
    for c in lf.pc:
        d.refine(st, c)
    return st.env['x']


def roundtrip(rep, dec, lk, lf, n, cells, xs, loc):
    for with_val in (True, False):
        # stated lengths far above the sequence as well: a length narrowed to 8 / 16 / 32 bits on the way would wrap to a small value
        for num in list(range(1, n + 1)) + [n + 1, 9, 2 ** 8, 2 ** 16 + 1, 2 ** 32, 2 ** 32 + n - 1, 2 ** 64 - 1]:
            sym = 'decode(encode[len=%d]) num=%s%s' % (n, num if num < 256 else hex(num), '' if with_val else ' val=NULL')
            try:
                dom = bit.Bit()
                it = symx.Interp(dom, lk)
                st = symx.State()
                # assumption = the class facts established by U3: bits above the payload are zero (already in xs);
                # class 1 additionally excludes code point 0
                if n == 1:
                    nz = ZERO
                    for b in xs.bits[:7]:
                        nz = bit.bor(nz, b)
                    st.assume(BV([nz]))
                for k in range(n):
                    st.store[('enc', k)] = (cells[k][0], llir.I(8))
                    st.offs[('enc', k)] = k
                # bytes beyond the encoding are arbitrary
                leaves = it.run(dec, [Ptr('enc', 0), BV.const(num, 64), Ptr('out', 0) if with_val else NULL], st)
            except Unsupported as e:
                rep.unk('U4', sym, str(e), loc=loc)
                continue
            probs = []
            for l2 in leaves:
                r = l2.ret
                if num >= n:
                    if not (isinstance(r, BV) and under(l2.pc_raw, r, n)):
                        probs.append('returns %r, expected %d' % (r, n))
                    if with_val:
                        o = l2.store.get(('out', 0))
                        if o is None:
                            probs.append('code point not stored')
                        elif not all(a == b or bit.implies(l2.pc_raw, a ^ b) for a, b in zip(o[0].bits, xs.bits)):
                            probs.append('decoded code point %r, expected %r' % (o[0], xs))
                    reads = [k for k in l2.entry if k[0] == 'enc']
                    if reads:
                        probs.append('reads beyond the %d encoded bytes: %s' % (n, [k[1] for k in reads]))
                else:
                    if not (isinstance(r, BV) and under(l2.pc_raw, r, 0)):
                        probs.append('proper prefix of length %d is accepted (returns %r)' % (num, r))
                    reads = [k for k in l2.entry if k[0] == 'enc']
                    bad = [k for k in list(l2.entry) if k[0] == 'enc']
                    if bad:
                        probs.append('reads uninitialised/out-of-range bytes %s' % [k[1] for k in bad])
            if not leaves:
                probs.append('no feasible path')
            if probs:
                rep.bad('U4', sym, '; '.join(sorted(set(probs))[:2]), loc=loc, key='roundtrip: class %d num%s%d' % (n, '>=' if num >= n else '<', n))
            else:
                rep.ok('U4', sym, ('length %d and the same 31 bits' % n) if num >= n else 'prefix rejected (0)', loc=loc,
                       sample={'class': n, 'num': num, 'paths': len(leaves)})


def arbitrary(rep, dec, lk):
    """decoder on completely symbolic bytes"""
    loc = dec.loc(dec.entry.instrs[0])
    for num, with_val in [(n_, w_) for w_ in (True, False) for n_ in list(range(0, 7)) + ['>6']]:
        # the decoder has two copies of its continuation loop: with a value pointer and without one (the form a_utf_length uses)
        sym = 'a_utf_decode[num=%s%s]' % (num, '' if with_val else ', val=NULL')
        try:
            dom = bit.Bit()
            if num == '>6':
                dom.lin_lb['n'] = 7
                dom.unbounded.add('n')
                nv = Lin.sym('n', 64)
                cap = 7      # the smallest num in this class
            else:
                nv = BV.const(num, 64)
                cap = num
            it = symx.Interp(dom, lk, max_paths=20000)
            leaves = it.run(dec, [Ptr('in', 0), nv, Ptr('out', 0) if with_val else NULL])
        except Unsupported as e:
            rep.unk('U1d', sym, str(e), loc=loc)
            continue
        probs = []
        nacc = 0
        for lf in leaves:
            reads = sorted(k[1] for k in lf.entry if k[0] == 'in')
            if any((not isinstance(o, int)) or o >= cap or o < 0 for o in reads):
                probs.append('reads offsets %s with num=%s' % (reads, num))
            r = lf.ret
            rv = r.value() if isinstance(r, BV) else None
            if rv is None:
                # class-1 style result (chr > 0): 0 or 1
                if isinstance(r, BV) and all(b == ZERO for b in r.bits[1:]):
                    rv = 1
                else:
                    probs.append('result %r is not bounded' % (r,))
                    continue
            if rv > cap:
                probs.append('reports %d bytes with only %s available' % (rv, num))
            if rv > 6:
                probs.append('accepts a %d-byte sequence; the UTF-8 table has at most 6' % rv)
            if rv >= 2:
                nacc += 1
                for k in range(1, rv):
                    b = lf.entry.get(('in', k, 'i8'))
                    if b is None:
                        probs.append('accepts length %d without reading byte %d' % (rv, k))
                        continue
                    if not (bit.implies(lf.pc_raw, b.bits[7] ^ ONE) and bit.implies(lf.pc_raw, b.bits[6])):
                        probs.append('accepts length %d although byte %d need not be 10xxxxxx' % (rv, k))
                # lead byte must announce exactly rv bytes: bits 7..(8-rv) ones then a zero
                b0 = lf.entry.get(('in', 0, 'i8'))
                for j in range(rv):
                    if not bit.implies(lf.pc_raw, b0.bits[7 - j] ^ ONE):
                        probs.append('accepts length %d with lead bit %d not forced to 1' % (rv, 7 - j))
                if rv < 7 and 7 - rv >= 0 and not bit.implies(lf.pc_raw, b0.bits[7 - rv]):
                    if not (rv == 6 and False):
                        probs.append('accepts length %d although the lead byte announces more' % rv)
        if probs:
            rep.bad('U1d', sym, '; '.join(sorted(set(probs))[:3]), loc=loc, key='a_utf_decode: arbitrary bytes num=%s%s' % (num, '' if with_val else ' val=NULL'))
        else:
            rep.ok('U1d', sym, '%d paths: every read < num, result <= num, multi-byte results only with continuation bytes (%d accepting paths)'
                   % (len(leaves), nacc), loc=loc, sample={'num': str(num), 'paths': len(leaves)})


class LenDom(alg.Alg):
    def opaque_call(self, name, args, ins, interp, st):
        if name == 'a_utf_decode':
            p, n, v = args
            if not isinstance(p, Ptr):
                return NotImplemented
            self.last = (p, n, v)
            self.calls = getattr(self, 'calls', []) + [(p, n, v)]
            return self.sym('d', integer=True, nonnegative=True)
        return NotImplemented

    def nonnull(self, base):
        return base != 'stop'

    def null_test(self, pred, p):
        return alg.Cond('icmp', pred, self.sym('&' + p.base, integer=True), 0)


def length_loop(ctx):
    rep = ctx.rep
    fn = ctx.fn('utf', 'a_utf_length')
    if fn is None:
        rep.unk('U5', 'a_utf_length', 'anchor vanished')
        return
    loc = fn.loc(fn.entry.instrs[0])
    try:
        dom = LenDom()
        num = dom.sym('num', integer=True, nonnegative=True)
        roles = {}
        args = [Ptr('in', 0), num, Ptr('stop', 0)]

        # index form (a position counter instead of a walked pointer and a shrinking count): a first run with anonymous counters tells
        # which zero-initialised counter is the position - the one the decoder's pointer argument is formed from
        loops_ = fn.loops()
        hphis = [i for i in loops_[0][0].instrs if i.op == 'phi'] if len(loops_) == 1 else []
        pos_phi = None
        if hphis and not any(p_.ty.is_ptr for p_ in hphis):
            d0 = LenDom()
            looptx.transformer(fn, lambda n: None, args, d0, lambda ph, init: d0.sym('u_' + ph.res, integer=True))
            used = set()
            for c_ in getattr(d0, 'calls', []):
                if isinstance(c_[0], Ptr):
                    used |= set(str(x) for x in sp.sympify(c_[0].off).free_symbols)
            cands = [p_.res for p_ in hphis if ('u_' + p_.res) in used]
            if len(cands) == 1:
                pos_phi = cands[0]

        def bind(ph, init):
            if ph.ty.is_ptr:
                roles['p'] = ph.res
                return Ptr(init.base, dom.sym('o', integer=True))
            if ph.res == pos_phi:
                roles['pos'] = ph.res
                return dom.sym('o', integer=True)
            if init == num:
                roles['n'] = ph.res
                return dom.sym('k', integer=True)
            if dom.concrete(init) == 0:
                roles['len'] = ph.res
                return dom.sym('L', integer=True)
            roles['d'] = ph.res
            return dom.sym('dprev', integer=True)
        tx = looptx.transformer(fn, lambda n: None, args, dom, bind)
        indexed = 'pos' in roles
        if not ({'p', 'n', 'len'} <= set(roles) or {'pos', 'len'} <= set(roles)) or len(tx.backs) != 1:
            raise Unsupported('loop does not have the (cursor, remaining, count) shape: %s' % roles)
        s1, nv = tx.backs[0]
        dsym = tx.sym[roles['d']] if 'd' in roles else dom.sym('d', integer=True, nonnegative=True)
        if len(getattr(dom, 'calls', [])) > (2 if 'd' in roles else 1):
            raise Unsupported('a pass of the loop calls the decoder several times (unrolled?): outside the one-sequence-per-pass template')
        probs = []
        if indexed:
            o = tx.sym[roles['pos']]
            rem_cur, off_next = num - o, sp.sympify(nv[roles['pos']])
            rem_next = num - off_next
            off_init = sp.sympify(tx.init[roles['pos']])
        else:
            o = tx.sym[roles['p']].off
            rem_cur = tx.sym[roles['n']]
            off_next = sp.sympify(nv[roles['p']].off) if isinstance(nv[roles['p']], Ptr) else None
            rem_next = nv[roles['n']]
            ip_ = tx.init[roles['p']]
            off_init = sp.sympify(ip_.off) if isinstance(ip_, Ptr) and ip_.base == 'in' else None
        if off_next is None or not alg.is_zero(off_next - o - dsym):
            probs.append('cursor advances by %s, expected the reported length' % (sp.expand(off_next - o) if off_next is not None else '?'))
        if not alg.is_zero(rem_next - (rem_cur - dsym)):
            probs.append('remaining count becomes %s, expected num - reported length' % rem_next)
        if not alg.is_zero(nv[roles['len']] - tx.sym[roles['len']] - 1):
            probs.append('length becomes %s, expected length + 1' % nv[roles['len']])
        g = [c for c in s1.pc if isinstance(c, alg.Cond)]
        if not any(c.rel() == '!=' and c.a == dsym and c.b == 0 for c in g):
            probs.append('loop guard %s, expected reported length != 0' % g)
        # the decoder is invoked on (cursor, remaining): either once in front of the loop and again at the end of the body on the
        # advanced values (the reported length is carried into the next iteration), or at the head of every iteration on the current ones
        def on(call, off, rem):
            p, n, v = call
            return isinstance(p, Ptr) and p.base == 'in' and alg.is_zero(sp.sympify(p.off) - sp.sympify(off)) and alg.is_zero(sp.sympify(n) - sp.sympify(rem))
        calls = getattr(dom, 'calls', [])
        if 'd' in roles:
            if len(calls) != 2 or not on(calls[0], 0, num):
                probs.append('first decoder call is on %s, expected (ptr, num)' % (calls[:1],))
            if not calls or not on(calls[-1], off_next, rem_next):
                probs.append('decoder is called on (%s, %s), expected (cursor, remaining)' % (calls[-1][0], calls[-1][1]) if calls else 'decoder is not called')
        else:
            if len(calls) != 1 or not on(calls[0], o, rem_cur):
                probs.append('decoder is called on %s, expected (cursor, remaining)' % (calls,))
        if off_init is None or not alg.is_zero(off_init):
            probs.append('cursor starts at %r' % (tx.init[roles['pos' if indexed else 'p']],))
        # behind the loop: the count is returned and *stop (when given) receives the cursor position
        L = tx.sym[roles['len']]
        if not tx.finals:
            raise Unsupported('the code behind the loop could not be followed to the return')
        stored = 0
        for s_f, r_f in tx.finals:
            if r_f is None or not alg.is_zero(sp.sympify(r_f) - L):
                probs.append('returns %s, expected the count' % (r_f,))
            w = s_f.store.get(('stop', 0))
            if w is not None:
                stored += 1
                if not alg.is_zero(sp.sympify(w[0]) - sp.sympify(o)):
                    probs.append('*stop receives %s, expected the cursor position %s' % (w[0], o))
            if any(k[0] not in ('stop',) and not str(k[0]).startswith('alloca') for k in s_f.store):
                probs.append('writes to %s' % sorted(set(str(k[0]) for k in s_f.store)))
        if stored != 1:
            probs.append('*stop is written on %d of %d exits, expected on the one with stop != NULL' % (stored, len(tx.finals)))
        if probs:
            rep.bad('U5', 'a_utf_length', '; '.join(sorted(set(probs))), loc=loc, key='a_utf_length: loop')
        else:
            rep.ok('U5', 'a_utf_length', 'advances cursor and remaining count by exactly the reported length, counts one per sequence, stops at the first 0',
                   loc=loc, sample={'cursor': str(off_next), 'remaining': str(rem_next)})
    except Unsupported as e:
        rep.unk('U5', 'a_utf_length', str(e))


def fixtures(ctx):
    d = bit.Bit()
    x = BV.sym('x', 8)
    st = symx.State()
    st.env['x'] = x
    d.refine(st, bit.Cond('ult', x, BV.const(0x10, 8)))
    ok1 = st.env['x'].bits[4] == ZERO and st.env['x'].bits[3] != ZERO
    c = BV([bit.band(x.bits[7], bit.bnot(x.bits[6]))])
    ok2 = bit.implies([c], x.bits[7] ^ ONE) and not bit.implies([c], x.bits[5])
    if ok1 and ok2:
        ctx.rep.ok('FIXTURE', 'bit-refine', 'range refinement and implication controls pass')
    else:
        ctx.rep.unk('FIXTURE', 'bit-refine', 'positive control failed')


def _eval_pc(pc, env):
    """truth of the byte-dependent part of a path condition under a concrete byte (conditions on the counters are skipped)"""
    for c in pc:
        if isinstance(c, BV):
            b = bit.subst_bit(c.bits[0], env)
            if b == ZERO:
                return False
            if b != ONE:
                raise Unsupported('condition %s does not depend on the lead byte only' % bit.fmt_bit(b))
        elif isinstance(c, bit.Cond):
            if isinstance(c.a, Lin) or isinstance(c.b, Lin):
                continue
            a = c.a.subst(env) if hasattr(c.a, 'subst') else c.a
            b = c.b.subst(env) if hasattr(c.b, 'subst') else c.b
            va = a.value() if isinstance(a, BV) else None
            vb = b.value() if isinstance(b, BV) else None
            if va is None or vb is None:
                raise Unsupported('comparison %s does not depend on the lead byte only' % (c,))
            r = {'eq': va == vb, 'ne': va != vb, 'ult': va < vb, 'ule': va <= vb, 'ugt': va > vb, 'uge': va >= vb}.get(c.pred)
            if r is None:
                raise Unsupported('signed comparison %s on the lead byte' % (c,))
            if r != c.pos:
                return False
    return True


def lead_loop(ctx, lk):
    """U6: a_utf_length_ - the counter that trusts the lead byte.  One abstract iteration with the cursor offset o, the count L and the
    byte under the cursor symbolic; the path conditions are evaluated for all 256 values of that byte, which yields the complete
    table lead byte -> advance; it must be the UTF-8 lead table (110x xxxx -> 2 ... 1111 110x -> 6, anything else 1, NUL stops)."""
    rep = ctx.rep
    fn = ctx.fn('utf', 'a_utf_length_')
    if fn is None:
        rep.unk('U6', 'a_utf_length_', 'anchor vanished')
        return
    loc = fn.loc(fn.entry.instrs[0])
    try:
        dom = bit.Bit()
        roles = {}

        NUM, O, L = Lin.sym('num', 64), Lin.sym('o', 64), Lin.sym('L', 64)
        dom.unbounded |= {'num', 'o', 'L'}
        loops_ = fn.loops()
        hphis = [i for i in loops_[0][0].instrs if i.op == 'phi'] if len(loops_) == 1 else []
        indexed = len(hphis) == 2 and not any(p_.ty.is_ptr for p_ in hphis)
        cursor_phi = None
        if indexed:
            # index form  str[pos]: a first run with anonymous counters tells which of the two is the position (the one the byte is read at)
            d0 = bit.Bit()
            tx0 = looptx.transformer(fn, lk, [Ptr('in', 0), NUM], d0, lambda ph, init: Lin.sym('u_' + ph.res, 64))
            used = set()
            for k in tx0.interp.entry_syms:
                if k[0] == 'in':
                    used |= set(str(t_[0][1]) for t_ in (k[1][2] if isinstance(k[1], tuple) and len(k[1]) == 3 else ()) if isinstance(t_[0], tuple))
            cands = [p_.res for p_ in hphis if ('u_' + p_.res) in used]
            if len(cands) != 1:
                raise Unsupported('loop does not have the (cursor, count) shape')
            cursor_phi = cands[0]

        def bind(ph, init):
            if ph.ty.is_ptr:
                roles['p'] = ph.res
                return Ptr('in', Off(0, [(('lin', 'o'), 1)]))
            if ph.res == cursor_phi:
                roles['p'] = ph.res
                return O
            roles['len'] = ph.res
            return Lin.sym('L', 64)
        tx = looptx.transformer(fn, lk, [Ptr('in', 0), NUM], dom, bind)
        if set(roles) != {'p', 'len'} or len(tx.phis) != 2:
            raise Unsupported('loop does not have the (cursor, count) shape')
        probs = []
        ip = tx.init[roles['p']]
        if indexed:
            if dom.concrete(ip) != 0:
                probs.append('position starts at %r' % (ip,))
        elif not (isinstance(ip, Ptr) and ip.base == 'in' and ip.off == 0):
            probs.append('cursor starts at %r' % (ip,))
        if dom.concrete(tx.init[roles['len']]) != 0:
            probs.append('count starts at %r' % (tx.init[roles['len']],))
        cur_key = dom.off_key(Off(0, [(('lin', 'o'), 1)]))
        reads = [k for k in tx.interp.entry_syms if k[0] == 'in']
        if len(reads) != 1 or dom.off_key(reads[0][1]) != cur_key or reads[0][2] != 'i8':
            probs.append('reads %s, expected the byte under the cursor only' % [(k[1], k[2]) for k in reads])
            raise Unsupported('; '.join(probs))
        B = tx.interp.entry_syms[reads[0]]
        atoms = []
        for b in B.bits:
            (mo,) = tuple(b)
            (a,) = tuple(mo)
            atoms.append(a)

        def o_rel_num(c):
            """the relation cursor REL num a condition states, in whichever spelling (num > o, !(o >= num), ...)"""
            if not isinstance(c, bit.Cond) or c.pred not in ('ult', 'ule', 'ugt', 'uge'):
                return None
            r = {'ult': '<', 'ule': '<=', 'ugt': '>', 'uge': '>='}[c.pred]
            if c.a == NUM and c.b == O:
                r = {'<': '>', '<=': '>=', '>': '<', '>=': '<='}[r]
            elif not (c.a == O and c.b == NUM):
                return None
            if not c.pos:
                r = {'<': '>=', '<=': '>', '>': '<=', '>=': '<'}[r]
            return r

        def inside(pc):
            return any(o_rel_num(c) == '<' for c in pc)
        finals = tx.finals
        if finals is None:
            raise Unsupported('the code behind the loop could not be followed to the return')
        aset = set(atoms)

        def mentions(pc):
            for c in pc:
                for v in ([c] if isinstance(c, BV) else [c.a, c.b] if isinstance(c, bit.Cond) else []):
                    if isinstance(v, BV) and any(a in aset for b in v.bits for mo in b for a in mo):
                        return True
            return False
        states = [(s_, 'back') for s_, _ in tx.backs] + [(s_, 'exit') for s_, _ in finals]
        for s_, kind in states:
            if mentions(s_.pc_raw) and not inside(s_.pc_raw):
                probs.append('the byte under the cursor is read on a path without the test cursor < num')
            if any(not str(k[0]).startswith('alloca') for k in s_.store):
                probs.append('writes memory')
        # the complete table lead byte -> (advance | stop)
        table = {}
        for v in range(256):
            env = dict((a, ONE if (v >> i) & 1 else ZERO) for i, a in enumerate(atoms))
            hit = []
            for s_, nv in tx.backs:
                if _eval_pc(s_.pc_raw, env):
                    np_ = nv[roles['p']]
                    adv = None
                    if indexed and isinstance(np_, Lin) and dict(np_.t) == {'o': 1}:
                        adv = np_.c
                    elif isinstance(np_, Ptr) and np_.base == 'in' and isinstance(np_.off, Off) and dict(np_.off.t).get(('lin', 'o')) == 1:
                        # cursor + constant, possibly + a term computed from the lead byte (a width selected without a branch)
                        adv = np_.off.c
                        for key, scale in np_.off.t:
                            if key == ('lin', 'o'):
                                continue
                            try:
                                tv = BV(key).subst(env).value()
                            except Exception:
                                tv = None
                            if tv is None:
                                adv = None
                                break
                            adv += scale * tv
                    if nv[roles['len']] != L.add(1):
                        probs.append('count becomes %r, expected count + 1' % (nv[roles['len']],))
                    hit.append(adv)
            stops = [1 for s_, r_ in finals if inside(s_.pc_raw) and _eval_pc(s_.pc_raw, env)]
            if len(hit) + (1 if stops else 0) != 1:
                probs.append('lead byte 0x%02X takes %d continuing paths and %d stopping ones' % (v, len(hit), len(stops)))
                continue
            table[v] = hit[0] if hit else 'stop'
        want = {}
        for v in range(256):
            n = 1
            for k in range(2, 7):
                if v >> (7 - k) == (1 << (k + 1)) - 2:
                    n = k
            want[v] = 'stop' if v == 0 else n
        diff = [v for v in range(256) if v in table and table[v] != want[v]]
        if diff:
            v = diff[0]
            probs.append('lead byte 0x%02X: %s, expected %s (%d of 256 table entries differ)' % (
                v, 'stops' if table[v] == 'stop' else 'advances by %s' % table[v], 'stop' if want[v] == 'stop' else 'advance by %d' % want[v], len(diff)))
        # behind the loop: the last sequence is not counted when it runs past num
        for s_, r_ in finals:
            over = any(o_rel_num(c) == '>' for c in s_.pc_raw)
            notover = any(o_rel_num(c) in ('<=', '<') for c in s_.pc_raw)
            if not over and not notover:
                # nothing counted yet (count == 0 on this path): one count per pass (checked above), so no pass has run, the cursor
                # still stands at the start and cannot have overshot - returning the count as it is needs no comparison
                zero = any(isinstance(c, bit.Cond) and c.a == L and dom.concrete(c.b) == 0 and ((c.pred == 'eq' and c.pos) or (c.pred == 'ne' and not c.pos))
                           for c in s_.pc_raw)
                if zero and r_ == L:
                    continue
                probs.append('an exit does not compare the cursor with num (%s)' % (s_.pc_raw,))
            exp = L.add(-1) if over else L
            if r_ != exp:
                probs.append('returns %r %s, expected %r' % (r_, 'when the cursor overshot num' if over else 'when the cursor stopped inside num', exp))
        if not finals:
            probs.append('no exit')
        if probs:
            rep.bad('U6', 'a_utf_length_', '; '.join(sorted(set(probs))[:3]), loc=loc, key='a_utf_length_: lead table')
        else:
            rep.ok('U6', 'a_utf_length_', 'reads only the byte under the cursor and only behind cursor < num; all 256 lead bytes advance by the UTF-8 lead table '
                   '(NUL stops), one count per sequence; a sequence running past num is not counted', loc=loc,
                   sample={'table': {'0xC2': table.get(0xC2), '0xE0': table.get(0xE0), '0xF0': table.get(0xF0), '0xF8': table.get(0xF8), '0xFC': table.get(0xFC), '0xFE': table.get(0xFE), '0x80': table.get(0x80)}})
    except Unsupported as e:
        rep.unk('U6', 'a_utf_length_', str(e), loc=loc)
