"""C03 rule I3 - reference step tables for the tree traversals (SHAPE on a generic neighbourhood, lib/tree.py).

Every traversal is decomposed by the analysis into an entry segment (function entry up to the first loop header or return) and
its loops; each piece is interpreted once on every *generic neighbourhood* of the current node C (left / right child present
or not, no parent / left child / right child of a parent P, for the two-valued climbing loops the child the walk arrived from)
and the outcome - return value, or the loop that is entered and with which values, or the values carried into the next
iteration - is compared with the table of the reference algorithm:
  DESC(a)       C.a ? continue at C.a : return C                                   (leftmost / rightmost)
  POST(a, b)    C.a ? continue at C.a : C.b ? continue at C.b : return C           (first node in post-order)
  CLIMB(a)      P = parent(C); P == null ? return null : P.a == C ? return P : continue at P   (in-order successor upwards)
  PRECLIMB(b)   C == null ? return null : C.b && C.b != from ? return C.b : continue at (from = C, parent(C))
Because the neighbourhood is generic (children and parents are opaque summaries), the tables hold for trees of every shape and
depth; that a traversal composed of these steps enumerates the nodes in the documented order is the textbook argument."""
import itertools
import sympy as sp
import llir, symx, tree
from tree import Frag, Final, TreeDom
from symx import Ptr, NULL, Unsupported, FnPtr

L, R = 'l', 'r'


def oth(a):
    return R if a == L else L


class Case:
    """C with optional children CL/CR, optional parent P (C is its `side` child, sibling S optional)"""
    def __init__(self, l, r, side, sib, frm=None):
        self.l, self.r, self.side, self.sib, self.frm = l, r, side, sib, frm

    def child(self, a):
        return ('CL' if self.l else None) if a == L else ('CR' if self.r else None)

    @property
    def parent(self):
        return 'P' if self.side else None

    def label(self):
        return 'C(l=%d r=%d %s%s)' % (self.l, self.r, ('%s child of P%s' % (self.side, '' if self.sib else ' (no sibling)')) if self.side else 'no parent',
                                      (' from ' + self.frm) if self.frm else '')

    def frag(self, mask, rootobj=True):
        fr = Frag(mask)
        cl = fr.summary('CL', p='C', bhc=0, h=1) if self.l else None
        cr = fr.summary('CR', p='C', bhc=0, h=1) if self.r else None
        tc = sp.Symbol('tC', integer=True, nonnegative=True)
        if self.side:
            s = fr.summary('S', p='P', bhc=0, h=1) if self.sib else None
            fr.node('P', l='C' if self.side == L else s, r='C' if self.side == R else s, p='PP', tag=sp.Symbol('tP', integer=True, nonnegative=True))
            fr.node('C', l=cl, r=cr, p='P', tag=tc)
        else:
            fr.node('C', l=cl, r=cr, p=None, tag=tc)
            if rootobj:
                fr.rootobj, fr.top = 'ROOT', 'C'
        return fr


def cases(with_from=False):
    out = []
    for l in (0, 1):
        for r in (0, 1):
            for side, sib in ((None, 0), (L, 0), (L, 1), (R, 0), (R, 1)):
                if with_from:
                    for frm in (['CL'] if l else []) + (['CR'] if r else []):
                        out.append(Case(l, r, side, sib, frm))
                else:
                    out.append(Case(l, r, side, sib))
    return out


def P(name):
    return NULL if name is None else Ptr(name, 0)


# ---- reference tables: case -> ('ret', node) | ('cont', {role: node}) ; roles 'node', 'from'
def DESC(a):
    return lambda c: ('cont', {'node': c.child(a)}) if c.child(a) else ('ret', 'C')


def POST(a, b):
    def f(c):
        if c.child(a):
            return ('cont', {'node': c.child(a)})
        if c.child(b):
            return ('cont', {'node': c.child(b)})
        return ('ret', 'C')
    return f


def CLIMB(a):
    def f(c):
        if not c.side:
            return ('ret', None)
        if c.side == a:
            return ('ret', 'P')
        return ('cont', {'node': 'P'})
    return f


def PRECLIMB(b):
    def f(c):
        k = c.child(b)
        if k and k != c.frm:
            return ('ret', k)
        return ('cont', {'node': c.parent, 'from': 'C'})
    return f


def spec(fam, a):
    """fam in head/next/pre_next/post_head/post_next/tear; a = first direction (L for the forward copy)"""
    b = oth(a)
    if fam == 'head':
        return dict(arg='root', entry=lambda c: ('loop', 0, {'node': 'C'}), loops=[DESC(a)], empty=('ret', None))
    if fam == 'next':
        return dict(arg='node', entry=lambda c: ('loop', 0, {'node': c.child(b)}) if c.child(b) else ('loop', 1, {'node': 'C'}),
                    loops=[DESC(a), CLIMB(a)])
    if fam == 'pre_next':
        def e(c):
            if c.child(a):
                return ('ret', c.child(a))
            if c.child(b):
                return ('ret', c.child(b))
            return ('loop', 0, {'node': c.parent, 'from': 'C'})
        return dict(arg='node', entry=e, loops=[PRECLIMB(b)], two=True)
    if fam == 'post_head':
        return dict(arg='root', entry=lambda c: ('loop', 0, {'node': 'C'}), loops=[POST(a, b)], empty=('ret', None))
    if fam == 'post_next':
        def e(c):
            if c.side == a and c.sib:
                return ('loop', 0, {'node': 'S'})
            return ('ret', c.parent)
        return dict(arg='node', entry=e, loops=[POST(a, b)])
    if fam == 'tear':
        return dict(arg='tear', loops=[POST(a, b)])
    raise KeyError(fam)


def header_phis(fn, h):
    return [i for i in h.instrs if i.op == 'phi']


def run_piece(fn, lookup, mask, fr, args, start, env0, headers):
    dom = TreeDom(mask)
    it = symx.Interp(dom, lookup)
    st = fr.state()
    ro, rets = it.run_region(fn, args, start, env0, headers, st=st)
    outs = []
    for s, r in rets:
        outs.append(('ret', r, s, None))
    for s, blk, prev in ro:
        vals = {}
        for ph in header_phis(fn, blk):
            vals[ph.res] = it.val(ph.ops[ph.x['labels'].index(prev.name)], s, fn)
        outs.append(('at', blk, s, vals))
    return outs, st


def show(v):
    if isinstance(v, Ptr):
        return 'null' if v.base == 'null' else (v.base + ('+%s' % v.off if v.off != 0 else ''))
    return repr(v)


def check_function(rep, fn, lookup, mask, fam, a, sym):
    """-> True when all tables matched"""
    sp_ = spec(fam, a)
    loops = sorted(fn.loops(), key=lambda l: fn.blocks.index(l[0]))
    headers = [l[0] for l in loops]
    if len(loops) != len(sp_['loops']):
        rep.unk('I3', sym, 'the function has %d loops, the reference algorithm %d: cannot be compared step by step' % (len(loops), len(sp_['loops'])), loc=fn.loc(fn.entry.term))
        return False
    nobl = 0
    bad = []

    def expect_loop_entry(exp, got, c):
        # exp = ('loop', k, {role: node}); got = ('at', header, state, {phi: value})
        k = exp[1]
        if got[0] != 'at' or got[1] is not headers[k]:
            return 'expected to enter loop %d' % k
        want = sorted(show(P(v)) for v in exp[2].values())
        have = sorted(show(v) for v in got[3].values())
        if want != have:
            return 'enters the loop with %s, the reference with %s' % (have, want)
        return None
    # ---- entry segment
    if sp_['arg'] == 'root':
        # empty tree
        fr = Frag(mask)
        fr.rootobj, fr.top = 'ROOT', None
        outs, _ = run_piece(fn, lookup, mask, fr, [Ptr('ROOT', 0)], fn.entry, {}, headers)
        nobl += 1
        if len(outs) != 1 or outs[0][0] != 'ret' or not (isinstance(outs[0][1], Ptr) and outs[0][1].base == 'null'):
            bad.append('empty tree: %s' % [(o[0], show(o[1]) if o[0] == 'ret' else o[1].name) for o in outs])
        c = Case(1, 1, None, 0)
        outs, _ = run_piece(fn, lookup, mask, c.frag(mask), [Ptr('ROOT', 0)], fn.entry, {}, headers)
        nobl += 1
        if len(outs) != 1:
            bad.append('entry forks on a non-empty tree')
        else:
            e = expect_loop_entry(sp_['entry'](c), outs[0], c)
            if e:
                bad.append('entry: ' + e)
    elif sp_['arg'] == 'node':
        for c in cases():
            outs, _ = run_piece(fn, lookup, mask, c.frag(mask, rootobj=False), [Ptr('C', 0)], fn.entry, {}, headers)
            nobl += 1
            exp = sp_['entry'](c)
            if len(outs) != 1:
                bad.append('entry %s: %d outcomes' % (c.label(), len(outs)))
                continue
            o = outs[0]
            if exp[0] == 'ret':
                if o[0] != 'ret' or show(o[1]) != show(P(exp[1])):
                    bad.append('entry %s: %s, the reference returns %s' % (c.label(), ('returns ' + show(o[1])) if o[0] == 'ret' else 'enters a loop', show(P(exp[1]))))
            else:
                e = expect_loop_entry(exp, o, c)
                if e:
                    bad.append('entry %s: %s' % (c.label(), e))
    else:
        bad += tear_entry(fn, lookup, mask, headers, sp_)
        nobl += 4
    # ---- loops
    for k, (hdr, table) in enumerate(zip(headers, sp_['loops'])):
        phis = header_phis(fn, hdr)
        two = len(phis) == 2
        dropped = len(phis) == 1 and sp_.get('two')      # the code does not carry the 'arrived from' value at all
        if len(phis) not in (1, 2) or (two and not sp_.get('two')):
            rep.unk('I3', sym, 'loop %d carries %d values, the reference %d' % (k, len(phis), 2 if sp_.get('two') else 1), loc=fn.loc(hdr.term))
            return False
        assigns = [dict(node=phis[0].res)] if not two else [dict(node=phis[0].res, **{'from': phis[1].res}), dict(node=phis[1].res, **{'from': phis[0].res})]
        best = None
        for asg in assigns:
            probs = []
            n = 0
            cs = cases(with_from=bool(two or dropped))
            if two or dropped:
                cs = cs + [None]     # node == null
            for c in cs:
                n += 1
                if c is None:
                    fr = Case(0, 0, None, 0).frag(mask, rootobj=False)
                    env0 = {asg['node']: NULL}
                    if two:
                        env0[asg['from']] = Ptr('C', 0)
                    exp = ('ret', None)
                    lab = 'node = null'
                else:
                    fr = c.frag(mask, rootobj=(fam == 'tear'))
                    env0 = {asg['node']: Ptr('C', 0)}
                    if two:
                        env0[asg['from']] = Ptr(c.frm, 0)
                    exp = table(c)
                    lab = c.label()
                args = [Ptr('ROOT', 0)] if sp_['arg'] in ('root',) else ([Ptr('ROOT', 0), Ptr('NEXT', 0)] if sp_['arg'] == 'tear' else [Ptr('ARG', 0)])
                try:
                    outs, st0 = run_piece(fn, lookup, mask, fr, args, hdr, env0, headers)
                except Unsupported as e:
                    # the step could not be followed (a value defined in front of the loop, a construct outside the domain)
                    probs.append('UNFOLLOWED %s: %s' % (lab, e))
                    continue
                if len(outs) != 1:
                    probs.append('%s: %d outcomes' % (lab, len(outs)))
                    continue
                o = outs[0]
                if exp[0] == 'ret':
                    if o[0] != 'ret':
                        probs.append('%s: the walk continues, the reference returns %s' % (lab, show(P(exp[1]))))
                    elif show(o[1]) != show(P(exp[1])):
                        probs.append('%s: returns %s, the reference %s' % (lab, show(o[1]), show(P(exp[1]))))
                    elif fam == 'tear':
                        probs += tear_exit(c, o[2], lab)
                else:
                    if o[0] != 'at' or o[1] is not hdr:
                        probs.append('%s: %s, the reference continues at %s' % (lab, ('returns ' + show(o[1])) if o[0] == 'ret' else 'leaves the loop', exp[1]))
                    else:
                        for role, want in exp[1].items():
                            if role not in asg:
                                continue
                            got = o[3].get(asg[role])
                            if show(got) != show(P(want)):
                                probs.append('%s: continues with %s = %s, the reference with %s' % (lab, role, show(got), show(P(want))))
                    if fam != 'tear' or True:
                        ch = [kk for kk, v in o[2].store.items() if kk not in st0.store or repr(st0.store[kk][0]) != repr(v[0])]
                        if ch and exp[0] != 'ret':
                            probs.append('%s: the walk writes %s' % (lab, ch[:2]))
            if best is None or len(probs) < len(best[0]):
                best = (probs, n)
        nobl += best[1]
        if best[0] and all(p_.startswith('UNFOLLOWED ') for p_ in best[0]):
            # under the best assignment of the loop variables nothing differs, but some steps could not be followed: no verdict
            rep.unk('I3', sym, 'loop %d %s' % (k, best[0][0][len('UNFOLLOWED '):]), loc=fn.loc(hdr.term))
            return False
        bad += ['loop %d %s' % (k, p_.replace('UNFOLLOWED ', '')) for p_ in best[0]]
    if bad:
        rep.bad('I3', sym, '%d step(s) differ from the reference traversal: %s' % (len(bad), '; '.join(bad[:3])), loc=fn.loc(fn.entry.term), key='%s: step table' % fn.name)
        return False
    rep.ok('I3', sym, 'entry segment and %d loop(s) match the reference step tables on %d generic neighbourhoods' % (len(headers), nobl),
           sample={'function': fn.name, 'loops': [h.name for h in headers], 'neighbourhoods': nobl})
    return True


def tear_entry(fn, lookup, mask, headers, sp_):
    """*next == null: start at the root (null tree -> null); otherwise start at *next"""
    bad = []
    for nxt, root in ((None, None), (None, 'C'), ('C', 'X')):
        c = Case(1, 1, None, 0)
        fr = c.frag(mask, rootobj=False)
        fr.rootobj = 'ROOT'
        fr.top = root if root != 'X' else 'C'
        st_extra = {('NEXT', 0): (P(nxt), tree.PTRT)}
        dom = TreeDom(mask)
        it = symx.Interp(dom, lookup)
        st = fr.state()
        st.store.update(st_extra)
        st.offs[('NEXT', 0)] = 0
        if root is None:
            st.store[('ROOT', 0)] = (NULL, tree.PTRT)
        ro, rets = it.run_region(fn, [Ptr('ROOT', 0), Ptr('NEXT', 0)], fn.entry, {}, headers, st=st)
        if nxt is None and root is None:
            if ro or len(rets) != 1 or not (isinstance(rets[0][1], Ptr) and rets[0][1].base == 'null'):
                bad.append('tear on an empty tree does not return null')
        else:
            if rets or len(ro) != 1:
                bad.append('tear entry does not reach the descent')
            else:
                s, blk, prev = ro[0]
                vals = [it.val(ph.ops[ph.x['labels'].index(prev.name)], s, fn) for ph in header_phis(fn, blk)]
                if [show(v) for v in vals] != ['C']:
                    bad.append('tear starts the descent at %s' % [show(v) for v in vals])
    return bad


def tear_exit(c, s, lab):
    """the leaf is unlinked from its parent (or the root pointer) and *next is its parent"""
    probs = []
    nxt = s.store.get(('NEXT', 0))
    want = P(c.parent)
    if nxt is None or show(nxt[0]) != show(want):
        probs.append('%s: *next is %s, expected the parent %s' % (lab, show(nxt[0]) if nxt else 'unwritten', show(want)))
    if c.side:
        v = s.store.get(('P', Frag.L if c.side == L else Frag.R))
        if v is None or show(v[0]) != 'null':
            probs.append('%s: the handed-out leaf is still linked from its parent' % lab)
        o = s.store.get(('P', Frag.R if c.side == L else Frag.L))
        if show(o[0]) != ('S' if c.sib else 'null'):
            probs.append('%s: the sibling link of the parent changed' % lab)
    else:
        v = s.store.get(('ROOT', 0))
        if v is None or show(v[0]) != 'null':
            probs.append('%s: the root pointer still refers to the handed-out node' % lab)
    for k in (('C', Frag.L), ('C', Frag.R), ('C', Frag.P)):
        pass
    return probs
