"""C17 - CRC and hashes (DESIGN 4 C17, specs/crc_lemma.md).
H1 update step (BIT), H2 fold shape, H3 generator bit step + trip counts + table store, H4 premises of the
composition lemma (linearity), hashes: fold/step template and str/len agreement."""
import sympy as sp
import counted
counted_mod = counted
import symx, bit, alg, looptx, llir
from bit import BV, ZERO, ONE, Lin, Off
from symx import Ptr, Unsupported

LEVEL = 'proof'

CRCS = [('a_crc8', 8, None), ('a_crc16m', 16, 'm'), ('a_crc16l', 16, 'l'), ('a_crc32m', 32, 'm'), ('a_crc32l', 32, 'l'),
        ('a_crc64m', 64, 'm'), ('a_crc64l', 64, 'l')]
INITS = [('a_crc8m_init', 8, 'm'), ('a_crc8l_init', 8, 'l'), ('a_crc16m_init', 16, 'm'), ('a_crc16l_init', 16, 'l'),
         ('a_crc32m_init', 32, 'm'), ('a_crc32l_init', 32, 'l'), ('a_crc64m_init', 64, 'm'), ('a_crc64l_init', 64, 'l')]


def lookup_in(mods):
    def lk(name):
        for m in mods:
            f = m.functions.get(name)
            if f is not None and not f.error:
                return f
        return None
    return lk


def run(ctx):
    rep = ctx.rep
    rep.explanation = ('the loop bodies of the 7 CRC update routines and the inner loops of the 8 table generators are turned into '
                       'bit-level state transformers in algebraic normal form over GF(2) (table look-ups as uninterpreted atoms '
                       'indexed by the index bit-vector) and compared bit by bit with the table-driven form resp. one step of '
                       'polynomial division; trip counts, preload, table store and fold shape are checked on the loop '
                       'structure; the composition lemma of specs/crc_lemma.md turns these premises into the property')
    rep.trusted += ['lib/bit.py ANF', 'lib/looptx.py', 'the lemma in specs/crc_lemma.md (linearity + generator step + update step => table-driven = bitwise)']
    rep.assumptions += ['table, data and ctx pointers do not alias; table holds what *_init stored']
    m = ctx.module('crc')
    lk = lookup_in([m])
    for name, w, order in CRCS:
        fn = ctx.fn('crc', name)
        if fn is None:
            rep.unk('H1', name, 'anchor vanished')
            continue
        try:
            update(rep, fn, w, order, lk)
        except Unsupported as e:
            rep.unk('H1', name, str(e))
    for name, w, order in INITS:
        fn = ctx.fn('crc', name)
        if fn is None:
            rep.unk('H3', name, 'anchor vanished')
            continue
        try:
            generator(rep, fn, w, order, lk)
        except Unsupported as e:
            rep.unk('H3', name, str(e))
    hashes(ctx)
    rep.floor('H1', 7)
    rep.floor('H2', 7 + 4)
    rep.floor('H3', 8 * 4)
    rep.floor('H4', 8)
    fixtures(ctx)


def table_atoms(dom, bits):
    names = set()
    for b in bits:
        for mo in b:
            for a in mo:
                if isinstance(a, str) and a.startswith('M{table@'):
                    names.add(a.rsplit('_', 1)[0])
    return names


def counted_core(tx, ctrs, nname, skip=()):
    """counted.Core over the Lin counters / Off cursors of a transformer (ctrs: phi -> symbol name)"""
    variables = {}
    for ph in tx.phis:
        if ph.res not in ctrs:
            continue
        sym = sp.Symbol(ctrs[ph.res], integer=True)
        i0 = tx.init[ph.res]
        steps = set()
        for s_, nv_ in tx.backs:
            v = nv_[ph.res]
            e0, e1 = (counted.lin_expr(i0.off), counted.lin_expr(v.off)) if isinstance(v, Ptr) and isinstance(i0, Ptr) else (counted.lin_expr(i0), counted.lin_expr(v))
            if e0 is None or e1 is None:
                raise Unsupported('loop variable %s is data dependent' % ph.res)
            steps.add(sp.expand(e1 - sym))
        if len(steps) != 1:
            raise Unsupported('loop variable %s advances differently on different paths' % ph.res)
        variables[sym] = (e0, steps.pop())
    n = sp.Symbol(nname, integer=True) if isinstance(nname, str) else nname
    if not isinstance(nname, str):
        return counted.Core(n, variables, ())
    pre, rest = counted.bit_conds(tx.pre.pc, {n})
    if rest:
        raise Unsupported('the loop is reached under %r' % (rest[0],))
    return counted.Core(n, variables, pre)


def update(rep, fn, w, order, lk):
    dom = bit.Bit()
    params = fn.params
    if len(params) != 4:
        raise Unsupported('%s has %d parameters' % (fn.name, len(params)))
    V0 = BV.sym('v', w)
    args = [Ptr('table', 0), Ptr('data', 0), Lin.sym('n', 64), V0]
    dom.unbounded.add('n')      # any length: narrowing it may wrap
    roles = {}
    ctrs = {}     # phi name -> symbol name of a counter / cursor

    def bind(ph, init):
        if ph.ty.is_ptr:
            nm = 'o_p%d' % len(ctrs)
            ctrs[ph.res] = nm
            roles.setdefault('p', ph.res)
            return Ptr(init.base, Off(0, [(('lin', nm), 1)]))
        if isinstance(init, Lin) or (isinstance(init, BV) and len(init.bits) == 64 and init.value() is not None):
            # a count starting at nbyte, or an index starting at a constant
            nm = 'k%d' % len(ctrs)
            ctrs[ph.res] = nm
            roles.setdefault('n', ph.res)
            if isinstance(init, Lin):
                dom.unbounded.add(nm)
            return Lin.sym(nm, 64)
        if 'v' in roles:
            raise Unsupported('two data-dependent loop variables')
        roles['v'] = ph.res
        return BV.sym('s', ph.ty.a)
    tx = looptx.transformer(fn, lk, args, dom, bind)
    loc = fn.loc(tx.header.instrs[0])
    if 'v' not in roles or not ctrs or not tx.backs:
        raise Unsupported('loop of %s does not have the (counters, value) shape' % fn.name)
    # every pass computes the same next value (the bit-level step is checked on it)
    outs = set(id(nv_[roles['v']]) if not isinstance(nv_[roles['v']], BV) else nv_[roles['v']] for s_, nv_ in tx.backs)
    if len(outs) != 1:
        raise Unsupported('the update step differs between paths')
    s1, nv = tx.backs[0]
    S = tx.sym[roles['v']]
    out = nv[roles['v']]
    probs = []
    if not isinstance(out, BV):
        raise Unsupported('next value is not a bit vector: %r' % (out,))
    # the byte read: *p at the cursor
    byte_syms = [(k, v) for k, v in tx.interp.entry_syms.items() if k[0] == 'data']
    if len(byte_syms) != 1 or byte_syms[0][0][2] != 'i8':
        raise Unsupported('update step does not read exactly one data byte')
    B = byte_syms[0][1]
    boff = dom.tables[list(dom.tables)[0]]
    cn = counted_core(tx, ctrs, 'n')
    rd = [r_ for r_ in s1.reads if r_[0] == 'data']
    bpos = counted.lin_expr(rd[0][1]) if rd else None
    if bpos is None:
        raise Unsupported('data byte is read at a data-dependent position')
    if sp.expand(cn.at(bpos) - cn.t) != 0:
        probs.append('pass t reads the data byte at position %s, expected t' % sp.expand(cn.at(bpos)).subs(cn.t, sp.Symbol('t')))
    # table look-up
    tnames = table_atoms(dom, out.bits)
    if len(tnames) != 1:
        raise Unsupported('next value uses %d table look-ups' % len(tnames))
    tn = list(tnames)[0]
    tbase, toff = dom.tables[tn]
    if not isinstance(toff, Off) or len(toff.t) != 1 or toff.c != 0:
        raise Unsupported('table index is not a single scaled bit vector')
    idxkey, scale = toff.t[0]
    if scale != w // 8:
        probs.append('table element stride %d, expected %d' % (scale, w // 8))
    idx = BV(idxkey)
    want_idx = []
    for i in range(idx.w):
        if i < 8:
            vb = S.bits[w - 8 + i] if order == 'm' else S.bits[i]
            if order is None:
                vb = S.bits[i]
            want_idx.append(vb ^ B.bits[i])
        else:
            want_idx.append(ZERO)
    if list(idx.bits) != want_idx:
        bad = [i for i in range(idx.w) if idx.bits[i] != want_idx[i]]
        probs.append('table index bit %d is %s, expected %s' % (bad[0], bit.fmt_bit(idx.bits[bad[0]]), bit.fmt_bit(want_idx[bad[0]])))
    T = BV.sym(tn, w)
    for j in range(w):
        if order == 'm':
            sh = S.bits[j - 8] if j >= 8 else ZERO
        elif order == 'l':
            sh = S.bits[j + 8] if j + 8 < w else ZERO
        else:
            sh = ZERO
        want = sh ^ T.bits[j]
        if out.bits[j] != want:
            probs.append('value bit %d becomes %s, expected %s' % (j, bit.fmt_bit(out.bits[j]), bit.fmt_bit(want)))
            break
    if probs:
        rep.bad('H1', fn.name, '; '.join(probs), loc=loc, key='%s: update step' % fn.name)
    else:
        rep.ok('H1', fn.name, 'value <- shift8(value) ^ table[%s ^ byte] at bit level, width %d' % (
            'value>>%d' % (w - 8) if order == 'm' else 'value&0xFF', w), loc=loc,
            sample={'fn': fn.name, 'index_bit0': bit.fmt_bit(idx.bits[0]), 'value_bit%d' % (w - 1): bit.fmt_bit(out.bits[w - 1])})
    # H2 fold shape: exactly nbyte passes, each folding the byte at the cursor into the accumulator
    fp = []
    if tx.init[roles['v']] != V0:
        fp.append('accumulator does not start as the value parameter (%r)' % (tx.init[roles['v']],))
    if tx.finals is None or not tx.finals:
        raise Unsupported('no path from the loop to the return')

    def folded(val):
        if val == S:
            return 0
        if val == out:
            return 1
        fp.append('the returned value is neither the accumulator nor its update')
        return None
    backs = [(counted.bit_conds(s_.pc, cn.psyms)[0], 1) for s_, nv_ in tx.backs]
    fins = [(counted.bit_conds(s_.pc, cn.psyms)[0], folded(r_)) for s_, r_ in tx.finals]
    fp += cn.verdicts(backs, fins)
    for s_, r_ in tx.pre_rets:
        if r_ != V0:
            fp.append('an empty input returns %r, expected the value parameter' % (r_,))
    if any(k[0] != 'alloca' for k in s1.store if not str(k[0]).startswith('alloca')):
        fp.append('the update loop writes memory')
    if fp:
        rep.bad('H2', fn.name, '; '.join(fp), loc=loc, key='%s: fold' % fn.name)
    else:
        rep.ok('H2', fn.name, 'left fold over the bytes in address order, nbyte times, from the value parameter; returns the accumulator '
               '(=> f(a||b, v) = f(b, f(a, v)))', loc=loc)


def generator(rep, fn, w, order, lk):
    nest = looptx.nesting(fn)
    if len(nest) != 2 or nest[1][3] is not nest[0][0]:
        raise Unsupported('%s: expected one loop nested in another, found %d loops' % (fn.name, len(nest)))
    outer, inner = nest[0], nest[1]
    oh, ih = outer[0], inner[0]
    ophis = [i for i in oh.instrs if i.op == 'phi']
    if len(ophis) != 1:
        raise Unsupported('outer loop carries %d variables, expected the byte counter only' % len(ophis))
    cphi = ophis[0]
    cw = cphi.ty.a
    loc = fn.loc(ih.instrs[-1])
    P = BV.sym('p', w)
    args = [Ptr('table', 0), P]
    # ---- run 1: data facts, c as an 8-bit vector (range justified by run 2)
    dom = bit.Bit()
    C = BV(list(BV.sym('c', 8).bits) + [ZERO] * (cw - 8))
    it0 = symx.Interp(dom, lk)
    ro, _ = it0.run_region(fn, args, fn.entry, {}, [oh])
    if len(ro) != 1:
        raise Unsupported('code before the outer loop forks')
    s_entry, _, prev = ro[0]
    c_init = it0.val(cphi.ops[cphi.x['labels'].index(prev.name)], s_entry, fn)
    pre_env = dict(s_entry.env)
    pre_env[cphi.res] = C
    roles = {}

    def bind(ph, init):
        if dom.concrete(init) is not None and 'b' not in roles:
            roles['b'] = ph.res
            return Lin.sym('b', ph.ty.a)
        roles['v'] = ph.res
        vw = ph.ty.a
        if order == 'l':
            return BV(list(BV.sym('s', w).bits) + [ZERO] * (vw - w))
        return BV.sym('s', vw)
    tx = looptx.transformer(fn, lk, args, dom, bind, loop=(ih, inner[1], inner[2]), pre_env=pre_env, from_block=oh)
    if set(roles) != {'b', 'v'} or len(tx.phis) != 2:
        raise Unsupported('inner loop does not have the (bit counter, value) shape')
    S = tx.sym[roles['v']]
    vw = S.w
    # preload
    v0 = tx.init[roles['v']]
    want0 = BV([ZERO] * (w - 8) + list(C.bits[:8]) + [ZERO] * (vw - w)) if order == 'm' else BV(list(C.bits[:8]) + [ZERO] * (vw - 8))
    if not isinstance(v0, BV) or v0 != want0:
        rep.bad('H3', fn.name + ':preload', 'register starts as %r, expected %s' % (v0, 'c << %d' % (w - 8) if order == 'm' else 'c'),
                loc=loc, key='%s: preload' % fn.name)
    else:
        rep.ok('H3', fn.name + ':preload', 'register starts as %s' % ('c << %d' % (w - 8) if order == 'm' else 'c'), loc=loc)
    # bit step: two back paths distinguished by the tested bit
    tested = S.bits[w - 1] if order == 'm' else S.bits[0]
    probs = []
    lin_ok = True
    if len(tx.backs) == 1:
        # select-form (branch-free): value' in closed form
        paths = [(None, tx.backs[0])]
    else:
        paths = [(None, b) for b in tx.backs]
    seen = set()
    for _, (s1, nv) in paths:
        out = nv[roles['v']]
        if not isinstance(out, BV):
            raise Unsupported('next register value is not a bit vector')
        bitconds = [c for c in s1.pc if isinstance(c, BV)]
        other = [c for c in s1.pc if not isinstance(c, BV)]
        # which case?  the guard b != 0 is the Lin condition; the data condition must be the tested bit
        case = None
        for c in bitconds:
            if c.bits[0] == tested:
                case = 1
            elif c.bits[0] == bit.bnot(tested):
                case = 0
            else:
                probs.append('branch on %s, expected on bit %d of the register' % (bit.fmt_bit(c.bits[0]), w - 1 if order == 'm' else 0))
        if len(paths) == 2 and case is None and not probs:
            probs.append('no branch on the tested bit on this path')
        seen.add(case)
        env = {}
        if case is not None:
            a = next(iter(next(iter(tested))))
            env[a] = ONE if case else ZERO
        for j in range(w):
            if order == 'm':
                sh = S.bits[j - 1] if j >= 1 else ZERO
                pj = P.bits[j]
            else:
                sh = S.bits[j + 1] if j + 1 < w else ZERO
                pj = P.bits[w - 1 - j]
            want = sh ^ bit.band(tested, pj)
            want = bit.subst_bit(want, env)
            if out.bits[j] != want:
                probs.append('register bit %d becomes %s%s, expected %s' % (j, bit.fmt_bit(out.bits[j]),
                             '' if case is None else ' when the tested bit is %d' % case, bit.fmt_bit(want)))
                break
            # linearity premise: no constant term, no product of two register bits
            for mo in out.bits[j]:
                sv = [a for a in mo if str(a).startswith('s_')]
                if len(sv) > 1 or (not mo):
                    lin_ok = False
        if order == 'l':
            hi = [j for j in range(w, vw) if out.bits[j] != ZERO]
            if hi:
                probs.append('bits above the CRC width do not stay zero (bit %d)' % hi[0])
    if len(paths) == 2 and seen != {0, 1}:
        probs.append('the two paths do not cover tested bit = 0 and = 1')
    if probs:
        rep.bad('H3', fn.name + ':step', '; '.join(probs[:3]), loc=loc, key='%s: bit step' % fn.name)
    else:
        rep.ok('H3', fn.name + ':step', 'out_j = value_%s ^ (value_%s & poly%s_j): one step of bit-by-bit division (%s first), 8 times'
               % ('j-1' if order == 'm' else 'j+1', 'w-1' if order == 'm' else '0', '' if order == 'm' else '-reflected', 'MSB' if order == 'm' else 'LSB'),
               loc=loc, sample={'fn': fn.name, 'paths': len(paths), 'bit1': bit.fmt_bit(paths[-1][1][1][roles['v']].bits[1])})
    if lin_ok and not probs:
        rep.ok('H4', fn.name, 'the proved step is GF(2)-linear in the register (no constant term, no product of register bits)', loc=loc)
    elif not probs:
        rep.bad('H4', fn.name, 'step is not linear in the register', loc=loc, key='%s: linearity' % fn.name)
    else:
        rep.unk('H4', fn.name, 'step not established')
    # ---- after the inner loop: table[c] = trunc(value); c' = c + 1  (c as vector for the index, as counter for the range)
    if len(tx.exits) != 1:
        raise Unsupported('inner loop has %d exits' % len(tx.exits))
    sx, xb, xprev = tx.exits[0]
    ro3, rets3 = tx.interp.run_region(fn, args, xb, dict(sx.env), [oh, ih], st=sx.clone(), prev=xprev)
    ro3 = [r for r in ro3 if r[1] is oh]
    sp_ = []
    if len(ro3) != 1:
        raise Unsupported('code after the inner loop forks')
    s3, _, prev3 = ro3[0]
    cells = [(k, v) for k, v in s3.store.items() if k[0] == 'table']
    if len(cells) != 1:
        sp_.append('%d table cells stored per outer iteration, expected 1' % len(cells))
    else:
        k, (val, ty) = cells[0]
        off = s3.offs[k]
        okidx = isinstance(off, Off) and off.c == 0 and len(off.t) == 1 and off.t[0][1] == w // 8 and isinstance(off.t[0][0], tuple) \
            and list(off.t[0][0][:8]) == list(C.bits[:8]) and all(b == ZERO for b in off.t[0][0][8:])
        if not okidx:
            sp_.append('table cell index is not c (offset %r)' % (off,))
        if not (isinstance(val, BV) and val.w == w and list(val.bits) == list(S.bits[:w])):
            sp_.append('stored entry is %r, expected the register truncated to %d bits' % (val, w))
    if sp_:
        rep.bad('H3', fn.name + ':store', '; '.join(sp_), loc=loc, key='%s: table store' % fn.name)
    else:
        rep.ok('H3', fn.name + ':store', 'table[c] = register truncated to %d bits' % w, loc=loc)
    # ---- run 2: counter facts, c as Lin
    dom2 = bit.Bit()
    it2 = symx.Interp(dom2, lk)
    env2 = dict(s_entry.env)
    Cl = Lin.sym('c', cw)
    env2[cphi.res] = Cl
    cp = []
    if dom.concrete(c_init) != 0:
        cp.append('byte counter starts at %r, expected 0' % (c_init,))
    r_in, r_ret = it2.run_region(fn, args, oh, env2, [ih], st=symx.State())
    into = [r for r in r_in if r[1] is ih]
    if len(into) != 1:
        raise Unsupported('outer header forks %d ways into the inner loop' % len(into))
    g = [c for c in into[0][0].pc if isinstance(c, bit.Cond)]
    if not (len(g) == 1 and g[0].a == Cl and dom2.concrete(g[0].b) == 0x100 and ((g[0].pred == 'ne' and g[0].pos) or (g[0].pred == 'eq' and not g[0].pos)
                                                                               or (g[0].pred == 'ult' and g[0].pos))):
        cp.append('outer guard %s, expected c != 0x100' % (g,))
    # c' from the post-inner region, evaluated with c as Lin
    st2 = symx.State()
    envx = dict(env2)
    for ph in tx.phis:
        envx[ph.res] = Lin.sym('b', ph.ty.a) if ph.res == roles['b'] else BV.sym('s', ph.ty.a)
    # the inner header's exit edge: re-run from the inner header with b = 0 decided -> simply take exit block
    ro4, _ = it2.run_region(fn, args, xb, envx, [oh, ih], st=st2, prev=xprev)
    ro4 = [r for r in ro4 if r[1] is oh]
    if len(ro4) != 1:
        raise Unsupported('post-inner code forks')
    s4, _, prev4 = ro4[0]
    cn = it2.val(cphi.ops[cphi.x['labels'].index(prev4.name)], s4, fn)
    if cn != Cl.add(1):
        cp.append('byte counter becomes %r, expected c+1' % (cn,))
    # exactly 8 bit steps per entry, however the inner loop counts them (down to 0, up to 8, ...)
    if tx.exits[0][2] is not ih:
        raise Unsupported('the inner loop is tested at the bottom')
    try:
        cnb = counted_core(tx, {roles['b']: 'b'}, sp.Integer(8))
        cp += ['bit steps: ' + x for x in cnb.verdicts([(counted.bit_conds(s_.pc, cnb.psyms)[0], 1) for s_, nv_ in tx.backs],
                                                       [(counted.bit_conds(s_.pc, cnb.psyms)[0], 0) for s_, b_, p_ in tx.exits])]
    except Unsupported as e:
        raise Unsupported('bit counter: %s' % e)
    if cp:
        rep.bad('H3', fn.name + ':counts', '; '.join(cp), loc=loc, key='%s: trip counts' % fn.name)
    else:
        rep.ok('H3', fn.name + ':counts', 'c = 0..255 (init 0, +1, while c != 0x100); exactly 8 bit steps per entry (induction on the bit counter, guard decided on the remaining count)', loc=loc)


# ---------------------------------------------------------------- hashes
class HashDom(alg.Alg):
    def __init__(self):
        alg.Alg.__init__(self)
        self.maybe_null = set()

    def nonnull(self, base):
        return base not in self.maybe_null

    def null_test(self, pred, p):
        return alg.Cond('icmp', pred, self.sym('&' + p.base, integer=True), 0)

    def cast(self, op, v, fty, tty):
        # a data byte widened with sign extension is a different value than the octet (bytes >= 0x80)
        if op == 'sext' and fty.is_int and fty.a == 8 and self.concrete(v) is None and v is not symx.TOP:
            return sp.Function('sext8')(v)
        return alg.Alg.cast(self, op, v, fty, tty)


def hashes(ctx):
    rep = ctx.rep
    m = ctx.module('hash')
    lk = lookup_in([m])
    steps = {}
    for name in ('a_hash_bkdr', 'a_hash_bkdr_', 'a_hash_sdbm', 'a_hash_sdbm_'):
        fn = ctx.fn('hash', name)
        if fn is None:
            rep.unk('H2', name, 'anchor vanished')
            continue
        loc = fn.loc(fn.entry.instrs[0])
        try:
            dom = HashDom()
            dom.maybe_null.add('str')
            counted = name.endswith('_')
            val = dom.sym('val', integer=True)
            if counted:
                args = [Ptr('str', 0), dom.sym('siz', integer=True, nonnegative=True), val]
            else:
                args = [Ptr('str', 0), val]
            roles = {}

            def bind(ph, init):
                roles['cnt'] = roles.get('cnt', 0) + 1
                if ph.ty.is_ptr:
                    roles['p'] = ph.res
                    return Ptr(init.base, dom.sym('o%d' % roles['cnt'], integer=True))
                if init == val:
                    roles['v'] = ph.res
                    return dom.sym('h', integer=True)
                roles['n'] = ph.res
                return dom.sym('k%d' % roles['cnt'], integer=True)
            tx = looptx.transformer(fn, lk, args, dom, bind)
            if 'v' not in roles or not tx.backs:
                raise Unsupported('loop does not have the (cursor, hash) shape')
            h = tx.sym[roles['v']]
            probs = []
            bsym = sp.Symbol('BYTE')

            def step_of(e):
                """canonical form of a next-hash expression: the hash and ONE byte of the string -> (term in (h, BYTE), byte offset)"""
                e = sp.expand(e)
                carried = set()
                for v_ in tx.sym.values():
                    carried |= (sp.sympify(v_.off).free_symbols if isinstance(v_, Ptr) else sp.sympify(v_).free_symbols)
                if (e.free_symbols & carried) - {h}:
                    raise Unsupported('the step uses a value carried by another loop variable (a cached byte?): outside the fold template')
                bs = [x for x in e.free_symbols if dom.entry_off.get(x.name, (None,))[0] == 'str']
                if len(bs) != 1:
                    return None, None
                canon = e.subs(bs[0], bsym)
                if [x for x in canon.free_symbols if x not in (h, bsym)] or not canon.has(h):
                    return None, None
                return canon, dom.entry_off[bs[0].name][1]
            forms = set()
            offs = []
            for s1, nv in tx.backs:
                canon, off = step_of(nv[roles['v']])
                if canon is None:
                    probs.append('step h <- %s is not a function of (h, one byte of the string) alone' % sp.expand(nv[roles['v']]))
                else:
                    forms.add(canon)
                    offs.append(off)
            if len(forms) == 1:
                steps[name] = list(forms)[0]
            elif not probs:
                raise Unsupported('the step differs between paths')
            e = sp.expand(tx.backs[0][1][roles['v']])
            if tx.finals is None or not tx.finals:
                raise Unsupported('no path from the loop to the return')
            if counted:
                cn, _a = counted_mod.from_alg(tx, args[1], skip={roles['v']})
                for off in offs:
                    if sp.expand(cn.at(off) - cn.t) != 0:
                        probs.append('pass t reads the byte at position %s, expected t' % sp.expand(cn.at(off)).subs(cn.t, sp.Symbol('t')))

                def folded(r_):
                    if r_ == h:
                        return 0
                    c2, o2 = step_of(r_)
                    if c2 is not None and name in steps and alg.is_zero(c2 - steps[name]) and sp.expand(cn.at(o2) - cn.t) == 0:
                        return 1
                    probs.append('returned value %s is neither the accumulator nor its update' % (r_,))
                    return None
                probs += cn.verdicts([(counted_mod.alg_conds(s_.pc, cn.psyms), 1) for s_, nv_ in tx.backs],
                                     [(counted_mod.alg_conds(s_.pc, cn.psyms), folded(r_)) for s_, r_ in tx.finals])
                for s_, r_ in tx.pre_rets:
                    if r_ != val:
                        probs.append('an empty input returns %s, expected the value parameter' % (r_,))
            else:
                if len(tx.backs) != 1 or 'p' not in roles:
                    raise Unsupported('loop does not have the (cursor, hash) shape')
                s1, nv = tx.backs[0]
                o = tx.sym[roles['p']].off
                byte = dom.sym('str[%s]' % dom.off_key(o), real=True)
                if offs and not alg.is_zero(sp.sympify(offs[0]) - o):
                    probs.append('the byte folded is not the byte at the cursor')
                if not (isinstance(nv[roles['p']], Ptr) and alg.is_zero(sp.sympify(nv[roles['p']].off) - o - 1)):
                    probs.append('cursor does not advance by one byte')
                if any(r != h for s_, r in tx.finals):
                    probs.append('returned value is not the accumulator')
                g = [c for c in s1.pc if isinstance(c, alg.Cond)]
                if not any(c.rel() == '!=' and c.a == byte and c.b == 0 for c in g):
                    probs.append('guard %s, expected byte at the cursor != 0' % g)
            if tx.init[roles['v']] != val:
                probs.append('accumulator does not start as the value parameter')
            if probs:
                rep.bad('H2', name, '; '.join(probs), loc=loc, key='%s: fold' % name)
            else:
                rep.ok('H2', name, 'left fold h <- %s over the bytes in address order, from the value parameter' % steps[name], loc=loc,
                       sample={'fn': name, 'step': str(e)})
        except Unsupported as e:
            rep.unk('H2', name, str(e))
    for a, b in (('a_hash_bkdr', 'a_hash_bkdr_'), ('a_hash_sdbm', 'a_hash_sdbm_')):
        if a in steps and b in steps:
            if alg.is_zero(steps[a] - steps[b]):
                rep.ok('H5', a + '/' + b, 'string and length-delimited forms use the same step %s' % steps[a])
            else:
                rep.bad('H5', a + '/' + b, 'steps differ: %s vs %s' % (steps[a], steps[b]), key='%s: step' % a)


def fixtures(ctx):
    # the ANF comparison must separate (v<<8)^T from (v<<7)^T
    S = BV.sym('s', 16)
    T = BV.sym('t', 16)
    d = bit.Bit()
    good = d.bv_binop('xor', d.bv_binop('shl', S, BV.const(8, 16), 16), T, 16)
    bad = d.bv_binop('xor', d.bv_binop('shl', S, BV.const(7, 16), 16), T, 16)
    want = BV([(S.bits[j - 8] if j >= 8 else ZERO) ^ T.bits[j] for j in range(16)])
    if good == want and bad != want:
        ctx.rep.ok('FIXTURE', 'crc-anf', 'seeded shift error refuted')
    else:
        ctx.rep.unk('FIXTURE', 'crc-anf', 'positive control failed')
