"""C09 - matrix product, transpose and structure kernels (DESIGN 4 C09).

AFF (lib/scev.py): every loop of src/linalg.c is summarised with *symbolic* dimensions: closed forms of the walking
pointers, trip counts, and the statement tree with polynomial access functions.  Rules:
  X0  the zeroing loop of each product covers exactly [0, row*col) of Z
  X1  the accumulate statement  Z[f] += X[g]*Y[h]  ranges over a full box whose three counters can be named (i, j, k) such
      that f = i*col + j and g, h are the index maps of the variant's (transposed) operands; any loop order is accepted
  X2  no store goes to an operand array; every store index of the result lies in the tiling proved by X0/X1/X3
  T1  a_real_T1 swaps (r,c) <-> (c,r) exactly once per unordered pair (both loads precede both stores); T2 is the index
      bijection T[c*m + r] = A[r*n + c] over the full box
  X3  per-row tilings of the eye/tri/diag/triL/triU families: the column intervals written in a row chain from 0 to the
      column count, the row intervals chain from 0 to the row count (both rectangular cases m<=n, m>n), and the value of
      every tile equals the specified pattern there
Floating-point content is symbolic (ld terms): sums are compared as exact-real sums (any order)."""
import itertools
import sympy as sp
import scev, irx, fm
from scev import ld
from symx import Unsupported

LEVEL = 'proof'
AFF_PASSES = 'sroa,mem2reg,instsimplify,simplifycfg,loop-simplify,lcssa'

# variant -> (rows of Z, cols of Z, inner, X index(i,k), Y index(k,j)) over parameter symbols
PRODUCTS = {
    'a_real_mulmm': lambda s: (s['row'], s['col'], s['c_r'], lambda i, k: i * s['c_r'] + k, lambda k, j: k * s['col'] + j),
    'a_real_mulTm': lambda s: (s['row'], s['col'], s['c_r'], lambda i, k: k * s['row'] + i, lambda k, j: k * s['col'] + j),
    'a_real_mulmT': lambda s: (s['row'], s['col'], s['c_r'], lambda i, k: i * s['c_r'] + k, lambda k, j: j * s['c_r'] + k),
    'a_real_mulTT': lambda s: (s['row'], s['col'], s['c_r'], lambda i, k: k * s['row'] + i, lambda k, j: j * s['c_r'] + k),
}

ZERO, ONE = sp.Integer(0), sp.Integer(1)


def LT(r, c):   # c < r
    return [r - c - 1]


def EQ(r, c):
    return [r - c, c - r]


def GT(r, c):   # c > r
    return [c - r - 1]


def LE(r, c):   # c <= r
    return [r - c]


def GE(r, c):   # c >= r
    return [c - r]


def fills(s):
    """function -> (result array, rows, cols, pieces(r, c) -> [(conds >= 0, value)]); ('ld', array, index) reads an operand"""
    n = s.get('n')
    m = s.get('m', n)
    A = lambda r, c: ('ld', 'A', r * n + c)
    return {
        'a_real_eye1': ('E', n, n, lambda r, c: [(EQ(r, c), ONE), (LT(r, c), ZERO), (GT(r, c), ZERO)]),
        'a_real_eye2': ('E', m, n, lambda r, c: [(EQ(r, c), ONE), (LT(r, c), ZERO), (GT(r, c), ZERO)]),
        'a_real_tri1': ('L', n, n, lambda r, c: [(LE(r, c), ONE), (GT(r, c), ZERO)]),
        'a_real_tri2': ('L', m, n, lambda r, c: [(LE(r, c), ONE), (GT(r, c), ZERO)]),
        'a_real_diag': ('A', n, n, lambda r, c: [(EQ(r, c), ('ld', 'a', r)), (LT(r, c), ZERO), (GT(r, c), ZERO)]),
        'a_real_triL': ('L', n, n, lambda r, c: [(LE(r, c), A(r, c)), (GT(r, c), ZERO)]),
        'a_real_triL1': ('L', n, n, lambda r, c: [(LT(r, c), A(r, c)), (EQ(r, c), ONE), (GT(r, c), ZERO)]),
        'a_real_triL2': ('L', m, n, lambda r, c: [(LE(r, c), A(r, c)), (GT(r, c), ZERO)]),
        'a_real_triU': ('U', n, n, lambda r, c: [(GE(r, c), A(r, c)), (LT(r, c), ZERO)]),
        'a_real_triU1': ('U', n, n, lambda r, c: [(GT(r, c), A(r, c)), (EQ(r, c), ONE), (LT(r, c), ZERO)]),
        'a_real_triU2': ('U', m, n, lambda r, c: [(GE(r, c), A(r, c)), (LT(r, c), ZERO)]),
    }


def stores_of(tree, ctx=(), aff=None):
    """flatten: [(loops [(counter, T)], base, index, value, loc)]; other items are returned separately"""
    out, other = [], []
    for t in tree:
        if t[0] == 'loop':
            a, b = stores_of(t[3], ctx + ((t[1], t[2]),), aff)
            out += a
            other += b
        elif t[0] == 'store':
            out.append((ctx, t[1], t[2], t[3], t[4]))
        elif t[0] == 'ret':
            pass
        else:
            other.append(t)
    return out, other


def store_tags(tree, out=None):
    """{source location of a store: memory-state tag at the store}"""
    out = {} if out is None else out
    for t in tree:
        if t[0] == 'loop':
            store_tags(t[3], out)
        elif t[0] == 'store' and len(t) > 5:
            out[t[4]] = t[5]
        elif t[0] == 'if':
            store_tags(t[2], out)
            store_tags(t[3], out)
    return out


def analyse(ctx, fn, facts=()):
    mod = fn.module
    return scev.emit_pruned(lambda: scev.Aff(fn, facts=list(facts), lookup=lambda n: mod.functions.get(n)))


def syms(a):
    return dict(a.params)


def run(ctx):
    rep = ctx.rep
    rep.explanation = ('induction-variable analysis with symbolic dimensions (lib/scev.py): closed forms of every cursor/counter, trip '
                       'counts by exact division under the loop guards, statement trees with polynomial access functions; products '
                       'matched to the definition by naming the three counters, transposes as index bijections, structure kernels by '
                       'row/column interval tilings whose values are compared with the specified pattern')
    rep.rule_text = 'X0 zero fill = [0,row*col); X1 product box and index maps; X2 stores only to the result; T1/T2 transposes; X3 tilings'
    rep.trusted += ['lib/scev.py (closed forms, trip counts), lib/fm.py (Fourier-Motzkin over monomials)', 'sympy polynomial arithmetic']
    rep.assumptions += ['integer index arithmetic does not wrap (dimension products fit a_size)', 'dimensions are >= 1',
                        'floating-point sums are compared as exact real sums: rounding and summation order are NOT decided',
                        'operand and result arrays do not overlap (declared __restrict)']
    configs = [('all', 8)]
    if ctx.tier == 'thorough':
        configs += [('all', 4), ('none', 8)]
    for have, real in configs:
        mod = ctx.module('linalg', have=have, real=real, passes=AFF_PASSES)
        tag = '' if (have, real) == ('all', 8) else ' [%s/f%d]' % (have, real * 8)
        for name in PRODUCTS:
            guard(rep, 'X1', name + tag, product, ctx, mod, name, tag)
        guard(rep, 'T1', 'a_real_T1' + tag, transpose1, ctx, mod, tag)
        guard(rep, 'T2', 'a_real_T2' + tag, transpose2, ctx, mod, tag)
        for name in fills({'n': sp.Symbol('n'), 'm': sp.Symbol('m')}):
            guard(rep, 'X3', name + tag, fill, ctx, mod, name, tag)
        for name in ('a_real_diag1', 'a_real_diag2'):
            guard(rep, 'X3', name + tag, diag_extract, ctx, mod, name, tag)
    k = len(configs)
    rep.floor('X0', 4 * k)
    rep.floor('X1', 4 * k)
    rep.floor('X2', 29 * k)
    rep.floor('T1', k)
    rep.floor('T2', k)
    rep.floor('X3', 23 * k)


def guard(rep, rule, symbol, f, *args):
    try:
        f(*args)
    except Unsupported as e:
        rep.unk(rule, symbol, 'outside the affine fragment: %s' % e)
    except fm.NonLinear as e:
        rep.unk(rule, symbol, 'non-polynomial term: %s' % e)


def getfn(ctx, mod, name):
    f = mod.functions.get(name)
    if f is None or f.error:
        raise irx.ToolError('anchor %s vanished from src/linalg.c' % name)
    ctx.rep.functions.add(name)
    return f


def only_result(rep, name, tag, stores, other, result, loc=None):
    """X2: stores go to the result array only, and nothing else with a memory effect happens"""
    bad = [s for s in stores if str(s[1]) != result]
    if other and any(t[0] == 'call' for t in other):
        # a helper was called: addresses derived from its result cannot be attributed to an array by this rule
        rep.unk('X2', name + tag, 'unexpected item call')
        return False
    if bad:
        rep.bad('X2', name + tag, 'store to %s[%s]: not the result array %s' % (bad[0][1], bad[0][2], result), loc=bad[0][4],
                key='%s: store to operand' % name)
        return False
    if other:
        rep.unk('X2', name + tag, 'unexpected item %s' % (other[0][0],))
        return False
    rep.ok('X2', name + tag, '%d store statement(s), all to %s' % (len(stores), result))
    return True


# ---------------------------------------------------------------- products
def root_param(a, fn, v, depth=0):
    """pointer parameter an SSA pointer is derived from (initial values of phis, bases of geps)"""
    if v.k != 'reg' or depth > 40:
        return None
    d = fn.defs.get(v.v)
    if d is None:
        return v.v if v.v in a.params else None
    if d.op == 'phi':
        l = a.inner[d.block.name]
        cands = []
        for o, lb in zip(d.ops, d.x['labels']):
            src = fn.bmap[lb]
            if l is not None and d.block is l.header and src in l.blocks:
                continue
            cands.append(o)
        roots = set(root_param(a, fn, o, depth + 1) for o in cands)
        return roots.pop() if len(roots) == 1 else None
    if d.op in ('gep', 'bitcast'):
        return root_param(a, fn, d.ops[0], depth + 1)
    return None


def stride_census(ctx, fn, name, tag, why):
    """fallback when a trip count is not computable: the strides of the accumulate statement in its innermost loop must be
    one of the three stride vectors of the definition"""
    rep = ctx.rep
    a = scev.Aff(fn)
    a.structure()
    s = syms(a)
    rows, cols, inner, fx, fy = PRODUCTS[name](s)
    i, j, k = sp.symbols('i j k')
    allowed = {}
    for nm, v in (('i', i), ('j', j), ('k', k)):
        allowed[nm] = (sp.diff(i * cols + j, v), sp.diff(fx(i, k), v), sp.diff(fy(k, j), v))
    best = None
    for ins in fn.instrs():
        if ins.op == 'store' and ins.ops[0].k == 'reg':
            l = a.inner[ins.block.name]
            if l is not None and (best is None or len(a.chain(l)) > len(a.chain(best[1]))):
                best = (ins, l)
    if best is None:
        return False
    ins, l = best
    a.solve(l)
    esz = a.elem(ins.ops[0].ty) if ins.ops[0].ty is not None else 8      # element size of this configuration (float / double)
    d = fn.defs.get(ins.ops[0].v)
    loads = []
    st = [d]
    while st:
        x = st.pop()
        if x is None:
            continue
        if x.op == 'load':
            loads.append(x)
            continue
        for o in x.ops:
            if o.k == 'reg':
                st.append(fn.defs.get(o.v))
    vec = {}
    sub = {p_: l.closed[r] for r, p_ in l.P.items()}
    for nm, ptr, blk in [('Z', ins.ops[1], ins.block)] + [(None, x.ops[0], x.block) for x in loads]:
        e = sp.expand(a.ev(ptr, blk).subs(sub, simultaneous=True))
        stride = sp.expand(e.coeff(l.counter, 1) / esz)
        b = root_param(a, fn, ptr)
        if b is not None:
            vec[b] = stride
    got = (vec.get('Z'), vec.get('X'), vec.get('Y'))
    if None in got:
        return False
    for nm, v in allowed.items():
        if all(sp.expand(g - w) == 0 for g, w in zip(got, v)):
            return False
    rep.bad('X1', name + tag, 'innermost loop advances (Z, X, Y) by %s elements per step; the definition allows %s (%s)' % (
        got, ', '.join('%s:%s' % kv for kv in allowed.items()), why), loc=fn.loc(ins), key='%s: access functions' % name)
    return True


def product(ctx, mod, name, tag):
    rep = ctx.rep
    fn = getfn(ctx, mod, name)
    try:
        a, tree = analyse(ctx, fn)
    except Unsupported as e:
        if stride_census(ctx, fn, name, tag, str(e)):
            return
        raise
    s = syms(a)
    rows, cols, inner, fx, fy = PRODUCTS[name](s)
    stores, other = stores_of(tree)
    if not only_result(rep, name, tag, stores, other, 'Z'):
        return
    zero = [st for st in stores if st[3] == 0]
    acc = [st for st in stores if st[3] != 0]
    # X0: zero fill
    okz = False
    if len(zero) == 1 and len(zero[0][0]) == 1:
        (cnt, T), = zero[0][0]
        idx = zero[0][2]
        if T is not None and a.prove_eq(idx, cnt) and a.prove_eq(T, rows * cols):
            okz = True
    if okz:
        rep.ok('X0', name + tag, 'Z[i] = 0 for i in [0, %s)' % (rows * cols), sample={'index': str(zero[0][2]), 'trip': str(zero[0][0][0][1])})
    else:
        d = '; '.join('Z[%s] = 0 over %s' % (z[2], ['%s<%s' % c for c in z[0]]) for z in zero) or 'no zeroing statement'
        rep.bad('X0', name + tag, 'zero fill is not exactly [0,%s): %s' % (rows * cols, d), loc=zero[0][4] if zero else fn.loc(None),
                key='%s: zero fill extent' % name)
    # the zero fill must precede the accumulation (tree order)
    if tree and not (tree[0][0] == 'loop' and stores_of([tree[0]])[0] and stores_of([tree[0]])[0][0][3] == 0):
        rep.bad('X0', name + tag, 'the accumulation does not start from a zeroed result', key='%s: zero fill order' % name)
    if len(acc) != 1:
        rep.unk('X1', name + tag, '%d accumulate statements' % len(acc))
        return
    loops, base, idx, val, loc = acc[0]
    stag = store_tags(tree).get(loc)
    if len(loops) != 3 or any(T is None for _, T in loops):
        rep.unk('X1', name + tag, 'accumulation is not a 3-deep nest with computable trip counts: %s' % (loops,))
        return
    cs = [c for c, _ in loops]
    if any(set(cs) & T.free_symbols for _, T in loops):
        rep.unk('X1', name + tag, 'trip counts depend on outer counters: %s' % (loops,))
        return
    # value must be ld(Z, idx) + ld(X, g)*ld(Y, h), all read in the current state
    val = sp.expand(val)
    terms = sp.Add.make_args(val)
    zt = [t for t in terms if t.func == ld and str(t.args[0]) == 'Z']
    pt = [t for t in terms if t not in zt]
    if len(zt) != 1 or len(pt) != 1:
        rep.bad('X1', name + tag, 'statement is not Z += X*Y: Z[%s] = %s' % (idx, val), loc=loc, key='%s: statement form' % name)
        return
    c, rest = pt[0].as_coeff_Mul()
    fac = sp.Mul.make_args(rest)
    lx = [t for t in fac if t.func == ld and str(t.args[0]) == 'X']
    ly = [t for t in fac if t.func == ld and str(t.args[0]) == 'Y']
    if c != 1 or len(fac) != 2 or len(lx) != 1 or len(ly) != 1 or sp.expand(zt[0].args[1] - idx) != 0:
        rep.bad('X1', name + tag, 'statement is not Z[f] += X[g]*Y[h]: Z[%s] = %s' % (idx, val), loc=loc, key='%s: statement form' % name)
        return
    # the accumulator cell is read in the state the store finds (no store in between); X and Y are never written (X2: all stores go
    # to Z, arrays do not overlap), so where their elements are loaded - in the statement or hoisted out of a loop - does not matter
    if stag is not None and str(zt[0].args[2]) != str(stag) and len({zt[0].args[2], lx[0].args[2], ly[0].args[2]}) != 1:
        rep.bad('X1', name + tag, 'the accumulator cell is not read in the state the store finds (a store lies in between)', loc=loc, key='%s: statement form' % name)
        return
    g, h = lx[0].args[1], ly[0].args[1]
    found = None
    tried = []
    for perm in itertools.permutations(range(3)):
        i, j, k = cs[perm[0]], cs[perm[1]], cs[perm[2]]
        Ti, Tj, Tk = loops[perm[0]][1], loops[perm[1]][1], loops[perm[2]][1]
        okd = a.prove_eq(Ti, rows) and a.prove_eq(Tj, cols) and a.prove_eq(Tk, inner)
        okf = sp.expand(idx - (i * cols + j)) == 0
        okg = sp.expand(g - fx(i, k)) == 0
        okh = sp.expand(h - fy(k, j)) == 0
        tried.append((okd, okf, okg, okh))
        if okd and okf and okg and okh:
            found = (i, j, k)
            break
    if found:
        rep.ok('X1', name + tag, 'Z[i*%s+j] += X[%s]*Y[%s] over i<%s, j<%s, k<%s (i,j,k = %s)' % (
            cols, fx(sp.Symbol('i'), sp.Symbol('k')), fy(sp.Symbol('k'), sp.Symbol('j')), rows, cols, inner, found),
            sample={'Z': str(idx), 'X': str(g), 'Y': str(h), 'loops': [(str(c_), str(T)) for c_, T in loops]})
    else:
        best = max(tried, key=lambda t: sum(t))
        what = [n_ for n_, o in zip(('box extents', 'Z index', 'X index', 'Y index'), best) if not o]
        rep.bad('X1', name + tag, 'no naming of the counters gives the definition (closest: wrong %s): Z[%s] += X[%s]*Y[%s] over %s; expected '
                'Z[i*%s+j] += X[%s]*Y[%s] over i<%s, j<%s, k<%s' % (
                    ', '.join(what), idx, g, h, ['%s<%s' % l for l in loops], cols, fx(sp.Symbol('i'), sp.Symbol('k')),
                    fy(sp.Symbol('k'), sp.Symbol('j')), rows, cols, inner), loc=loc, key='%s: access functions' % name)


# ---------------------------------------------------------------- transposes
def transpose2(ctx, mod, tag):
    rep = ctx.rep
    name = 'a_real_T2'
    fn = getfn(ctx, mod, name)
    a, tree = analyse(ctx, fn)
    s = syms(a)
    m, n = s['m'], s['n']
    stores, other = stores_of(tree)
    if not only_result(rep, name, tag, stores, other, 'T'):
        return
    if len(stores) != 1 or len(stores[0][0]) != 2:
        rep.unk('T2', name + tag, 'not a single statement in a 2-deep nest')
        return
    loops, base, idx, val, loc = stores[0]
    if val.func != ld or str(val.args[0]) != 'A':
        rep.bad('T2', name + tag, 'stored value is not an element of A: %s' % val, loc=loc, key='T2: statement form')
        return
    src = val.args[1]
    for (r, Tr), (c, Tc) in (loops, loops[::-1]):
        if Tr is None or Tc is None:
            continue
        if a.prove_eq(Tr, m) and a.prove_eq(Tc, n) and sp.expand(idx - (c * m + r)) == 0 and sp.expand(src - (r * n + c)) == 0:
            rep.ok('T2', name + tag, 'T[c*m + r] = A[r*n + c] over r<m, c<n', sample={'T': str(idx), 'A': str(src)})
            return
    rep.bad('T2', name + tag, 'T[%s] = A[%s] over %s is not the transpose bijection T[c*m+r] = A[r*n+c], r<m, c<n' % (
        idx, src, ['%s<%s' % l for l in loops]), loc=loc, key='T2: access functions')


def transpose1(ctx, mod, tag):
    rep = ctx.rep
    name = 'a_real_T1'
    fn = getfn(ctx, mod, name)
    a, tree = analyse(ctx, fn)
    n = syms(a)['n']
    stores, other = stores_of(tree)
    if not only_result(rep, name, tag, stores, other, 'A'):
        return
    if len(stores) != 2 or any(len(st[0]) != 2 for st in stores) or stores[0][0] != stores[1][0]:
        arith = [st for st in stores if st[3].func != ld and st[3].has(ld)]
        if arith:
            # a transposition moves elements; a cell that receives a sum / difference of elements (the add-subtract exchange) holds the
            # other element only in exact arithmetic - a + b - b is not a in binary floating point
            rep.bad('T1', name + tag, 'a cell receives a value computed from elements, A[%s] = %s: the exchange is exact only in real arithmetic' % (
                arith[0][2], arith[0][3]), loc=arith[0][4], key='T1: swap')
            return
        rep.unk('T1', name + tag, 'not two statements in one 2-deep nest')
        return
    (l0, _, i1, v1, loc), (_, _, i2, v2, _) = stores
    (r, Tr), (j, Tj) = l0
    okswap = v1.func == ld and v2.func == ld and str(v1.args[0]) == 'A' and str(v2.args[0]) == 'A' and \
        sp.expand(v1.args[1] - i2) == 0 and sp.expand(v2.args[1] - i1) == 0 and v1.args[2] == v2.args[2]
    if not okswap:
        rep.bad('T1', name + tag, 'loop body is not a swap of two cells read before either is written: A[%s] = %s; A[%s] = %s' % (i1, v1, i2, v2),
                loc=loc, key='T1: swap')
        return
    if Tr is None or Tj is None or not a.prove_eq(Tr, n):
        rep.bad('T1', name + tag, 'outer loop does not visit every row: trip %s' % Tr, loc=loc, key='T1: domain')
        return
    # name the inner index c: one cell is (r, c), the other (c, r); the pairs are the strict upper or lower triangle
    for x, y in ((i1, i2), (i2, i1)):
        c = sp.expand((x - r) / n)
        if not c.is_polynomial(r, j):
            continue
        if sp.expand(x - (n * c + r)) != 0 or sp.expand(y - (n * r + c)) != 0:
            continue
        upper = sp.expand(c - (r + 1 + j)) == 0 and a.prove_eq(Tj, n - r - 1, [r, n - 1 - r])
        lower = sp.expand(c - j) == 0 and a.prove_eq(Tj, r, [r, n - 1 - r])
        # including the diagonal only adds self-swaps, which change nothing
        upper = upper or (sp.expand(c - (r + j)) == 0 and a.prove_eq(Tj, n - r, [r, n - 1 - r]))
        lower = lower or (sp.expand(c - j) == 0 and a.prove_eq(Tj, r + 1, [r, n - 1 - r]))
        if upper or lower:
            rep.ok('T1', name + tag, 'swap A[n*c+r] <-> A[n*r+c] for every pair %s, once' % ('r < c < n' if upper else 'c < r < n'),
                   sample={'cells': [str(i1), str(i2)], 'inner trip': str(Tj)})
            return
        rep.bad('T1', name + tag, 'pairs visited: c = %s for %s steps; neither the strict upper (c = r+1.., n-r-1 steps) nor lower triangle' % (c, Tj),
                loc=loc, key='T1: domain')
        return
    rep.bad('T1', name + tag, 'swapped cells A[%s], A[%s] are not mirror images (n*c+r, n*r+c)' % (i1, i2), loc=loc, key='T1: access functions')


# ---------------------------------------------------------------- fills
def cases_for(fn):
    names = [n for t, n in fn.params if not t.is_ptr]
    if 'm' in names and 'n' in names:
        m, n = sp.Symbol('m', integer=True, positive=True), sp.Symbol('n', integer=True, positive=True)
        return [('m<n', [n - m - 1]), ('m=n', [n - m, m - n]), ('m>n', [m - n - 1])]
    return [('', [])]


def value_matches(a, impl, spec, facts):
    if isinstance(spec, tuple):
        if impl.func != ld or str(impl.args[0]) != spec[1]:
            return False
        return a.prove_eq(impl.args[1], spec[2], facts)
    if isinstance(impl, sp.Basic) and impl.has(ld):
        return False
    return sp.expand(impl - spec) == 0


def chain(a, tiles, end, facts):
    """order the intervals [(lo, hi, ...)] into a chain 0 = lo_1, hi_k = lo_{k+1}, hi_last = end; empty intervals may be dropped"""
    tiles = list(tiles)
    for k in range(len(tiles), 0, -1):
        for sub in itertools.permutations(tiles, k):
            rest = [t for t in tiles if t not in sub]
            if not all(a.prove_eq(t[0], t[1], facts) for t in rest):
                continue
            if not a.prove_eq(sub[0][0], 0, facts):
                continue
            if not a.prove_eq(sub[-1][1], end, facts):
                continue
            if all(a.prove_eq(x[1], y[0], facts) for x, y in zip(sub, sub[1:])):
                return list(sub)
    if not tiles and a.prove_eq(end, 0, facts):
        return []
    return None


def fill(ctx, mod, name, tag):
    rep = ctx.rep
    fn = getfn(ctx, mod, name)
    for cname, cf in cases_for(fn):
        sym = name + tag + (' (%s)' % cname if cname else '')
        a, tree = analyse(ctx, fn, cf)
        s = syms(a)
        result, R, C, pieces = fills(s)[name]
        stores, other = stores_of(tree)
        if not only_result(rep, sym, '', stores, other, result):
            continue
        # group by top-level nest
        nests = []
        for t in tree:
            if t[0] != 'loop':
                continue
            st, _ = stores_of([t])
            if t[2] is None:
                raise Unsupported('trip count of a row loop is not computable')
            if a.prove_eq(t[2], 0, cf):
                continue
            nests.append((t[1], t[2], st))
        rowsets = []   # (rowoff, T, counter, tiles)
        bad = False
        for cnt, T, st in nests:
            facts = list(cf) + [cnt, T - 1 - cnt]
            tiles = []
            for loops, base, idx, val, loc in st:
                if len(loops) == 1:
                    tiles.append([idx, idx + 1, val, loc, None, facts])
                elif len(loops) == 2:
                    j, Tj = loops[1]
                    if Tj is None:
                        raise Unsupported('inner trip count not computable')
                    lo = idx.subs(j, 0)
                    if sp.expand(idx - lo - j) != 0:
                        rep.bad('X3', sym, 'inner loop does not walk consecutive cells: index %s' % idx, loc=loc, key='%s: stride' % name)
                        bad = True
                        continue
                    tiles.append([lo, sp.expand(lo + Tj), val, loc, (j, Tj), facts])
                else:
                    raise Unsupported('nest deeper than 2')
            rowsets.append([cnt, T, tiles])
        if bad:
            continue
        # row offset of each nest: the tile that starts a row gives C*row
        merged = {}
        for cnt, T, tiles in rowsets:
            off = None
            for tl in tiles:
                o = sp.expand((tl[0] - C * cnt) / C)
                if o.is_polynomial() and cnt not in o.free_symbols and not any(j in o.free_symbols for j in [tl[4][0]] if tl[4]):
                    # candidate: a tile starting in column 0
                    off = o
                    break
            if off is None:
                # no tile starts a row (diagonal-only nest): row = counter
                off = sp.Integer(0)
            key = None
            for k2 in merged:
                if a.prove_eq(k2[0], off, cf) and a.prove_eq(k2[1], T, cf):
                    key = k2
            if key is None:
                key = (off, T, cnt)
                merged[key] = []
            for tl in tiles:
                sub = {cnt: key[2]}
                merged[key].append([sp.expand(tl[0].subs(sub)), sp.expand(tl[1].subs(sub)), tl[2].subs(sub) if isinstance(tl[2], sp.Basic) else tl[2],
                                    tl[3], (tl[4][0], tl[4][1].subs(sub)) if tl[4] else None])
        # rows chain
        rowtiles = [(off, sp.expand(off + T), cnt) for (off, T, cnt) in merged]
        order = chain(a, rowtiles, R, list(cf))
        if order is None:
            rep.bad('X3', sym, 'rows written %s do not tile [0, %s)' % (['[%s, %s)' % (x[0], x[1]) for x in rowtiles], R),
                    loc=fn.loc(None), key='%s: rows' % name)
            continue
        okall = True
        ntile = 0
        for (off, T, cnt), tiles in merged.items():
            facts = list(cf) + [cnt, T - 1 - cnt]
            row = off + cnt
            cols = [(sp.expand(tl[0] - C * row), sp.expand(tl[1] - C * row), tl) for tl in tiles]
            if not any(x[0] == off and sp.expand(x[1] - off - T) == 0 for x in order):
                continue   # an empty row set under this case
            ch = chain(a, cols, C, facts)
            if ch is None:
                okall = False
                rep.bad('X3', sym, 'row %s: column intervals %s do not tile [0, %s)' % (row, ['[%s, %s)' % (x[0], x[1]) for x in cols], C),
                        loc=tiles[0][3] if tiles else None, key='%s: columns' % name)
                continue
            for lo, hi, tl in ch:
                ntile += 1
                jf = [tl[4][0], tl[4][1] - 1 - tl[4][0]] if tl[4] else []
                col = lo + tl[4][0] if tl[4] else lo
                f2 = facts + jf
                pcs = pieces(row, col)
                hit = [v for conds, v in pcs if all(a.prove_ge0(g, f2) for g in conds)]
                if len(hit) != 1:
                    okall = False
                    rep.unk('X3', sym, 'row %s columns [%s,%s): cannot place the tile in the pattern' % (row, lo, hi), loc=tl[3])
                    continue
                spec = hit[0]
                if isinstance(spec, tuple):
                    spec = ('ld', spec[1], spec[2])
                impl = tl[2]
                if not value_matches(a, impl, spec, f2):
                    okall = False
                    rep.bad('X3', sym, 'row %s columns [%s, %s): value %s, the pattern has %s there' % (row, lo, hi, impl, spec if not isinstance(spec, tuple) else '%s[%s]' % (spec[1], spec[2])),
                            loc=tl[3], key='%s: value' % name)
        if okall:
            rep.ok('X3', sym, '%d row set(s), %d tiles: rows tile [0,%s), columns tile [0,%s), values match the pattern' % (len(order), ntile, R, C),
                   sample={'rows': [[str(x[0]), str(x[1])] for x in order],
                           'tiles': [[str(sp.expand(t[0])), str(sp.expand(t[1])), str(t[2])] for ts in merged.values() for t in ts][:6]})


def diag_extract(ctx, mod, name, tag):
    rep = ctx.rep
    fn = getfn(ctx, mod, name)
    for cname, cf in cases_for(fn):
        sym = name + tag + (' (%s)' % cname if cname else '')
        a, tree = analyse(ctx, fn, cf)
        s = syms(a)
        n = s['n']
        M = s['n'] if 'm' not in s else (s['m'] if cname in ('m<n', 'm=n') else s['n'])
        stores, other = stores_of(tree)
        if not only_result(rep, sym, '', stores, other, 'a'):
            continue
        if len(stores) != 1 or len(stores[0][0]) != 1:
            rep.unk('X3', sym, 'not a single loop with one statement')
            continue
        ((i, T),), base, idx, val, loc = stores[0]
        ok = T is not None and a.prove_eq(T, M, cf) and sp.expand(idx - i) == 0 and val.func == ld and str(val.args[0]) == 'A' and \
            sp.expand(val.args[1] - (n + 1) * i) == 0
        if ok:
            rep.ok('X3', sym, 'a[i] = A[(n+1)*i] for i < %s' % M)
        else:
            rep.bad('X3', sym, 'a[%s] = %s over %s<%s is not a[i] = A[(n+1)i], i < %s' % (idx, val, i, T, M), loc=loc, key='%s: diagonal' % name)
