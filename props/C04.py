"""C04 - vector and fixed buffer (DESIGN 4 C04), rules B1 (representation invariant preserved), B2 (every memory effect,
callback argument and returned element pointer inside the owned block, wrap-aware over the full range of index/count
arguments), B3 (buffer refuses what does not fit), DIV0.  Engine: LIN (lib/lin.py) on the loop-free paths; paths that
enter an un-summarised loop (callback loops, binary searches, bubble loops) are NOT decided and counted in the evidence."""
import sympy as sp
import symx, alg, lin, fm, dwarf, llir, effects
from symx import Ptr, Unsupported, TOP, NULL
from lin import LinDom, Effect, MAXP, TWO64

LEVEL = 'other'

END_POINTERS = {'a_vec_end', 'a_vec_end_', 'a_buf_end', 'a_buf_end_', 'a_vec_ptr', 'a_buf_ptr'}
# functions whose documented contract makes the caller responsible for the index ("should check for out of bounds")
UNCHECKED = {'a_vec_at_': 'idx < mem', 'a_buf_at_': 'idx < mem', 'a_vec_top_': 'num >= 1', 'a_buf_top_': 'num >= 1'}


def lookup_in(mods):
    def lk(name):
        for m in mods:
            f = m.functions.get(name)
            if f is not None and not f.error:
                return f
        return None
    return lk


class Container:
    def __init__(self, ctx, kind):
        self.kind = kind
        self.unit = kind
        self.sname = 'a_' + kind
        self.m = ctx.module(kind)
        self.hdr = ctx.module('hdr_unit')
        md = dwarf.MD(self.m)
        fl = md.flatten(self.sname)
        if not fl:
            raise Unsupported('no layout for %s' % self.sname)
        self.off = {nm: o for o, nm in fl.items()}
        self.names = {('ctx', o): nm for o, nm in fl.items()}
        self.hsize = md.structs()[self.sname]['size']
        self.S = lambda n: sp.Symbol(n, integer=True, nonnegative=True)

    def storage(self, p):
        """(is storage pointer, byte offset relative to the first element)"""
        if self.kind == 'vec':
            if isinstance(p, Ptr) and p.base == '*ptr_':
                return True, p.off
        else:
            if isinstance(p, Ptr) and p.base == 'ctx' and not (isinstance(p.off, int) and p.off < self.hsize):
                return True, sp.sympify(p.off) - self.hsize
        return False, None


def base_facts(C, extra_syms=()):
    S = C.S
    f = [fm.le(1, S('siz_')), fm.le(S('num_'), S('mem_')), fm.le(S('mem_'), MAXP), fm.le(0, S('num_'))]
    for s in extra_syms:
        f.append(fm.le(0, s))
        f.append(fm.le(s, TWO64 - 1))
    return f


def vec_setm_summary(C):
    def summ(dom, args, ins, interp, st):
        p, req = args[0], args[1]
        if not isinstance(p, Ptr) or p.base != 'ctx':
            return NotImplemented
        memk = ('ctx', C.off['mem_'])
        old = interp.load(Ptr('ctx', C.off['mem_']), llir.I(64), st)

        def ok(s2):
            M = dom.fresh('M', nonnegative=True)
            dom.facts.append(fm.le(old, M))
            dom.facts.append(fm.le(req, M))
            dom.facts.append(fm.le(M, MAXP))
            interp.store(Ptr('ctx', C.off['mem_']), M, llir.I(64), s2)
            interp.store(Ptr('ctx', C.off['ptr_']), Ptr('*ptr_', 0), llir.Ty('ptr', llir.I(8)), s2)
            dom.maybe_null.discard('*ptr_') if False else None
            s2.grown = True
        def fail(s2):
            # the allocator is only reached when more than the current capacity is requested
            s2.assume(alg.Cond('icmp', 'ugt', sp.sympify(req), sp.sympify(old)))
        return [(0, ok), (4, fail)]
    return summ


def setz_capacity(C, fn, name, leaves, rep, loc, dom=None):
    """B12: changing the element size must not make the container claim more bytes than it owns: the new capacity is the number
    of WHOLE new elements in the mem_ * siz_ bytes it has - floor((mem_ * siz_) / siz'), nothing added to the dividend"""
    S = C.S
    probs, unk, n = [], [], 0
    memk, sizk = ('ctx', C.off['mem_']), ('ctx', C.off['siz_'])
    for lf in leaves:
        if memk not in lf.store or sizk not in lf.store:
            unk.append('a path does not store both the capacity and the element size')
            continue
        n += 1
        m2, s2 = sp.sympify(lf.store[memk][0]), sp.sympify(lf.store[sizk][0])
        if str(getattr(m2, 'func', '')) != 'i_udiv' or sp.expand(m2.args[1] - s2) != 0:
            unk.append('new capacity %s is not a quotient by the new element size %s' % (m2, s2))
            continue
        N = sp.expand(dom.strip_wrap(m2.args[0]) if dom is not None else m2.args[0])
        owned = [x for x in N.free_symbols if str(x) == 'mem_' or (str(x).startswith('M') and str(x)[1:].isdigit())]
        if len(owned) == 1 and sp.expand(N - owned[0] * S('siz_')) == 0:
            continue                                            # floor(bytes owned / new size)
        if len(owned) == 1:
            extra = sp.expand(N - owned[0] * S('siz_'))
            # something is added to the bytes owned before dividing: if it can be positive, a partial trailing element is counted
            vals = []
            for v_ in (1, 2, 3, 7, 12):
                ev = extra.subs({x: v_ for x in extra.free_symbols})
                if ev.is_number:
                    vals.append(ev)
            if vals and any(v_ > 0 for v_ in vals):
                probs.append('the new capacity is (%s) / %s: %s is added to the %s bytes owned before dividing, so a partial trailing element is counted as a whole one '
                             '(32 bytes, new size 12: 3 elements = 36 bytes)' % (N, s2, extra, owned[0] * S('siz_')))
                continue
            if vals and all(v_ <= 0 for v_ in vals) and len(vals) == 5:
                continue      # fewer bytes than owned are divided: a smaller claim is safe
        unk.append('new capacity %s: not recognised as the whole elements in the bytes owned' % m2)
    if probs:
        rep.bad('B12', name, '; '.join(sorted(set(probs))[:2]), loc=loc, key='%s: capacity after the element size changed' % name)
    elif unk or not n:
        rep.unk('B12', name, '; '.join(sorted(set(unk))[:2]) or 'no path stores the fields', loc=loc)
    else:
        rep.ok('B12', name, 'on all %d paths the new capacity is floor(mem_ * siz_ / new size): siz_ * mem_ never exceeds the bytes owned' % n, loc=loc)


def analyse(ctx, C, fn, rep):
    name = fn.name
    loc = fn.loc(fn.entry.instrs[0])
    S = C.S
    summaries = {'a_vec_setm': vec_setm_summary(C)} if C.kind == 'vec' and name != 'a_vec_setm' else {}
    dom = LinDom(C.names, summaries)
    dom.facts = []
    dom.cap_loc = ('ctx', C.off['mem_'])
    dom.maybe_null |= {'fn_dtor', 'fn_copy', 'fn_cmp', 'src', '*ptr_'}
    args = []
    psyms = []
    pre = []
    for k, (t, pn) in enumerate(fn.params):
        if k == 0:
            args.append(Ptr('ctx', 0))
        elif t.is_ptr and t.a.k == 'fn':
            args.append(Ptr('fn_' + (pn or 'cb%d' % k), 0))
            dom.maybe_null.add('fn_' + (pn or 'cb%d' % k))
        elif t.is_ptr:
            args.append(Ptr('src', 0))
        elif t.is_int and t.a == 64:
            s = sp.Symbol('arg_' + (pn or str(k)), integer=True, nonnegative=True)
            args.append(s)
            psyms.append(s)
        elif t.is_int:
            s = sp.Symbol('arg_' + (pn or str(k)), integer=True)
            args.append(s)
        else:
            raise Unsupported('parameter type %r' % t)
    # documented preconditions
    if name in ('a_vec_store', 'a_buf_store'):
        pre.append(fm.le(sp.Symbol('arg_num', integer=True, nonnegative=True), MAXP))
    if name in UNCHECKED:
        if UNCHECKED[name] == 'idx < mem':
            pre.append(fm.lt(sp.Symbol('arg_idx', integer=True, nonnegative=True), S('mem_')))
        else:
            pre.append(fm.le(1, S('num_')))
    it = symx.Interp(dom, lookup_in([C.m, C.hdr]), max_paths=2000, inline=lambda n: n not in summaries)
    it.prune_loops = True
    facts0 = base_facts(C, psyms) + pre
    ls = lin.LoopSummary(facts0, None)
    it.loop_hook = ls
    it.loop_leaves = []
    try:
        leaves = it.run(fn, args)
    except Unsupported as e:
        rep.unk('B2', name, str(e), loc=loc)
        return
    pruned = getattr(it, 'pruned', 0)
    loop_leaves = list(it.loop_leaves)
    siz = S('siz_')
    nob = 0
    viol = []
    unk = []
    for lf in leaves + loop_leaves:
        in_loop = hasattr(lf, 'loop_obligations')
        try:
            cases = lin.cases_of(dom, lf, facts0, extra_terms=[x for o in getattr(lf, 'loop_obligations', []) for x in o[1:]])
        except Unsupported as e:
            unk.append(str(e))
            continue
        # current capacity / element size at the end of the path (fields may have been updated)
        fin = {}
        for nm in ('siz_', 'num_', 'mem_'):
            k = ('ctx', C.off[nm])
            fin[nm] = sp.sympify(lf.store[k][0]) if k in lf.store else S(nm)
        for cs in cases:
            goals = []   # (description, [constraints])
            # ---- B2 effects
            for e in lf.calls:
                if not isinstance(e, Effect):
                    continue
                isst, off = C.storage(Ptr(e.base, e.off))
                if not isst:
                    continue
                cap = sp.sympify(e.cap) if getattr(e, 'cap', None) is not None else fin['mem_']
                X = lin.divide(off, siz)
                if e.kind == 'callback':
                    Y = sp.Integer(1)
                else:
                    Y = lin.divide(e.size, siz)
                if X is None or Y is None:
                    unk.append('%s: offset %s / size %s is not a multiple of the element size' % (e.name, off, e.size))
                    continue
                try:
                    g = [fm.le(0, X), fm.le(0, Y), fm.le(X + Y, cap)]
                except fm.NonLinear:
                    unk.append('%s: non-linear extent' % e.name)
                    continue
                goals.append(('%s at %s touches elements [%s, %s) of %s' % (e.name, fn.loc(e.ins) if e.ins else '?', X, sp.expand(X + Y), cap), g, e))
            # ---- closed forms of a summarised loop are inductive on this iteration path
            for desc_, a_, b_ in getattr(lf, 'loop_obligations', []):
                try:
                    goals.append(('loop summary: ' + desc_, [fm.le(a_, b_), fm.le(b_, a_)], 'loop'))
                except fm.NonLinear:
                    unk.append('non-linear loop summary')
            # ---- returned pointer
            r = lf.ret
            if isinstance(r, Ptr) and not in_loop:
                isst, off = C.storage(r)
                if isst:
                    X = lin.divide(off, siz)
                    if X is None:
                        unk.append('returned offset %s not a multiple of the element size' % off)
                    else:
                        room = 0 if name in END_POINTERS else 1
                        try:
                            goals.append(('returned pointer at element %s of capacity %s' % (X, fin['mem_']), [fm.le(0, X), fm.le(X + room, fin['mem_'])], None))
                        except fm.NonLinear:
                            unk.append('non-linear return offset')
            # ---- B1 invariant at exit (not for destructors)
            if not name.endswith('_dtor') and not name.endswith('_die') and not in_loop:
                try:
                    goals.append(('num_ <= mem_ at exit (num_=%s, mem_=%s)' % (fin['num_'], fin['mem_']), [fm.le(fin['num_'], fin['mem_']), fm.le(0, fin['num_'])], None))
                    if ('ctx', C.off['siz_']) in lf.store:
                        goals.append(('siz_ >= 1 at exit', [fm.le(1, fin['siz_'])], None))
                except fm.NonLinear:
                    unk.append('non-linear final fields (num_=%s mem_=%s)' % (fin['num_'], fin['mem_']))
            for desc, gs, e in goals:
                nob += 1
                ok, failing = lin.prove(cs, gs)
                if ok:
                    continue
                if e == 'loop':
                    unk.append('cannot prove: %s' % desc)
                    continue
                w = lin.witness(cs, failing, None)
                if w is not None:
                    wit = ', '.join('%s=%s' % (k, v) for k, v in sorted(w.items(), key=lambda kv: str(kv[0])) if not str(k).startswith(('k', 'q', 'r', 'M')))
                    viol.append((desc, wit, fn.loc(e.ins) if e is not None and not isinstance(e, str) and e.ins else loc, cs.kenv))
                else:
                    unk.append('cannot prove: %s' % desc)
    from props import C04_content, C04_search
    try:
        C04_search.check(C, fn, name, dom, loop_leaves, facts0, rep, leaves)
    except Unsupported as e:
        rep.unk('B9', name, str(e), loc=loc)
    try:
        C04_content.check(C, fn, name, dom, leaves, facts0, rep)
        C04_content.check_sorted_move(C, fn, name, dom, leaves, facts0, rep, getattr(ls, 'exit_roles', {}))
    except Unsupported as e:
        rep.unk('B8', name, str(e), loc=loc)
    try:
        from props import C04_sched
        C04_sched.check(C, fn, name, dom, leaves, loop_leaves, facts0, rep)
    except (Unsupported, fm.NonLinear) as e:
        rep.unk('B11', name, str(e), loc=loc)
    if name.endswith('_setz'):
        setz_capacity(C, fn, name, leaves, rep, loc, dom)
    sym = name
    if viol:
        # group by effect site: one finding per site
        seen = set()
        for desc, wit, l2, kenv in viol:
            site = desc.split(' touches')[0].split(' at exit')[0].split(' of capacity')[0]
            key = '%s: %s' % (name, site.split(' at ')[0])
            if key in seen:
                continue
            seen.add(key)
            wrapped = ' [wrap case]' if any(v != 0 for v in kenv.values()) else ''
            rep.bad('B2' if 'exit' not in desc else 'B1', '%s{%s}' % (name, site.split(' at ')[0]), '%s is outside the owned storage for %s%s' % (desc, wit, wrapped) if 'exit' not in desc
                    else 'representation invariant broken: %s for %s%s' % (desc, wit, wrapped), loc=l2, key=key, witness=wit)
    elif unk:
        rep.unk('B2', sym, '; '.join(sorted(set(unk))[:2])[:400], loc=loc)
    else:
        rep.ok('B2', sym, '%d paths%s, %d obligations discharged (effects, returned pointers, exit invariant) for all index/count values incl. wrap cases%s'
               % (len(leaves), ' + %d loop-iteration paths of summarised loops' % len(loop_leaves) if loop_leaves else '', nob, '; %d paths enter loops that are not summarised (not decided)' % pruned if pruned else ''), loc=loc,
               sample={'fn': name, 'paths': len(leaves), 'obligations': nob, 'pruned_loop_paths': pruned})
    if pruned:
        rep.note('%s: %d paths enter un-summarised loops' % (name, pruned))
    for n_ in ls.notes:
        rep.note(n_)


def setm_rule(ctx, C, rep):
    """a_vec_setm: the growth loop exits with m >= mem; the capacity committed is size_up(8, m) >= m, only on success"""
    fn = ctx.fn('vec', 'a_vec_setm')
    if fn is None:
        rep.unk('B1s', 'a_vec_setm', 'anchor vanished')
        return
    loc = fn.loc(fn.entry.instrs[0])
    import looptx
    try:
        dom = LinDom(C.names)
        dom.facts = []
        dom.maybe_null |= {'*ptr_'}
        req = sp.Symbol('arg_mem', integer=True, nonnegative=True)

        class D(LinDom):
            pass
        dom.indirect_call = lambda callee, args, ins, interp, st: (st.calls.append(('a_alloc', args)) or Ptr('newblk', 0))
        dom.maybe_null.add('newblk')

        def bind(ph, init):
            return dom.sym('m', integer=True, nonnegative=True)
        tx = looptx.transformer(fn, lookup_in([C.m]), [Ptr('ctx', 0), req], dom, bind)
        m = list(tx.sym.values())[0]
        probs = []
        # exit guard: not (m' < mem)
        fins = tx.finals or []
        okexit = False
        for s_, blk, prev in tx.exits:
            for c in s_.pc:
                if isinstance(c, alg.Cond) and c.rel() == '>=' and sp.sympify(c.b) == req:
                    okexit = True
        if not okexit:
            probs.append('the growth loop does not exit on "grown capacity >= requested"')
        # success leaves store mem_ = rounded (>= m' by the size_up facts) and ptr_ = new block; failure leaves store nothing
        nsucc = nfail = 0
        for s_, r in fins:
            stores = [k for k in s_.store if k[0] == 'ctx']
            rv = dom.concrete(r)
            if rv == 0 and stores:
                nsucc += 1
                memv = s_.store.get(('ctx', C.off['mem_']))
                if memv is None:
                    probs.append('success path does not commit the capacity')
                else:
                    # the committed capacity covers the request: entailed (Fourier-Motzkin, per wrap assignment) by the loop exit
                    # test and the rounding facts - this is what the callers' summary M >= requested stands on
                    import types
                    leaf = types.SimpleNamespace(pc=list(s_.pc), calls=[], store={('ctx', C.off['mem_']): memv}, ret=None, reads=[])
                    # requests beyond PTRDIFF_MAX elements are outside the contract (no object can hold them); with that the loop
                    # variable stays <= PTRDIFF_MAX: initially mem_, afterwards below the request (checked on the back edge below)
                    base = [fm.le(1, C.S('siz_')), fm.le(C.S('mem_'), MAXP), fm.le(C.S('mem_') + 1, req), fm.le(req, MAXP), fm.le(m, MAXP)]
                    for case in lin.cases_of(dom, leaf, base, extra_terms=[req]):
                        okc, g = lin.prove(case, [fm.le(req, memv[0])])
                        if not okc:
                            probs.append('success is reported with a committed capacity (%s = the grown value rounded up) that the loop exit test %s does not force '
                                         'to reach the requested %s' % (memv[0], [c for c in s_.pc if isinstance(c, alg.Cond)][:1], req))
                            break
            elif rv == 0:
                pass
            else:
                nfail += 1
                if stores:
                    probs.append('failure path stores to the container')
        if nsucc == 0 or nfail == 0:
            probs.append('success/failure paths: %d/%d' % (nsucc, nfail))
        # the invariant m <= PTRDIFF_MAX used above is inductive: the value carried around the back edge is below the request
        import types
        for s_, nv in tx.backs:
            nxt = list(nv.values())[0]
            leaf = types.SimpleNamespace(pc=list(s_.pc), calls=[], store={}, ret=nxt, reads=[])
            base = [fm.le(C.S('mem_'), MAXP), fm.le(req, MAXP), fm.le(m, MAXP)]
            for case in lin.cases_of(dom, leaf, base, extra_terms=[req]):
                okc, g = lin.prove(case, [fm.le(nxt, MAXP)])
                if not okc:
                    probs.append('the grown capacity %s carried into the next iteration is not bounded by the request' % nxt)
                    break
        if probs:
            rep.bad('B1s', 'a_vec_setm', '; '.join(probs), loc=loc, key='a_vec_setm: summary')
        else:
            rep.ok('B1s', 'a_vec_setm', 'summary used by its callers holds: on success mem_ >= max(old, requested) and ptr_ is the resized block; on failure nothing changes', loc=loc)
    except Unsupported as e:
        rep.unk('B1s', 'a_vec_setm', str(e))


def run(ctx):
    rep = ctx.rep
    rep.explanation = ('every public function of vec.c / buf.c (and the inline accessors) is abstractly interpreted with the container '
                       'fields and all index/count arguments symbolic over their full unsigned range; 64-bit additions and subtractions '
                       'carry wrap symbols; per path and per wrap assignment the obligations (memory effects, callback arguments and '
                       'returned element pointers inside [0, mem_) elements, num_ <= mem_ at exit) are decided by Fourier-Motzkin '
                       'entailment from the representation invariant assumed at entry; a refuted obligation comes with an integer witness')
    rep.trusted += ['lib/lin.py, lib/fm.py (Fourier-Motzkin)', 'lib/symx.py, lib/alg.py']
    rep.assumptions += ['representation invariant at entry: siz_ >= 1, num_ <= mem_, siz_*mem_ <= PTRDIFF_MAX, the block holds mem_ elements',
                        'documented preconditions: unchecked accessors (at_, top_) get an in-range index; a_*_store receives an array of num elements (num <= PTRDIFF_MAX)',
                        'callbacks do not touch the container',
                        'capacity requests (a_vec_setm / a_vec_setn / the counts that reach them) and element sizes stay within what one object can hold: '
                        'siz_ * request <= PTRDIFF_MAX; beyond that the byte count siz_ * mem handed to the allocator wraps (no overflow test in a_vec_setm / a_buf_setm) '
                        'and the growth loop itself may wrap - such requests can only come from element sizes or counts no program can back with memory and are outside this check', 'NOT decided: contents against an abstract sequence, sortedness, and all paths through '
                        'callback / binary-search / bubble loops (counted per function in the evidence)']
    for kind in ('vec', 'buf'):
        try:
            C = Container(ctx, kind)
        except Exception as e:
            rep.unk('B2', kind, 'unit not readable: %s' % e)
            continue
        fns = []
        for n, f in sorted(C.m.functions.items()):
            if f.error or not n.startswith('a_%s_' % kind) or 'internal' in f.linkage:
                continue
            fns.append(f)
        for n, f in sorted(C.hdr.functions.items()):
            if not f.error and n.startswith('a_%s_' % kind) and n not in C.m.functions:
                fns.append(f)
        todo = []
        for f in fns:
            ctx.rep.functions.add(f.name)
            if not f.params or not f.params[0][0].is_ptr:
                continue       # constructors returning a fresh object (new)
            if f.name in ('a_vec_setm',):
                continue
            todo.append(f)
        byname = {f.name: f for f in todo}

        def one(nm, r_):
            try:
                analyse(ctx, C, byname[nm], r_)
            except Unsupported as e:
                r_.unk('B2', nm, str(e))
        import par
        par.fan_out(rep, [f.name for f in todo], one)
        if kind == 'vec':
            setm_rule(ctx, C, rep)
        sorted_guards(ctx, C, rep)
        import stale
        pidx = stale.field_index(C.m, 'a_%s' % kind, 'ptr_')
        for f in fns:
            if f.name in ('a_vec_setm', 'a_buf_setm') or pidx is None:
                continue
            stale.check(rep, 'B7', f, pidx, {'a_vec_setm', 'a_buf_setm'})
    swap_direction(ctx, rep)
    import wrappers
    wrappers.check(ctx, rep, 'B5w')
    rep.floor('B5w', 4)
    rep.floor('B5', 1)
    rep.floor('B6', 4)
    rep.floor('B9', 6)
    rep.floor('B10', 6)
    rep.floor('B2', 50)
    rep.floor('B11', 12)
    rep.floor('B12', 2)


def sorted_guards(ctx, C, rep):
    """B6: sort / sorted-insert routines skip their comparisons only when at most one element is present"""
    import sortguard, dwarf
    md = dwarf.MD(C.m)
    st = md.structs().get('a_%s' % C.kind)
    numidx = [i for i, m_ in enumerate(st['members']) if m_['name'] == 'num_'][0]
    for suffix in ('sort_fore', 'sort_back'):
        f = C.m.functions.get('a_%s_%s' % (C.kind, suffix))
        if f is None or f.error:
            rep.unk('B6', 'a_%s_%s' % (C.kind, suffix), 'anchor vanished')
            continue
        sortguard.check(rep, 'B6', f, numidx, 1, 'two elements may be out of order')


def swap_direction(ctx, rep):
    """B5: the full-container removal rotates the removed element to the end by a_swap(p, p + siz_, n) on OVERLAPPING ranges;
    that is only a rotation if a_swap exchanges lhs[k] and rhs[k] for k = 0, 1, 2, ... in ascending order"""
    import scev
    from symx import Unsupported as U
    # (1) the call site really overlaps: second argument = first argument + siz_
    sites = 0
    for kind in ('vec', 'buf'):
        m = ctx.module(kind)
        f = m.functions.get('a_%s_remove' % kind)
        if f is None:
            continue
        for i in f.instrs():
            if i.op == 'call' and i.x.get('callee') is not None and i.x['callee'].k == 'global' and i.x['callee'].v == 'a_swap':
                a0, a1 = i.ops[0], i.ops[1]
                d1 = f.defs.get(a1.v) if a1.k == 'reg' else None
                while d1 is not None and d1.op == 'bitcast':
                    d1 = f.defs.get(d1.ops[0].v) if d1.ops[0].k == 'reg' else None
                d0 = f.defs.get(a0.v) if a0.k == 'reg' else None
                while d0 is not None and d0.op == 'bitcast':
                    d0 = f.defs.get(d0.ops[0].v) if d0.ops[0].k == 'reg' else None
                if d1 is not None and d1.op == 'gep' and d0 is not None and d1.ops[0].k == 'reg' and d1.ops[0].v == d0.res:
                    sites += 1
    mod = ctx.module('a', passes='sroa,mem2reg,instsimplify,simplifycfg,loop-simplify,lcssa')
    fn = mod.functions.get('a_swap')
    if fn is None or fn.error:
        rep.unk('B5', 'a_swap', 'anchor vanished')
        return
    rep.functions.add('a_swap')
    if not sites:
        rep.ok('B5', 'a_swap', 'no overlapping use of a_swap in the removal routines: its direction does not matter')
        return
    try:
        a = scev.Aff(fn)
        tree = a.emit()
    except U as e:
        rep.unk('B5', 'a_swap', 'outside the affine fragment: %s' % e)
        return
    loops = [t for t in tree if t[0] == 'loop']
    ok = False
    why = 'not a single loop of two exchanging stores'
    shape = not (len(loops) == 1 and len([t for t in loops[0][3] if t[0] == 'store']) == 2 and loops[0][2] is not None and
                 len([t for t in tree if t[0] in ('store', 'call', 'if')]) == 0)
    if shape:
        # unrolled, split or otherwise restructured: the single-exchange template does not apply
        rep.unk('B5', 'a_swap', 'not a single loop of two exchanging stores: the order of the exchanges is not decided for this shape', loc=fn.loc(fn.entry.term))
        return
    if len(loops) == 1:
        cnt, T, body = loops[0][1], loops[0][2], loops[0][3]
        st = [t for t in body if t[0] == 'store']
        if len(st) == 2 and T is not None:
            (s1, s2) = st
            k1, k2 = sp.expand(s1[2]), sp.expand(s2[2])
            siz = a.params.get(fn.params[2][1])
            exch = s1[3].func == scev.ld and s2[3].func == scev.ld and s1[3].args[0] == s2[1] and s2[3].args[0] == s1[1] and \
                sp.expand(s1[3].args[1] - k2) == 0 and sp.expand(s2[3].args[1] - k1) == 0 and s1[3].args[2] == s2[3].args[2]
            if not exch:
                why = 'loop body is not an exchange of lhs[k] and rhs[k] read before either is written'
            elif sp.expand(k1 - cnt) != 0 or sp.expand(k2 - cnt) != 0:
                why = 'the exchange walks the index %s (step %d of the loop), not k = 0, 1, 2, ...: on the overlapping ranges of a full-container removal this rotates the wrong way' % (k1, 0)
            elif siz is not None and not a.prove_eq(T, siz):
                why = 'exchanges %s bytes, not siz' % T
            else:
                ok = True
    if ok:
        rep.ok('B5', 'a_swap', 'exchanges lhs[k], rhs[k] for k = 0..siz-1 in ascending order (%d overlapping call site(s) in the removal routines rely on it)' % sites,
               loc=fn.loc(fn.entry.term))
    else:
        rep.bad('B5', 'a_swap', why, loc=fn.loc(fn.entry.term), key='a_swap: ascending exchange')
