"""C13 - membership functions, fuzzy operators, gain scheduling (DESIGN 4 C13).
F1 dispatch tables (a_mf, a_pid_fuzzy_mf, a_pid_fuzzy_opr), F2 piecewise shape / smooth ranges, F3 operators equal
their documented formulas, F4 scratch-buffer layout and sizing, F5 defuzzifier loops."""
import json, os, re
import sympy as sp
import symx, alg, looptx, dwarf, llir, irx, effects
from symx import Ptr, Unsupported, TOP, FnPtr

LEVEL = 'other'
SPEC = json.load(open(os.path.join(os.path.dirname(__file__), '..', 'specs', 'mf_shapes.json')))


def lookup_in(mods):
    def lk(name):
        for m in mods:
            f = m.functions.get(name)
            if f is not None and not f.error:
                return f
        return None
    return lk


def enumerators(ctx, header, names):
    """values of enumerators, constant-folded by clang in a probe unit (one global per name)"""
    probe = ctx.scr.path('c13_enum_%s.c' % re.sub(r'\W', '_', header))
    open(probe, 'w').write('#include "%s"\n' % header + ''.join('const int verif_e_%s = %s;\n' % (n, n) for n in names))
    ll = irx.compile_ir(ctx.scr, probe, ctx.cfg('all', 8), 'enum')
    pm = llir.parse_module(ll)
    out = {}
    for n in names:
        g = pm.globals.get('verif_e_%s' % n, '')
        m = re.search(r'constant i32 (-?\d+)', g)
        if m:
            out[n] = int(m.group(1))
    return out


class CallDom(alg.Alg):
    """calls to the membership functions / operators stay uninterpreted terms"""

    def opaque_call(self, name, args, ins, interp, st):
        if name.startswith('a_mf_') or name.startswith('a_fuzzy_'):
            return sp.Function(name)(*args)
        return NotImplemented


# ---------------------------------------------------------------- F2 tables (parameters ordered through positive gaps)
def P(n):
    return sp.Symbol(n, positive=True)


X = sp.Symbol('x', real=True)
A = sp.Symbol('a', real=True)
p1, p2, p3 = P('p1'), P('p2'), P('p3')
B = A + p1
C = B + p2
D = C + p3
oo = sp.oo


def s_pieces(a, b):
    m = (a + b) / 2
    return [(-oo, a, sp.Integer(0), 'flat'), (a, m, 2 * ((X - a) / (b - a)) ** 2, 'rise'), (m, b, 1 - 2 * ((b - X) / (b - a)) ** 2, 'rise'), (b, oo, sp.Integer(1), 'flat')]


def z_pieces(a, b):
    m = (a + b) / 2
    return [(-oo, a, sp.Integer(1), 'flat'), (a, m, 1 - 2 * ((X - a) / (b - a)) ** 2, 'fall'), (m, b, 2 * ((b - X) / (b - a)) ** 2, 'fall'), (b, oo, sp.Integer(0), 'flat')]


S1, S2 = P('sigma1'), P('sigma2')
TABLES = {
    'a_mf_trap': (['a', 'b', 'c', 'd'], [A, B, C, D], [(-oo, A, 0, 'flat'), (A, B, (X - A) / (B - A), 'rise'), (B, C, 1, 'flat'), (C, D, (D - X) / (D - C), 'fall'), (D, oo, 0, 'flat')]),
    'a_mf_tri': (['a', 'b', 'c'], [A, B, C], [(-oo, A, 0, 'flat'), (A, B, (X - A) / (B - A), 'rise'), (B, C, (C - X) / (C - B), 'fall'), (C, oo, 0, 'flat')]),
    'a_mf_lins': (['a', 'b'], [A, B], [(-oo, A, 0, 'flat'), (A, B, (X - A) / (B - A), 'rise'), (B, oo, 1, 'flat')]),
    'a_mf_linz': (['a', 'b'], [A, B], [(-oo, A, 1, 'flat'), (A, B, (B - X) / (B - A), 'fall'), (B, oo, 0, 'flat')]),
    'a_mf_s': (['a', 'b'], [A, B], s_pieces(A, B)),
    'a_mf_z': (['a', 'b'], [A, B], z_pieces(A, B)),
    'a_mf_pi': (['a', 'b', 'c', 'd'], [A, B, C, D], s_pieces(A, B)[:3] + [(B, C, sp.Integer(1), 'flat')] + z_pieces(C, D)[1:]),
    'a_mf_gauss2': (['sigma1', 'c1', 'sigma2', 'c2'], [S1, A, S2, B], [(-oo, A, sp.exp(-((X - A) / S1) ** 2 / 2), 'rise'), (A, B, sp.Integer(1), 'flat'),
                                                                   (B, oo, sp.exp(-((X - B) / S2) ** 2 / 2), 'fall')]),
}


def sign_of(e):
    """sign of an expression in positive gap symbols: +1, -1, 0 or None"""
    e = sp.simplify(sp.sympify(e))
    if e == 0:
        return 0
    if e.is_positive:
        return 1
    if e.is_negative:
        return -1
    ee = sp.expand(e)
    if ee.is_positive:
        return 1
    if ee.is_negative:
        return -1
    t = sp.factor(sp.together(e))
    if t.is_positive:
        return 1
    if t.is_negative:
        return -1
    return None


def holds_at(c, xval, closed=False):
    """truth of comparison c (relating x-dependent sides) at x = xval; closed: treat equality as satisfied"""
    d = sp.sympify(c.a - c.b).subs(X, xval)
    s = sign_of(d)
    if s is None:
        return None
    r = c.rel()
    if closed and s == 0:
        return True
    return {'<': s < 0, '<=': s <= 0, '>': s > 0, '>=': s >= 0, '==': s == 0, '!=': s != 0}[r]


def holds_tree(c, xval, closed=False):
    """holds_at for conjunctions / disjunctions of comparisons (short-circuit tests merged into one branch)"""
    if isinstance(c, alg.BoolOp):
        vals = [holds_tree(a, xval, closed) for a in c.args]
        if c.op == 'and':
            return False if any(v is False for v in vals) else (None if any(v is None for v in vals) else True)
        if c.op == 'or':
            return True if any(v is True for v in vals) else (None if any(v is None for v in vals) else False)
        raise Unsupported('path condition %r' % (c,))
    if not isinstance(c, alg.Cond):
        raise Unsupported('path condition %r' % (c,))
    return holds_at(c, xval, closed)


def cond_atoms(c):
    if isinstance(c, alg.BoolOp):
        out = []
        for a in c.args:
            out += cond_atoms(a)
        return out
    return [c] if isinstance(c, alg.Cond) else []


def leaf_at(leaves, xval, closed=False):
    out = []
    for lf in leaves:
        ok = True
        for c in lf.pc:
            h = holds_tree(c, xval, closed)
            if h is None:
                raise Unsupported('cannot decide %s at x=%s under the parameter ordering' % (c, xval))
            if not h:
                ok = False
                break
        if ok:
            out.append(lf)
    return out


def thresholds(leaves):
    ts = []
    for lf in leaves:
        for c in [a for c0 in lf.pc for a in cond_atoms(c0)]:
            if isinstance(c, alg.Cond):
                a_, b_ = sp.sympify(c.a), sp.sympify(c.b)
                # solve a - b == 0 for x (linear)
                d = sp.expand(a_ - b_)
                if not d.has(X):
                    continue
                sol = sp.solve(d, X)
                if len(sol) != 1:
                    raise Unsupported('non-linear breakpoint %s' % c)
                if not any(alg.is_zero(sol[0] - t) for t in ts):
                    ts.append(sol[0])
    return ts


# the piecewise-linear families accept zero widths (a <= b <= c <= d): shoulders and steps.  Core points per family.
CORES = {
    'a_mf_trap': ([p1, p2, p3], [('b', B), ('c', C)]),
    'a_mf_tri': ([p1, p2], [('b', B)]),
    'a_mf_lins': ([p1], [('b', B)]),
    'a_mf_linz': ([p1], [('a', A)]),
}


def core_value(rep, fn, leaves, loc):
    """F2c: "exactly one on its core" also when neighbouring parameters coincide (left / right shoulder, step): for every subset of
    widths set to zero the path taken at each core point is selected by evaluating the path conditions exactly, and its value there
    must be 1 (a path that divides by the vanished width is a violation, not a value)."""
    import itertools
    if fn.name not in CORES:
        return
    gaps, cores = CORES[fn.name]
    probs, n = [], 0
    for k in range(1, len(gaps) + 1):
        for zero in itertools.combinations(gaps, k):
            sub = {g: 0 for g in zero}
            for cname, cval in cores:
                xv = sp.sympify(cval).subs(sub)
                taken = []
                for lf in leaves:
                    ok = True
                    def ev(c):
                        if isinstance(c, alg.BoolOp):
                            vals = [ev(a) for a in c.args]
                            return all(vals) if c.op == 'and' else any(vals)
                        d = sp.simplify((sp.sympify(c.a) - sp.sympify(c.b)).subs(X, cval).subs(sub))
                        sg = sign_of(d)
                        if sg is None:
                            raise Unsupported('cannot decide %s at the core point %s with %s = 0' % (c, cname, ', '.join(map(str, zero))))
                        return {'<': sg < 0, '<=': sg <= 0, '>': sg > 0, '>=': sg >= 0, '==': sg == 0, '!=': sg != 0}[c.rel()]
                    for c in lf.pc:
                        if not ev(c):
                            ok = False
                            break
                    if ok:
                        taken.append(lf)
                n += 1
                what = 'x = %s with %s' % (cname, ' and '.join('%s = 0' % g for g in zero))
                if len(taken) != 1:
                    probs.append('%s: %d paths' % (what, len(taken)))
                    continue
                num, den = sp.fraction(sp.together(sp.sympify(taken[0].ret)))
                dv = sp.simplify(den.subs(X, cval).subs(sub))
                if dv == 0:
                    probs.append('%s: the value is %s, a division by the vanished width' % (what, taken[0].ret))
                    continue
                v = sp.simplify(sp.sympify(taken[0].ret).subs(X, cval).subs(sub))
                if v != 1:
                    probs.append('%s: the value on the core is %s, expected 1' % (what, v))
    names = {p1: 'b - a', p2: 'c - b', p3: 'd - c'}
    if probs:
        txt = '; '.join(probs[:3])
        for g, nm in names.items():
            txt = txt.replace('%s = 0' % g, '%s = 0' % nm)
        rep.bad('F2c', fn.name, txt, loc=loc, key='%s: core value with coinciding parameters' % fn.name)
    else:
        rep.ok('F2c', fn.name, 'value 1 at every core point for every subset of zero widths (%d cases)' % n, loc=loc, sample={'fn': fn.name, 'cases': n})


def piecewise(rep, fn, lk, pnames, pvals, table):
    dom = alg.Alg()
    dom.syms['x'] = X
    it = symx.Interp(dom, lk)
    leaves = it.run(fn, [X] + list(pvals))
    loc = fn.loc(fn.entry.instrs[0])
    name = fn.name
    # thresholds of code and table, sorted under the ordering
    ts = thresholds(leaves)
    for lo, hi, e, kind in table:
        for t in (lo, hi):
            if t not in (oo, -oo) and not any(alg.is_zero(t - u) for u in ts):
                ts.append(t)
    import functools

    def cmpf(u, v):
        s = sign_of(u - v)
        if s is None:
            raise Unsupported('cannot order breakpoints %s and %s' % (u, v))
        return s
    ts = sorted(ts, key=functools.cmp_to_key(cmpf))
    cells = []
    for i in range(len(ts) + 1):
        lo = ts[i - 1] if i > 0 else -oo
        hi = ts[i] if i < len(ts) else oo
        if lo == -oo:
            mid = hi - 1
        elif hi == oo:
            mid = lo + 1
        else:
            mid = (lo + hi) / 2
        cells.append((lo, hi, mid))
    probs = []
    nid = 0
    for lo, hi, mid in cells:
        ls = leaf_at(leaves, mid)
        if len(ls) != 1:
            probs.append('%d paths cover x in (%s, %s)' % (len(ls), lo, hi))
            continue
        tp = [t for t in table if (t[0] == -oo or sign_of(mid - t[0]) > 0) and (t[1] == oo or sign_of(t[1] - mid) > 0)]
        if len(tp) != 1:
            raise Unsupported('table lookup failed at %s' % mid)
        want, kind = sp.sympify(tp[0][2]), tp[0][3]
        got = sp.sympify(ls[0].ret)
        if not alg.is_zero(sp.simplify(got - want)):
            probs.append('on (%s, %s) the value is %s, documented %s' % (lo, hi, got, want))
            continue
        nid += 1
        # flank direction from the code's own expression
        der = sp.diff(got, X)
        sg = None
        for sub in ((lo + P('u')) if lo != -oo else None, (hi - P('u')) if hi != oo else None):
            if sub is None:
                continue
            s = sign_of(der.subs(X, sub))
            if s is not None:
                sg = s
                break
        if der == 0:
            sg = 0
        wantsg = {'flat': 0, 'rise': 1, 'fall': -1}[kind]
        if sg is None or (sg != wantsg and not (sg == 0 and kind != 'flat' and False)):
            probs.append('on (%s, %s) the slope sign is %s, expected %s' % (lo, hi, sg, kind))
    # continuity: every breakpoint, all closed-region leaves agree
    ncont = 0
    for k_, t in enumerate(ts):
        # the pieces that meet at t: the one valid just left of it, the one valid just right of it and the one valid at t itself
        # (membership decided at the midpoints of the neighbouring elementary intervals - exact also for disjunctive path conditions)
        ls = []
        for xv in (cells[k_][2], t, cells[k_ + 1][2]):
            for l in leaf_at(leaves, xv):
                if not any(l is m_ for m_ in ls):
                    ls.append(l)
        vals = [sp.simplify(sp.sympify(l.ret).subs(X, t)) for l in ls]
        if len(ls) < 2:
            probs.append('breakpoint %s is covered by %d closed regions' % (t, len(ls)))
            continue
        if any(not alg.is_zero(v - vals[0]) for v in vals[1:]):
            probs.append('discontinuous at x = %s: values %s' % (t, vals))
        else:
            ncont += 1
    core_value(rep, fn, leaves, loc)
    if probs:
        rep.bad('F2', name, '; '.join(probs[:3]), loc=loc, key='%s: shape' % name)
    else:
        rep.ok('F2', name, '%d elementary intervals equal the documented pieces with the documented slope sign; continuous at all %d breakpoints; core = 1; hence range [0,1]'
               % (nid, ncont), loc=loc, sample={'fn': name, 'breakpoints': [str(t) for t in ts], 'paths': len(leaves)})
    return leaves, ts


def nonneg(e):
    e = sp.sympify(e)
    if e.is_number:
        return bool(e >= 0)
    if isinstance(e, sp.Abs):
        return True
    if isinstance(e, sp.Pow):
        if e.exp.is_Integer and e.exp % 2 == 0:
            return True
        if isinstance(e.base, sp.Abs) or nonneg_strict_base(e.base):
            return True
        return False
    if isinstance(e, sp.exp):
        return True
    if isinstance(e, sp.Mul):
        neg = 0
        for a in e.args:
            if a.is_number and a < 0:
                neg += 1
            elif not nonneg(a):
                return False
        return neg % 2 == 0
    if isinstance(e, sp.Add):
        return all(nonneg(a) for a in e.args)
    return bool(e.is_nonnegative)


def nonneg_strict_base(b):
    return isinstance(b, sp.Abs) or bool(sp.sympify(b).is_nonnegative)


def smooth(ctx, lk):
    rep = ctx.rep
    x, a, b, c = sp.symbols('x a b c', real=True)
    sigma = sp.Symbol('sigma', real=True, nonzero=True)
    a1, c1, a2, c2 = sp.symbols('a1 c1 a2 c2', real=True)
    sig = lambda x_, a_, c_: 1 / (1 + sp.exp(-a_ * (x_ - c_)))
    specs = {
        'a_mf_gauss': ([x, sigma, c], sp.exp(-((x - c) / sigma) ** 2 / 2), 'exp(-S)'),
        'a_mf_gbell': ([x, a, b, c], 1 / (1 + sp.Abs((x - c) / a) ** (2 * b)), '1/(1+S)'),
        'a_mf_sig': ([x, a, c], sig(x, a, c), '1/(1+E)'),
        'a_mf_dsig': ([x, a1, c1, a2, c2], sig(x, a1, c1) - sig(x, a2, c2), None),
        'a_mf_psig': ([x, a1, c1, a2, c2], sig(x, a1, c1) * sig(x, a2, c2), 'prod'),
    }
    for name, (args, want, form) in specs.items():
        fn = ctx.fn('mf', name)
        if fn is None:
            rep.unk('F2s', name, 'anchor vanished')
            continue
        loc = fn.loc(fn.entry.instrs[0])
        try:
            dom = alg.Alg()
            it = symx.Interp(dom, lk)
            lv = it.run(fn, args)
            if len(lv) != 1:
                raise Unsupported('%d paths' % len(lv))
            got = sp.sympify(lv[0].ret)
            if not alg.is_zero(sp.simplify(got - want)):
                rep.bad('F2s', name, 'computes %s, documented %s' % (got, want), loc=loc, key='%s: formula' % name)
                continue
            ok = None
            if form == 'exp(-S)':
                ok = isinstance(got, sp.exp) and nonneg(-got.args[0])
            elif form == '1/(1+S)':
                den = 1 / got
                ok = nonneg(sp.expand(den - 1)) or nonneg(den - 1)
            elif form == '1/(1+E)':
                den = 1 / got
                ok = isinstance(sp.simplify(den - 1), sp.exp) or nonneg(den - 1)
            elif form == 'prod':
                ok = all(nonneg((1 / f) - 1) for f in sp.Mul.make_args(got))
            if form is None:
                rep.ok('F2s', name, 'equals the documented difference of sigmoids (range not claimed, as the property excludes it)', loc=loc)
            elif ok:
                rep.ok('F2s', name, 'equals the documented formula; has the form %s with S >= 0, hence a value in (0,1]' % form, loc=loc,
                       sample={'fn': name, 'value': str(got)})
            else:
                rep.unk('F2s', name, 'formula matches but the range form %s could not be established on %s' % (form, got), loc=loc)
        except Unsupported as e:
            rep.unk('F2s', name, str(e))


# ---------------------------------------------------------------- F3 operators
def resolve_minmax(expr, pc):
    """replace Min/Max by the operand selected under the path condition"""
    expr = sp.sympify(expr)
    for node in list(expr.atoms(sp.Min, sp.Max)):
        u, v = node.args
        sel = None
        for c in pc:
            if not isinstance(c, alg.Cond):
                continue
            r = c.rel()
            a_, b_ = sp.sympify(c.a), sp.sympify(c.b)
            for (uu, vv) in ((u, v), (v, u)):
                if alg.is_zero(a_ - uu) and alg.is_zero(b_ - vv):
                    # relation uu r vv
                    if r in ('<', '<='):
                        small, big = uu, vv
                    elif r in ('>', '>='):
                        small, big = vv, uu
                    else:
                        continue
                    sel = small if isinstance(node, sp.Min) else big
        if sel is None:
            return None
        expr = expr.subs(node, sel)
    return expr


def operators(ctx, lk):
    rep = ctx.rep
    a, b, g = sp.symbols('a b gamma', real=True)
    forms = {
        'a_fuzzy_not': ([a], 1 - a),
        'a_fuzzy_cap': ([a, b], sp.Min(a, b)), 'a_fuzzy_cap_algebra': ([a, b], a * b), 'a_fuzzy_cap_bounded': ([a, b], sp.Max(a + b - 1, 0)),
        'a_fuzzy_cup': ([a, b], sp.Max(a, b)), 'a_fuzzy_cup_algebra': ([a, b], a + b - a * b), 'a_fuzzy_cup_bounded': ([a, b], sp.Min(a + b, 1)),
        'a_fuzzy_equ': ([a, b], sp.sqrt(a * b) * sp.sqrt(1 - (1 - a) * (1 - b))),
        'a_fuzzy_equ_': ([g, a, b], (a * b) ** (1 - g) * (1 - (1 - a) * (1 - b)) ** g),
    }
    for name, (args, want) in forms.items():
        fn = ctx.fn('fuzzy', name)
        if fn is None:
            rep.unk('F3', name, 'anchor vanished')
            continue
        loc = fn.loc(fn.entry.instrs[0])
        try:
            dom = alg.Alg()
            it = symx.Interp(dom, lk)
            lv = it.run(fn, args)
            probs = []
            for lf in lv:
                # the property speaks about degrees (and the compensation weight of a_fuzzy_equ_) in [0,1]: a path taken only for a
                # value outside that interval (a clamp of such a value, say) is outside it
                outside = False
                for c_ in lf.pc:
                    if isinstance(c_, alg.Cond) and c_.kind == 'fcmp':
                        for v_ in args:
                            ca, cb, r_ = sp.sympify(c_.a), sp.sympify(c_.b), c_.rel()
                            if ca == v_ and cb.is_number and ((r_ in ('<',) and cb <= 0) or (r_ in ('>',) and cb >= 1)):
                                outside = True
                            if cb == v_ and ca.is_number and ((r_ in ('>',) and ca <= 0) or (r_ in ('<',) and ca >= 1)):
                                outside = True
                if outside:
                    continue
                w = resolve_minmax(want, lf.pc)
                if w is None:
                    raise Unsupported('path %s does not decide the min/max of the documented formula' % (lf.pc,))
                if not alg.is_zero(sp.simplify(sp.sympify(lf.ret) - w)):
                    probs.append('returns %s under %s, documented %s' % (lf.ret, lf.pc, want))
            if probs:
                rep.bad('F3', name, '; '.join(probs[:2]), loc=loc, key='%s: formula' % name)
            else:
                rep.ok('F3', name, 'equals %s on all %d paths' % (want, len(lv)), loc=loc, sample={'fn': name, 'paths': len(lv)})
        except Unsupported as e:
            rep.unk('F3', name, str(e))


# ---------------------------------------------------------------- F3m operators on degrees of very different size
def operator_classes(ctx, mod):
    """F3m: F3 shows that every operator equals its documented formula over the reals.  Bounds and boundary cases ("bounded by
    min / max as their class requires and reduce to the boundary cases at 0 and 1") must also survive rounding: a formula equal over the
    reals (1 - (1-a)(1-b) for a + b - ab) loses a degree below 2^-53 next to the constant 1.  The straight-line bodies are interpreted
    over magnitude classes of the two degrees (lib/mag.py; exact 0 and exact 1 included); a class on which the result is definitely
    outside [0, min(a,b)] (intersections) or [max(a,b), 1] (unions), or differs from the boundary value, BY MORE THAN 2^-40 is a
    violation.  (The first version compared exactly and reported the unchanged tree: a_fuzzy_cap_bounded(1e-20, 1) is 0, not 1e-20,
    because 1e-20 + 1 rounds to 1 - replayed in a scratch binary.  An absolute deviation below one ulp of 1 is what any floating-point
    reading of "reduce to the boundary cases" tolerates, so the rule asked for more than the property; hence the tolerance.  The seeded
    rewrite of the algebraic sum as 1 - (1-a)(1-b) deviates by less than 2^-53 as well and is likewise not reported.)"""
    import itertools
    import mag
    rep = ctx.rep
    E = (-1074, -600, -200, -70, -30, -2)
    if ctx.tier == 'thorough':
        E = tuple(sorted(set(range(-1074, -1, 16)) | set(E)))
    degs = [mag.Z] + [mag.binade(e) for e in E] + [('x', 1.0)]
    KIND = {'a_fuzzy_cap': 'cap', 'a_fuzzy_cap_algebra': 'cap', 'a_fuzzy_cap_bounded': 'cap',
            'a_fuzzy_cup': 'cup', 'a_fuzzy_cup_algebra': 'cup', 'a_fuzzy_cup_bounded': 'cup'}

    TOL = 2.0 ** -40

    def below(r, v):      # definitely r < v by more than the tolerance
        br, bv = mag.bounds(r), mag.bounds(v)
        return br is not None and bv is not None and br[1] + TOL < bv[0]

    for name, kind in sorted(KIND.items()):
        fn = mod.functions.get(name)
        if fn is None or fn.error or not fn.blocks:
            rep.unk('F3m', name, 'anchor vanished')
            continue
        rep.functions.add(name)
        loc = fn.loc(fn.entry.instrs[0])
        if len(fn.params) != 2 or mag.run(fn, [mag.binade(-1), mag.binade(-1)]) is None:
            rep.unk('F3m', name, 'not straight-line arithmetic over the two degrees', loc=loc)
            continue
        worst, total, decided = [], 0, 0
        one = ('x', 1.0)
        for a, b in itertools.product(degs, degs):
            r = mag.run(fn, [a, b])
            total += 1
            if r == mag.TOP:
                continue
            decided += 1
            why = None
            if r == mag.NAN or r[0] == 'inf' or mag.sign(r) < 0 or below(one, r):
                why = 'not a degree'
            elif kind == 'cap':
                if below(a, r) or below(b, r):
                    why = 'above min(a, b)'
                elif mag.Z in (a, b) and below(mag.Z, r):
                    why = 'cap(a, 0) is not 0'
                elif one in (a, b) and (below(r, a if b == one else b) or below(a if b == one else b, r)):
                    why = 'cap(a, 1) is not a'
            else:
                if below(r, a) or below(r, b):
                    why = 'below max(a, b)'
                elif one in (a, b) and below(r, one):
                    why = 'cup(a, 1) is not 1'
                elif mag.Z in (a, b) and (below(r, a if b == mag.Z else b) or below(a if b == mag.Z else b, r)):
                    why = 'cup(a, 0) is not a'
            if why:
                worst.append((a, b, r, why))
        if worst:
            a, b, r, why = worst[0]
            rep.bad('F3m', name, 'for every %s and %s the result is %s: %s (%d of %d magnitude classes; deviation above 2^-40)' % (
                mag.show_class('a', a), mag.show_class('b', b), mag.show(r), why, len(worst), total), loc=loc, key='%s: rounding' % name)
        else:
            rep.ok('F3m', name, 'bounds (%s) and boundary cases at 0 and 1 hold up to 2^-40 on every decided magnitude class of the two degrees (%d of %d)' % (
                '0 <= r <= min' if kind == 'cap' else 'max <= r <= 1', decided, total), loc=loc, sample={'fn': name, 'classes': total, 'decided': decided})
    rep.floor('F3m', 6)


# ---------------------------------------------------------------- F2m the smooth families saturate
def saturation(ctx, mod):
    """F2m: "for every input ... a value in [0,1]" includes arguments so far out that an intermediate result overflows or underflows.
    The straight-line bodies of the smooth families are interpreted over sign / magnitude classes (lib/mag.py); a class of arguments
    whose result is definitely NaN, infinite, negative or >= 2 is a violation for every argument tuple of the class."""
    import itertools
    import mag
    rep = ctx.rep
    lk = lambda n: mod.functions.get(n)
    E7 = (-1074, -600, -20, 0, 20, 600, 1023)
    E5 = (-1074, -20, 0, 20, 1023)
    if ctx.tier == 'thorough':
        E5, E7 = E7, (-1074, -1022, -600, -100, -20, -1, 0, 1, 20, 100, 600, 1022, 1023)
    def doms(E):
        nz = [mag.binade(e, s_) for e in E for s_ in (1, -1)]
        return dict(any=nz + [mag.Z], nz=nz, pos=[mag.binade(e) for e in E])
    d7, d5 = doms(E7), doms(E5)
    SPEC = {'a_mf_gauss': (d7, ('any', 'nz', 'any')), 'a_mf_gbell': (d7, ('any', 'nz', 'pos', 'any')), 'a_mf_sig': (d7, ('any', 'nz', 'any')),
            'a_mf_psig': (d5, ('any', 'nz', 'any', 'nz', 'any'))}
    for name, (d, kinds) in SPEC.items():
        fn = ctx.fn('mf', name)
        if fn is None:
            rep.unk('F2m', name, 'anchor vanished')
            continue
        loc = fn.loc(fn.entry.instrs[0])
        if len(fn.params) != len(kinds) or mag.run(fn, [mag.binade(0)] * len(kinds), lk) is None:
            rep.unk('F2m', name, 'not straight-line arithmetic over its %d arguments' % len(kinds), loc=loc)
            continue
        worst, decided, total = [], 0, 0
        for args in itertools.product(*[d[k] for k in kinds]):
            r = mag.run(fn, list(args), lk)
            total += 1
            if mag.out_of_unit_interval(r):
                worst.append((args, r))
            if r != mag.TOP:
                decided += 1
        if worst:
            args, r = worst[0]
            rep.bad('F2m', name, 'for every %s the result is %s, not a value of [0,1] (%d of %d sign / magnitude classes)' % (
                ', '.join(mag.show_class(pn[1], v) for pn, v in zip(fn.params, args)), mag.show(r), len(worst), total), loc=loc, key='%s: saturation' % name)
        else:
            rep.ok('F2m', name, 'no sign / magnitude class of the arguments yields NaN, an infinity, a negative value or a value >= 2 '
                   '(%d classes, %d decided; overflow and underflow of intermediate results included)' % (total, decided), loc=loc,
                   sample={'fn': name, 'classes': total, 'decided': decided})


# ---------------------------------------------------------------- F1 dispatch
def dispatch(ctx):
    rep = ctx.rep
    disp = {k: v for k, v in SPEC['dispatch'].items() if k.startswith('A_MF_')}
    try:
        en = enumerators(ctx, 'a/mf.h', sorted(disp))
    except irx.ToolError as e:
        rep.unk('F1', 'a_mf', 'enumerator probe does not compile: %s' % str(e)[-300:])
        return
    fn = ctx.fn('mf', 'a_mf')
    if fn is None:
        rep.unk('F1', 'a_mf', 'anchor vanished')
    else:
        loc = fn.loc(fn.entry.instrs[0])
        x = sp.Symbol('x', real=True)
        for E, (target, k) in sorted(disp.items()):
            if E not in en:
                rep.unk('F1', 'a_mf[%s]' % E, 'enumerator vanished')
                continue
            try:
                dom = CallDom()
                it = symx.Interp(dom, lambda n: None)
                lv = it.run(fn, [en[E], x, Ptr('a', 0)])
                if len(lv) != 1:
                    raise Unsupported('%d paths' % len(lv))
                got = lv[0].ret
                if target is None:
                    ok = got == 0
                    want = 0
                else:
                    want = sp.Function(target)(x, *[dom.sym('a[%d]' % (8 * i), real=True) for i in range(k)])
                    ok = got == want
                if ok:
                    rep.ok('F1', 'a_mf[%s]' % E, 'dispatches to %s' % want, loc=loc, sample={'case': E, 'call': str(want)})
                else:
                    rep.bad('F1', 'a_mf[%s]' % E, 'returns %s, expected %s' % (got, want), loc=loc, key='a_mf: case %s' % E)
            except Unsupported as e:
                rep.unk('F1', 'a_mf[%s]' % E, str(e))
    # ---- a_pid_fuzzy_mf: one loop iteration with a symbolic table
    fn = ctx.fn('pid_fuzzy', 'a_pid_fuzzy_mf')
    if fn is None:
        rep.unk('F1', 'a_pid_fuzzy_mf', 'anchor vanished')
    else:
        loc = fn.loc(fn.entry.instrs[0])
        try:
            dom = CallDom()
            x = dom.sym('x', real=True)
            n = dom.sym('n', integer=True, nonnegative=True)
            roles = {}

            def bind(ph, init):
                if ph.ty.is_ptr and isinstance(init, Ptr):
                    roles[init.base] = ph.res
                    return Ptr(init.base, dom.sym('o_' + init.base, integer=True))
                if 'i' not in roles and dom.concrete(init) == 0:
                    roles['i'] = ph.res
                    return dom.sym('i', integer=True, nonnegative=True)
                roles['cnt'] = ph.res
                return dom.sym('cnt', integer=True, nonnegative=True)
            tx = looptx.transformer(fn, lambda nm: None, [x, n, Ptr('tab', 0), Ptr('idx', 0), Ptr('val', 0)], dom, bind)
            oa = tx.sym[roles['tab']].off
            seen = {}
            probs = []
            eps_seen = False
            for s1, nv in tx.backs:
                # which case?
                case = None
                for c in s1.pc:
                    if isinstance(c, alg.Cond) and c.rel() == '==' and sp.sympify(c.b).is_Integer and sp.sympify(c.a).has(sp.Function('trunc')):
                        case = int(c.b)
                if case is None:
                    continue
                E = [k for k, v in en.items() if v == case and k.startswith('A_MF_')]
                if not E or E[0] not in disp:
                    probs.append('case %d is no membership enumerator' % case)
                    continue
                E = E[0]
                target, k = disp[E]
                calls = [c for c in s1.calls]
                # the call's term appears in the value stored / compared: find the Function atoms on the path
                terms = set()
                for c in s1.pc:
                    if isinstance(c, alg.Cond):
                        terms |= sp.sympify(c.a).atoms(sp.Function) | sp.sympify(c.b).atoms(sp.Function)
                terms = [t for t in terms if t.func.__name__.startswith('a_mf_')]
                want = sp.Function(target)(x, *[dom.sym('tab[%s]' % dom.off_key(oa + 8 * (1 + j)), real=True) for j in range(k)])
                if not terms or any(t != want for t in terms):
                    probs.append('%s calls %s, expected %s' % (E, terms, want))
                na = nv[roles['tab']]
                if not (isinstance(na, Ptr) and alg.is_zero(sp.sympify(na.off) - oa - 8 * (1 + k))):
                    probs.append('%s advances the parameter cursor by %s bytes, expected %d' % (E, sp.expand(sp.sympify(na.off) - oa), 8 * (1 + k)))
                if not alg.is_zero(nv[roles['i']] - tx.sym[roles['i']] - 1):
                    probs.append('%s: set index not advanced by one' % E)
                # recording: either nothing, or idx/val/counter advance together
                dc = sp.expand(nv[roles['cnt']] - tx.sym[roles['cnt']])
                if 'idx' in roles and 'val' in roles:
                    oi, ov = tx.sym[roles['idx']].off, tx.sym[roles['val']].off
                    di = sp.expand(sp.sympify(nv[roles['idx']].off) - oi)
                    dv = sp.expand(sp.sympify(nv[roles['val']].off) - ov)
                else:
                    # the cursors are not walked: the slots are addressed through the counter (idx[counter], val[counter])
                    oi, ov = 4 * tx.sym[roles['cnt']], 8 * tx.sym[roles['cnt']]
                    di, dv = 4 * dc, 8 * dc
                if (di, dv, dc) == (0, 0, 0):
                    pass
                elif (di, dv, dc) == (4, 8, 1):
                    eps_seen = True
                    # activity threshold: a set counts as active only above a positive constant large enough that products of two
                    # active degrees cannot underflow to 0 (otherwise sum(mat) can be 0 and the gains become 0*inf = NaN)
                    thr = [sp.sympify(c.b) for c in s1.pc if isinstance(c, alg.Cond) and c.rel() == '>' and sp.sympify(c.a) == want and sp.sympify(c.b).is_number]
                    # the same test with the constant on the left: eps < degree
                    thr += [sp.sympify(c.a) for c in s1.pc if isinstance(c, alg.Cond) and c.rel() == '<' and sp.sympify(c.b) == want and sp.sympify(c.a).is_number]
                    if not thr:
                        probs.append('%s: a set is recorded as active without a test degree > constant' % E)
                    elif not all(t > sp.Float('1.5e-154') for t in thr):
                        probs.append('%s: activity threshold is %s; it must be a positive constant (documented: A_REAL_EPSILON) so that joint memberships of active sets cannot all vanish' % (E, thr[0]))
                    st_i = s1.store.get(('idx', dom.off_key(oi)))
                    st_v = s1.store.get(('val', dom.off_key(ov)))
                    if st_i is None or not alg.is_zero(sp.sympify(st_i[0]) - tx.sym[roles['i']]):
                        probs.append('%s records index %s, expected the set number i' % (E, st_i))
                    if st_v is None or sp.sympify(st_v[0]) != want:
                        probs.append('%s records value %s, expected the membership degree' % (E, st_v))
                else:
                    probs.append('%s: cursors advance by (%s,%s,%s)' % (E, di, dv, dc))
                seen.setdefault(E, 0)
                seen[E] += 1
            missing = [E for E, (t, k) in disp.items() if t is not None and E not in seen]
            if missing:
                probs.append('no case for %s' % missing)
            if not eps_seen:
                probs.append('no path records an active set')
            if probs:
                rep.bad('F1', 'a_pid_fuzzy_mf', '; '.join(sorted(set(probs))[:3]), loc=loc, key='a_pid_fuzzy_mf: table walk')
            else:
                rep.ok('F1', 'a_pid_fuzzy_mf', 'all %d cases call the like-named function on (x, a[1..k]) and advance the cursor by 1+k; active sets record (i, degree) and advance idx/val/counter together'
                       % len(seen), loc=loc, sample={'cases': sorted(seen)})
        except (Unsupported, KeyError) as e:
            rep.unk('F1', 'a_pid_fuzzy_mf', 'table walk not recognised: %r' % (e,))
    # ---- operator table
    fn = ctx.fn('pid_fuzzy', 'a_pid_fuzzy_opr')
    if fn is None:
        rep.unk('F1', 'a_pid_fuzzy_opr', 'anchor vanished')
    else:
        loc = fn.loc(fn.entry.instrs[0])
        tab = SPEC['operators']['opr_table']
        try:
            en2 = enumerators(ctx, 'a/pid_fuzzy.h', sorted(k for k in tab if k != 'default'))
        except irx.ToolError as e:
            rep.unk('F1', 'a_pid_fuzzy_opr', 'enumerator probe does not compile')
            en2 = {}
        for E, target in sorted(tab.items()):
            try:
                v = 9999 if E == 'default' else en2[E]
                dom = CallDom()
                it = symx.Interp(dom, lambda nm: None)
                lv = it.run(fn, [v])
                got = lv[0].ret
                if len(lv) == 1 and isinstance(got, FnPtr) and got.name == target:
                    rep.ok('F1', 'a_pid_fuzzy_opr[%s]' % E, 'maps to %s' % target, loc=loc)
                elif E == 'default' and len(lv) == 1 and isinstance(got, FnPtr) and got.name in set(tab.values()):
                    # an undocumented selector is no operator choice of the property: any of the documented operators (each decided by F3) will do
                    rep.ok('F1', 'a_pid_fuzzy_opr[%s]' % E, 'an undocumented selector falls back to the documented operator %s' % got.name, loc=loc)
                elif E == 'default':
                    rep.unk('F1', 'a_pid_fuzzy_opr[%s]' % E, 'an undocumented selector maps to %r, none of the documented operators' % (got,), loc=loc)
                else:
                    rep.bad('F1', 'a_pid_fuzzy_opr[%s]' % E, 'maps to %r, expected %s' % (got, target), loc=loc, key='a_pid_fuzzy_opr: %s' % E)
            except (Unsupported, KeyError) as e:
                rep.unk('F1', 'a_pid_fuzzy_opr[%s]' % E, str(e))


# ---------------------------------------------------------------- F4 buffer
def bfuzz(ctx):
    rep = ctx.rep
    for real in (8, 4):
        tag = 'real=f%d' % (real * 8)
        try:
            probe = ctx.scr.path('c13_probe%d.c' % real)
            open(probe, 'w').write('#include "a/pid_fuzzy.h"\nunsigned long verif_bfuzz(unsigned long n){ return A_PID_FUZZY_BFUZZ(n); }\n')
            ll = irx.compile_ir(ctx.scr, probe, ctx.cfg('all', real), 'p13_%d' % real)
            pm = llir.parse_module(ll)
            dom = alg.Alg()
            n = dom.sym('n', integer=True, nonnegative=True)
            lv = symx.Interp(dom, lambda nm: None).run(pm.functions['verif_bfuzz'], [n])
            want = 4 * 2 * n + real * n * (2 + n)
            if len(lv) == 1 and alg.is_zero(lv[0].ret - want):
                rep.ok('F4', 'A_PID_FUZZY_BFUZZ[%s]' % tag, 'expands to 2n*sizeof(unsigned) + n(2+n)*sizeof(a_real) = %s' % sp.expand(want))
            else:
                rep.bad('F4', 'A_PID_FUZZY_BFUZZ[%s]' % tag, 'expands to %s, expected %s' % (sp.expand(lv[0].ret), sp.expand(want)), key='A_PID_FUZZY_BFUZZ: size')
        except (Unsupported, irx.ToolError, KeyError) as e:
            rep.unk('F4', 'A_PID_FUZZY_BFUZZ[%s]' % tag, str(e)[:200])
        # layout: val = (char*)ptr + 2*sizeof(unsigned)*num
        try:
            fn = ctx.fn('pid_fuzzy', 'a_pid_fuzzy_set_bfuzz', real=real)
            md = dwarf.MD(ctx.module('pid_fuzzy', real=real))
            names = {('ctx', off): nm for off, nm in md.flatten('a_pid_fuzzy').items()}
            dom = alg.Alg(names)

            class D(alg.Alg):
                pass
            dom.nonnull = lambda base: True
            num = dom.sym('num', integer=True, nonnegative=True)
            lv = symx.Interp(dom, lambda nm: None).run(fn, [Ptr('ctx', 0), Ptr('buf', 0), num])
            loc = fn.loc(fn.entry.instrs[0])
            probs = []
            for lf in lv:
                fin = {names[k]: v[0] for k, v in lf.store.items() if k in names}
                if not (isinstance(fin.get('idx'), Ptr) and fin['idx'].base == 'buf' and fin['idx'].off == 0):
                    probs.append('idx = %r, expected the buffer start' % (fin.get('idx'),))
                v = fin.get('val')
                if not (isinstance(v, Ptr) and v.base == 'buf' and alg.is_zero(sp.sympify(v.off) - 2 * 4 * num)):
                    probs.append('val = %r, expected buffer + 2*sizeof(unsigned)*num' % (v,))
                if not alg.is_zero(sp.sympify(fin.get('nfuzz', -1)) - num):
                    probs.append('nfuzz = %s' % fin.get('nfuzz'))
            if probs:
                rep.bad('F4', 'a_pid_fuzzy_set_bfuzz[%s]' % tag, '; '.join(sorted(set(probs))), loc=loc, key='a_pid_fuzzy_set_bfuzz: layout')
            else:
                rep.ok('F4', 'a_pid_fuzzy_set_bfuzz[%s]' % tag, 'idx at the buffer start, val exactly 2n unsigneds behind it (room for ne+nec <= 2n indices)', loc=loc)
        except (Unsupported, KeyError) as e:
            rep.unk('F4', 'a_pid_fuzzy_set_bfuzz[%s]' % tag, str(e)[:200])


def run(ctx):
    rep = ctx.rep
    rep.explanation = ('membership functions: the decision tree of each piecewise function (parameters ordered through positive gap '
                       'symbols) is compared cell by cell with the documented pieces (exact identities), slope signs and continuity at '
                       'every breakpoint are decided symbolically; smooth families are matched with their formulas and a sign form '
                       '(exp(-S), 1/(1+S), S >= 0); dispatchers are evaluated per enumerator with the callee kept as an uninterpreted '
                       'term; operators are compared path-wise with their documented min/max/algebraic formulas; buffer macro and layout '
                       'are compared as polynomials in n')
    rep.trusted += ['lib/symx.py, lib/alg.py, lib/looptx.py', 'sympy (simplify, solve for linear breakpoints, sign of positive-coefficient forms)']
    rep.assumptions += ['parameters well ordered (a < b < c < d, non-zero widths) as the property states',
                        'commutativity / monotonicity / boundary cases / min-max bounds are standard facts about the documented operator formulas; '
                        'the checker proves the code equals those formulas',
                        'the scratch buffer is sized for the number of simultaneously active sets (ne, nec <= n), as the property states']
    mf = ctx.module('mf')
    lk = lookup_in([mf])
    leaves = {}
    for name, (pn, pv, table) in TABLES.items():
        fn = ctx.fn('mf', name)
        if fn is None:
            rep.unk('F2', name, 'anchor vanished')
            continue
        try:
            leaves[name] = piecewise(rep, fn, lk, pn, pv, table)
        except Unsupported as e:
            rep.unk('F2', name, str(e))
    # complements on every elementary interval
    for f, g in (('a_mf_s', 'a_mf_z'), ('a_mf_lins', 'a_mf_linz')):
        if f in leaves and g in leaves:
            (lf, tf), (lg, tg) = leaves[f], leaves[g]
            ts = list(tf)
            for t in tg:
                if not any(alg.is_zero(t - u) for u in ts):
                    ts.append(t)
            import functools
            ts = sorted(ts, key=functools.cmp_to_key(lambda u, v: sign_of(u - v)))
            bad = []
            try:
                for i in range(len(ts) + 1):
                    lo = ts[i - 1] if i > 0 else -oo
                    hi = ts[i] if i < len(ts) else oo
                    mid = hi - 1 if lo == -oo else (lo + 1 if hi == oo else (lo + hi) / 2)
                    a_ = leaf_at(lf, mid)
                    b_ = leaf_at(lg, mid)
                    if len(a_) != 1 or len(b_) != 1 or not alg.is_zero(sp.simplify(sp.sympify(a_[0].ret) + sp.sympify(b_[0].ret) - 1)):
                        bad.append('(%s, %s)' % (lo, hi))
                if bad:
                    rep.bad('F2', f + '+' + g, 'do not sum to 1 on %s' % bad, key='%s: complement' % f)
                else:
                    rep.ok('F2', f + '+' + g, 'sum to exactly 1 on all %d elementary intervals' % (len(ts) + 1))
            except Unsupported as e:
                rep.unk('F2', f + '+' + g, str(e))
    smooth(ctx, lk)
    saturation(ctx, mf)
    operators(ctx, lookup_in([ctx.module('fuzzy')]))
    operator_classes(ctx, ctx.module('fuzzy'))
    dispatch(ctx)
    bfuzz(ctx)
    from props import C13_fuzzy
    C13_fuzzy.run(ctx)
    rep.floor('F5a', 1)
    rep.floor('F5b', 1)
    rep.floor('F5c', 1)
    rep.floor('F5d', 1)
    rep.floor('F5e', 1)
    rep.floor('F2c', 4)
    rep.floor('F2', 10)
    rep.floor('F2s', 5)
    rep.floor('F2m', 4)
    rep.floor('F3', 9)
    rep.floor('F1', 14 + 1 + 8)
    rep.floor('F4', 4)
