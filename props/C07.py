"""C07 - allocation failure (DESIGN 4 C07).  PATH rules over vec.c, buf.c, str.c, que.c:
A1 every allocation result is null-tested before use; A2 on every path through a failing allocation edge the container
is not mutated (allocate-then-mutate); A3 every fallible call is checked and the failure arm returns the failure
indicator; A4 every successful allocation is stored, returned or freed on every path, destructors free every owning field."""
import json, os
import llir, path, effects
from effects import root_of, callee_name

LEVEL = 'other'
SPEC = json.load(open(os.path.join(os.path.dirname(__file__), '..', 'specs', 'alloc.json')))
UNITS = ['vec', 'buf', 'str', 'que']
CONTAINER_TYPES = {'a_vec', 'a_buf', 'a_str', 'a_que'}
WRITERS = {'a_copy': [0], 'a_move': [0], 'a_swap': [0, 1], 'a_fill': [0], 'a_zero': [0], 'memcpy': [0], 'memmove': [0], 'memset': [0],
           'vsnprintf': [0], 'snprintf': [0], 'qsort': [0], 'llvm.memcpy.p0i8.p0i8.i64': [0], 'llvm.memmove.p0i8.p0i8.i64': [0], 'llvm.memset.p0i8.i64': [0]}
PURE = {'memcmp', 'strlen', 'memchr', 'isspace', 'bsearch', 'a_utf_encode_len', 'llvm.va_start', 'llvm.va_end', 'llvm.va_copy', 'llvm.expect.i64',
        'llvm.assume', 'strchr', 'a_utf_decode', 'a_utf_length'}
SENTINELS = {'a_str_catc': -1, 'a_str_catc_': -1, 'a_str_catv': 0, 'a_str_catf': 0, 'a_utf_catc': 0}


def ctx_param(fn):
    """name of the first parameter if it points to a container struct"""
    if not fn.params:
        return None
    t, n = fn.params[0]
    if t.is_ptr and t.a.k == 'struct' and t.a.a.replace('struct.', '') in CONTAINER_TYPES:
        return n
    return None


def container_roots(fn):
    """parameter names that point to container structs"""
    out = set()
    for t, n in fn.params:
        if t.is_ptr and t.a.k == 'struct' and t.a.a.replace('struct.', '') in CONTAINER_TYPES:
            out.add(n)
    return out


def touches_container(roots, croots, local_allocs=()):
    """does a root set designate container state (a field of a container parameter, or memory reached through one)?"""
    for r in roots:
        if rooted(r, croots):
            return True
        if r[0] == 'top':
            return True
    return False


def rooted(r, croots):
    if r[0] == 'param':
        return r[1] in croots
    if r[0] == 'deref':
        return any(rooted(x, croots) for x in r[1])
    return False


class Unit:
    def __init__(self, ctx, name):
        self.name = name
        self.m = ctx.module(name)
        self.fns = {n: f for n, f in self.m.functions.items() if not f.error}
        self.sites = {n: path.alloc_sites(f) for n, f in self.fns.items()}
        self.summ = {}


def run(ctx):
    rep = ctx.rep
    rep.explanation = ('whole-unit PATH analysis over the IR of vec.c, buf.c, str.c, que.c: allocation sites are the indirect calls through '
                       'the loaded global a_alloc; fallible helpers are derived bottom-up (which return values indicate failure); for '
                       'every failing edge the effect set (stores into container fields/storage, block writes, callbacks, effectful '
                       'calls) that may precede or follow it on some CFG path is computed; checks/indicators/ownership are '
                       'dominance and must-pass-through queries')
    rep.trusted += ['lib/path.py, lib/effects.py (pointer provenance through gep/bitcast/phi/load)']
    rep.assumptions += ['callbacks (dtor/copy/cmp) do not touch the container', 'a_alloc follows the documented protocol: (NULL,n) allocate, (p,n) reallocate keeping p valid on failure, (p,0) free']
    units = []
    for u in UNITS:
        try:
            units.append(Unit(ctx, u))
        except Exception as e:
            rep.unk('A0', u, 'unit not readable: %s' % e)
    allfns = {}
    for u in units:
        for n, f in u.fns.items():
            allfns[n] = (u, f)
            ctx.rep.functions.add(n)
    nsites = sum(len(s) for u in units for s in u.sites.values())
    fall = fallible_summary(rep, units, allfns)
    for u in units:
        for n, f in sorted(u.fns.items()):
            a1(rep, u, f)
            a3(rep, u, f, fall, allfns)
            a4_success(rep, u, f)
            if 'internal' not in f.linkage or n in fall:
                a2(rep, u, f, fall, allfns)
    a4_dtors(rep, units, allfns)
    a5_pool_resize(rep, units)
    rep.note('allocation sites found: %d; fallible functions: %s' % (nsites, sorted(fall)))
    rep.floor('A1', 10)
    rep.floor('A2', 20)
    rep.floor('A3', 20)
    rep.floor('A4', 12)
    rep.floor('A5', 1)
    fixtures(ctx)


def a5_pool_resize(rep, units):
    """A5: a_que_setz resizes the pooled nodes one by one and commits the element size behind the loop.  A failure in the middle is
    tolerable only because the nodes it has already resized are LARGER than the size the queue still reports (known finding "store
    into container state before failing a_alloc"): every reallocation of a pooled node must sit behind the test that the new size
    exceeds the recorded one, on its true edge."""
    for u in units:
        f = u.fns.get('a_que_setz')
        if f is None:
            continue
        import dwarf
        try:
            st = dwarf.MD(u.m).structs().get('a_que')
            sizi = [i for i, mem in enumerate(st['members']) if mem['name'] == 'siz_'][0]
            ptri = [i for i, mem in enumerate(st['members']) if mem['name'] == 'ptr_'][0]
        except Exception:
            rep.unk('A5', 'a_que_setz', 'layout of a_que not readable')
            return
        ctxn = f.params[0][1]
        sites = []
        for i in f.instrs():
            if i.op != 'call' or not any(getattr(s_, 'ins', None) is i or getattr(s_, 'call', None) is i for s_ in u.sites.get(f.name, [])):
                continue
            old = i.ops[0] if i.ops else None
            if old is None or old.k != 'reg':
                continue
            d = f.defs.get(path.strip_casts(f, old).v) if path.strip_casts(f, old).k == 'reg' else None
            # the block reallocated is one loaded from the pool array (*ptr with ptr derived from ctx->ptr_)
            if d is not None and d.op == 'load' and d.ops[0].k == 'reg' and pool_cursor(f, d.ops[0], ctxn, ptri):
                sites.append(i)
        if not sites:
            rep.unk('A5', 'a_que_setz', 'no reallocation of a pooled node found')
            return
        idom = f.idom()
        for i in sites:
            ok = False
            b = i.block
            seen = 0
            while b is not None and seen < 64:
                seen += 1
                dmb = idom.get(b)
                if dmb is None or dmb is b:
                    break
                t = dmb.term
                if t.op == 'br' and t.ops and len(t.x['labels']) == 2 and t.ops[0].k == 'reg':
                    c = f.defs.get(t.ops[0].v)
                    if c is not None and c.op == 'icmp':
                        tb, fb = [f.bmap[l] for l in t.x['labels']]
                        a_, b_ = c.ops
                        pr = c.x['pred']
                        new_old = field_load(f, b_, ctxn, sizi) and not field_load(f, a_, ctxn, sizi)      # (new ? old)
                        old_new = field_load(f, a_, ctxn, sizi) and not field_load(f, b_, ctxn, sizi)      # (old ? new)
                        grows_true = (pr == 'ugt' and new_old) or (pr == 'ult' and old_new)
                        grows_false = (pr == 'ule' and new_old) or (pr == 'uge' and old_new)
                        via_t = (tb is i.block or f.dominates(tb, i.block)) and not (fb is i.block or f.reachable(fb, i.block, avoid=(dmb,)))
                        via_f = (fb is i.block or f.dominates(fb, i.block)) and not (tb is i.block or f.reachable(tb, i.block, avoid=(dmb,)))
                        if (grows_true and via_t) or (grows_false and via_f):
                            ok = True
                            break
                b = dmb
            if ok:
                rep.ok('A5', 'a_que_setz@%s' % f.line(i), 'the pooled node is reallocated only behind new size > ctx->siz_: a failure in the middle leaves only nodes that are larger than the size still reported', loc=f.loc(i))
            else:
                rep.bad('A5', 'a_que_setz@%s' % f.line(i), 'a pooled node is reallocated without the test that the new element size exceeds the recorded one: when a later reallocation '
                        'fails, siz_ keeps the old (larger) value while nodes already resized are smaller - the next push hands out a node that is too small', loc=f.loc(i),
                        key='a_que_setz: pooled nodes resized below the recorded element size')
        return


def pool_cursor(f, v, ctxn, ptri, depth=0):
    """is v a pointer into the pool array: ctx->ptr_, or a cursor (phi / gep) derived from it"""
    if v.k != 'reg' or depth > 8:
        return False
    if field_load(f, v, ctxn, ptri):
        return True
    d = f.defs.get(v.v)
    if d is None:
        return False
    if d.op in ('gep', 'bitcast'):
        return pool_cursor(f, d.ops[0], ctxn, ptri, depth + 1)
    if d.op == 'phi':
        return any(pool_cursor(f, o, ctxn, ptri, depth + 1) for o in d.ops if not (o.k == 'reg' and o.v == d.res))
    return False


# ---------------------------------------------------------------- fallible summary
def fail_edges_direct(f, site):
    """edges on which the allocation at `site` has failed (result null and, for a variable size, size != 0)"""
    q = ('not', ('atom', 'null', site.ins.res))
    return path.edges_entailing(f, q)


def ok_edges(f, site):
    """edges after which the result may be used as the new owner: result non-null, or (documented protocol) the size was 0"""
    q = ('atom', 'null', site.ins.res)
    if site.size.k == 'reg':
        q = ('or', q, ('not', ('atom', 'zero', site.size.v)))
    return path.edges_entailing(f, q)


def fallible_summary(rep, units, allfns):
    """name -> {'kind': 'int'|'ptr', 'fail': set of failure return constants or 'null'|'result'}"""
    fall = {}
    changed = True
    rounds = 0
    while changed and rounds < 10:
        rounds += 1
        changed = False
        for u in units:
            for n, f in u.fns.items():
                edges = all_fail_edges(f, u, fall, allfns)
                calls_fallible = False
                for i in f.instrs():
                    if i.op == 'call':
                        cn = callee_name(i)
                        if cn in fall and cn in allfns and cn != n and not cannot_fail(i, allfns[cn][1], u, fall, allfns):
                            calls_fallible = True
                if not edges and not calls_fallible and not any(s.kind in ('alloc', 'realloc') for s in u.sites[n]):
                    continue
                kind = 'ptr' if f.ret.is_ptr else ('int' if f.ret.is_int else 'void')
                if n not in fall:
                    fall[n] = {'kind': kind, 'edges': edges}
                    changed = True
                else:
                    if len(edges) != len(fall[n]['edges']):
                        fall[n]['edges'] = edges
                        changed = True
    return fall


def cannot_fail(call, callee_f, u, fall, allfns, depth=0):
    """the call passes constants that make every allocation in the callee unreachable (dominating guard is false)"""
    if depth > 4 or callee_f is None:
        return False
    consts = {}
    for (t, pn), a in zip(callee_f.params, call.ops):
        if a.k == 'int':
            consts[pn] = a.v
        elif a.k == 'null':
            consts[pn] = 0
    if not consts:
        return False
    cu = allfns[callee_f.name][0]
    risky = []
    for s in cu.sites[callee_f.name]:
        if s.kind in ('alloc', 'realloc'):
            risky.append(s.ins)
    for i in callee_f.instrs():
        if i.op == 'call':
            cn = callee_name(i)
            if cn in fall and cn in allfns:
                # nested fallible call: does it inherit constants?
                sub = allfns[cn][1]
                inherited = llir.Instr('call', None, None, [llir.Val('int', consts[a.v], a.ty) if (a.k == 'reg' and a.v in consts) else a for a in i.ops], {'callee': i.x['callee']})
                if not cannot_fail(inherited, sub, u, fall, allfns, depth + 1):
                    risky.append(i)
    for r in risky:
        if not guarded_false(callee_f, r, consts):
            return False
    return True


def guarded_false(f, ins, consts):
    """some conditional branch that dominates `ins` is decided by the constants so that `ins` is unreachable"""
    idom = f.idom()
    b = ins.block
    while True:
        p = idom.get(b)
        if p is None or p is b:
            return False
        t = p.term
        if t.op == 'br' and len(t.x['labels']) == 2:
            dec = eval_cond(f, t.ops[0], consts)
            if dec is not None:
                taken = f.bmap[t.x['labels'][0 if dec else 1]]
                other = f.bmap[t.x['labels'][1 if dec else 0]]
                # ins is unreachable if it is only reachable through the edge not taken
                if f.dominates(other, ins.block) and not f.dominates(taken, ins.block) and other is not taken:
                    # make sure other is entered only from p
                    if all(q is p for q in other.preds):
                        return True
        b = p


def eval_cond(f, v, consts):
    if v.k != 'reg':
        return None
    d = f.defs.get(v.v)
    if d is None or d.op != 'icmp':
        return None
    a, b = d.ops

    def cv(x):
        if x.k == 'int':
            return x.v
        if x.k == 'reg' and x.v in consts:
            return consts[x.v]
        return None
    ca, cb = cv(a), cv(b)
    p = d.x['pred']
    if ca is not None and cb is not None:
        return {'eq': ca == cb, 'ne': ca != cb, 'ugt': ca > cb, 'uge': ca >= cb, 'ult': ca < cb, 'ule': ca <= cb}.get(p)
    # unsigned comparisons against 0
    if ca == 0 and p == 'ugt':
        return False
    if cb == 0 and p == 'ult':
        return False
    if ca == 0 and p == 'ule':
        return True
    if cb == 0 and p == 'uge':
        return True
    return None


def all_fail_edges(f, u, fall, allfns):
    """failure edges of f: [(src, dst, why, defining instruction)]"""
    out = []
    for s in u.sites[f.name]:
        if s.kind in ('alloc', 'realloc'):
            for e in fail_edges_direct(f, s):
                out.append((e[0], e[1], 'a_alloc returns NULL', s.ins))
    for i in f.instrs():
        if i.op != 'call':
            continue
        cn = callee_name(i)
        if cn in fall and cn in allfns and cn != f.name:
            if cannot_fail(i, allfns[cn][1], u, fall, allfns):
                continue
            k = fall[cn]['kind']
            if i.res is None:
                continue
            if k == 'int':
                sent = SENTINELS.get(cn)
                for sblk, dblk, nonzero in path.branch_edges(f, 'zero', i.res):
                    if sent is None and nonzero:
                        out.append((sblk, dblk, '%s fails' % cn, i))
                    elif sent == 0 and not nonzero:
                        out.append((sblk, dblk, '%s fails' % cn, i))
                # comparisons against explicit constants (rc == 0 handled above); sentinel -1 is compared with icmp eq
                for b in f.blocks:
                    t = b.term
                    if t.op == 'br' and len(t.x['labels']) == 2 and t.ops[0].k == 'reg':
                        d = f.defs.get(t.ops[0].v)
                        if d is not None and d.op == 'icmp' and d.x['pred'] in ('eq', 'ne'):
                            x, y = d.ops
                            if x.k == 'reg' and x.v == i.res and y.k == 'int' and sent is not None and (y.v & 0xFFFFFFFF) == (sent & 0xFFFFFFFF) and sent != 0:
                                tgt = t.x['labels'][0 if d.x['pred'] == 'eq' else 1]
                                out.append((b, f.bmap[tgt], '%s fails' % cn, i))
            elif k == 'ptr':
                for sblk, dblk, nonnull in path.branch_edges(f, 'null', i.res):
                    if not nonnull:
                        out.append((sblk, dblk, '%s fails' % cn, i))
    return out


# ---------------------------------------------------------------- A1
def a1(rep, u, f):
    for s in u.sites[f.name]:
        if s.kind not in ('alloc', 'realloc'):
            continue
        r = s.ins.res
        loc = f.loc(s.ins)
        sym = '%s:%s' % (f.name, s.kind)
        if r is None:
            rep.bad('A1', sym, 'allocation result is discarded', loc=loc, key='%s: result discarded' % f.name)
            continue
        oke = ok_edges(f, s)
        bad = []
        for i in f.instrs():
            if i is s.ins:
                continue
            for k, o in enumerate(list(i.ops) + ([i.x['callee']] if i.op == 'call' else [])):
                if not path.derived_from(f, o, r, through_phi=False):
                    continue
                use = None
                if i.op in ('load',) or (i.op == 'store' and k == 1) or (i.op == 'gep' and k == 0):
                    use = 'dereference'
                elif i.op == 'store' and k == 0:
                    use = 'stored'
                elif i.op == 'call':
                    use = 'passed to a call'
                if use is None:
                    continue
                if i.block is s.ins.block or not path.all_paths_cross(f, s.ins.block, i.block, oke):
                    bad.append('%s at %s before any null test' % (use, f.loc(i)))
        if bad:
            rep.bad('A1', sym, '; '.join(sorted(set(bad))[:3]), loc=loc, key='%s: %s result used unchecked' % (f.name, s.kind))
        else:
            rep.ok('A1', sym, 'every use of the result is dominated by the non-null edge of its test (or it is only returned/compared)', loc=loc,
                   sample={'fn': f.name, 'site': s.kind, 'line': f.line(s.ins)})


# ---------------------------------------------------------------- A2
def describe_store(f, i):
    """which part of the container a store changes: a field of the object (by name) or memory it owns"""
    p = i.ops[1]
    d = f.defs.get(p.v) if p.k == 'reg' else None
    if d is not None and d.op == 'gep' and d.x['bt'].k == 'struct' and len(d.ops) >= 3 and d.ops[-1].k == 'int' and d.ops[0].k == 'reg' \
            and any(pn == d.ops[0].v for pt, pn in f.params):
        sname = d.x['bt'].a.replace('struct.', '')
        try:
            import dwarf
            md = dwarf.MD(f.module)
            mem = md.structs().get(sname)['members']
            return 'store to %s.%s' % (sname, mem[d.ops[-1].v]['name'])
        except Exception:
            return 'store to field %d of %s' % (d.ops[-1].v, sname)
    return 'store into container state'


def effect_instrs(f, croots, fall, allfns, u):
    """instructions of f that mutate container state: [(instr, description)]"""
    out = []
    local_allocs = set(s.ins.res for s in u.sites[f.name] if s.kind in ('alloc', 'realloc'))
    for i in f.instrs():
        if i.op == 'store':
            roots = root_of(f, i.ops[1])
            # writes into a block obtained by this function's own allocation are not container state yet
            if all(r[0] == 'call' or r[0] == 'alloca' for r in roots):
                continue
            if any(r[0] == 'deref' and not rooted(r, croots) for r in roots) and not any(rooted(r, croots) for r in roots):
                # through a pointer loaded from elsewhere (e.g. a node taken from the ring): check provenance
                pass
            if touches_container(roots, croots):
                out.append((i, describe_store(f, i)))
        elif i.op == 'call':
            cn = callee_name(i)
            if cn is None:
                # indirect: a_alloc itself or a callback
                c = i.x['callee']
                d = f.defs.get(c.v) if c.k == 'reg' else None
                if d is not None and d.op == 'load' and d.ops[0].k == 'global' and d.ops[0].v == 'a_alloc':
                    # free / realloc of container-owned memory is a mutation (free of a local block is cleanup)
                    if i.ops[0].k != 'null':
                        roots = root_of(f, i.ops[0])
                        is_free = i.ops[1].k == 'int' and i.ops[1].v == 0
                        if is_free and touches_container(roots, croots):
                            out.append((i, 'frees container-owned memory'))
                    continue
                out.append((i, 'invokes a callback'))
                continue
            if cn.startswith('llvm.dbg') or cn.startswith('llvm.lifetime') or cn in PURE:
                continue
            if cn in WRITERS:
                for k in WRITERS[cn]:
                    if k < len(i.ops) and touches_container(root_of(f, i.ops[k]), croots):
                        out.append((i, '%s writes container storage' % cn))
                        break
                continue
            if cn in allfns:
                cf = allfns[cn][1]
                if has_effects(cf, allfns, fall):
                    # does the call get a container?
                    passes = any(a.ty is not None and a.ty.is_ptr and touches_container(root_of(f, a), croots) for a in i.ops)
                    if passes:
                        out.append((i, 'calls %s (mutates its container)' % cn))
                continue
            # unknown external function receiving container memory
            if any(a.ty is not None and a.ty.is_ptr and touches_container(root_of(f, a), croots) for a in i.ops):
                out.append((i, 'passes container memory to %s' % cn))
    return out


_EFF = {}


def has_effects(cf, allfns, fall, depth=0):
    if cf.name in _EFF:
        return _EFF[cf.name]
    _EFF[cf.name] = True  # recursion guard: assume effectful
    cr = container_roots(cf)
    if not cr:
        cr = set(n for t, n in cf.params if t.is_ptr)
    u = allfns[cf.name][0]
    r = bool(effect_instrs(cf, cr, fall, allfns, u))
    _EFF[cf.name] = r
    return r


def success_edges(f, point, fall):
    """edges that establish that the failure point (allocation site or fallible call) succeeded"""
    ins = point
    if ins.res is None:
        return []
    cn = callee_name(ins)
    if cn is None:
        # direct a_alloc site
        q = ('atom', 'null', ins.res)
        if len(ins.ops) == 2 and ins.ops[1].k == 'reg':
            q = ('or', q, ('not', ('atom', 'zero', ins.ops[1].v)))
        return path.edges_entailing(f, q)
    k = fall[cn]['kind']
    sent = SENTINELS.get(cn)
    if k == 'ptr':
        return path.edges_entailing(f, ('atom', 'null', ins.res))
    if sent is None:
        return path.edges_entailing(f, ('not', ('atom', 'zero', ins.res)))
    if sent == 0:
        return path.edges_entailing(f, ('atom', 'zero', ins.res))
    out = []
    for b in f.blocks:
        t = b.term
        if t.op == 'br' and len(t.x['labels']) == 2 and t.ops[0].k == 'reg':
            d = f.defs.get(t.ops[0].v)
            if d is not None and d.op == 'icmp' and d.x['pred'] in ('eq', 'ne'):
                x, y = d.ops
                if x.k == 'reg' and x.v == ins.res and y.k == 'int' and (y.v & 0xFFFFFFFF) == (sent & 0xFFFFFFFF):
                    out.append((b, f.bmap[t.x['labels'][1 if d.x['pred'] == 'eq' else 0]]))
    return out


def failure_points(f, u, fall, allfns):
    pts = []
    for s_ in u.sites[f.name]:
        if s_.kind in ('alloc', 'realloc'):
            pts.append((s_.ins, 'a_alloc'))
    for i in f.instrs():
        if i.op == 'call':
            cn = callee_name(i)
            if cn in fall and cn in allfns and cn != f.name and not cannot_fail(i, allfns[cn][1], u, fall, allfns):
                pts.append((i, cn))
    return pts


def a2(rep, u, f, fall, allfns):
    """allocate-then-mutate: no container mutation may precede a failure point, and every mutation behind it is
    separated from it, on all paths, by an edge that establishes success"""
    croots = container_roots(f)
    if not croots:
        return
    pts = failure_points(f, u, fall, allfns)
    if not pts:
        return
    effs = effect_instrs(f, croots, fall, allfns, u)
    ctxn = f.params[0][1]
    for (p, what) in pts:
        sym = '%s@%s' % (f.name, f.line(p) or p.res)
        loc = f.loc(p)
        S = success_edges(f, p, fall)
        probs = []
        for e, desc in effs:
            if e is p:
                continue
            cn_ = callee_name(e) if e.op == 'call' else None
            before = (e.block is p.block and e.idx < p.idx) or (p.block in path.reach_from(f, e.block.succs))
            if before:
                spare = cn_ in WRITERS and f.name.startswith('a_str') and all(is_spare_ptr(f, e.ops[k], ctxn) for k in WRITERS[cn_] if k < len(e.ops))
                if spare and all(terminator_restored(f, fe, ctxn) for fe in failure_edges_of(f, p, S)):
                    rep.note('%s: measuring write into the spare room at %s is compensated: the failure path restores ptr_[num_] = 0' % (f.name, f.loc(e)))
                else:
                    probs.append('%s at %s can precede the failing %s' % (desc, f.loc(e), what))
            after_same = e.block is p.block and e.idx > p.idx
            after = after_same or (e.block in path.reach_from(f, p.block.succs))
            if after:
                if e.op == 'store' and e.ops[0].k == 'int' and e.ops[0].v == 0 and e.ops[0].ty == llir.I(8) and f.name.startswith('a_str') and is_spare_ptr(f, e.ops[1], ctxn):
                    continue   # re-establishes the terminator, leaves the content alone
                if after_same or not path.all_paths_cross(f, p.block, e.block, S):
                    probs.append('%s at %s can follow a failed %s (no success test on some path)' % (desc, f.loc(e), what))
        if probs:
            # one finding per (mutation kind, before/after): a known finding names exactly one of them
            seen = set()
            for pr in probs:
                kind = pr.split(' at ')[0] + (' before' if 'can precede' in pr else ' after')
                if kind in seen:
                    continue
                seen.add(kind)
                rep.bad('A2', '%s{%s}' % (sym, kind), pr, loc=loc, key='%s: %s failing %s' % (f.name, kind, what))
        else:
            rep.ok('A2', sym, 'no container mutation precedes %s; every later mutation is behind an edge establishing success (%d effect sites, %d success edges)'
                   % (what, len(effs), len(S)), loc=loc, sample={'fn': f.name, 'failure_point': what, 'success_edges': ['%s->%s' % (a.name, b.name) for a, b in S][:4]})


def failure_edges_of(f, p, S):
    """out-edges of branches with a success edge that are not success edges themselves"""
    out = []
    for (a, b) in S:
        for s2 in a.succs:
            if (a, s2) not in S and s2 is not b:
                out.append((a, s2))
    return out


def field_load(f, v, ctxn, index):
    """is v a load of field `index` of the container parameter?"""
    if v.k != 'reg':
        return False
    d = f.defs.get(v.v)
    if d is None or d.op != 'load' or d.ops[0].k != 'reg':
        return False
    g = f.defs.get(d.ops[0].v)
    return bool(g is not None and g.op == 'gep' and g.ops[0].k == 'reg' and g.ops[0].v == ctxn and len(g.ops) == 3
                and g.ops[1].k == 'int' and g.ops[1].v == 0 and g.ops[2].k == 'int' and g.ops[2].v == index)


def is_spare_ptr(f, v, ctxn, depth=0):
    """v == ctx->ptr_ + ctx->num_ (the first byte behind the content: the terminator position / spare room)"""
    if v.k == 'null':
        return True
    if v.k != 'reg' or depth > 6:
        return False
    d = f.defs.get(v.v)
    if d is None:
        return False
    if d.op == 'bitcast':
        return is_spare_ptr(f, d.ops[0], ctxn, depth + 1)
    if d.op in ('phi', 'select'):
        ops = d.ops if d.op == 'phi' else d.ops[1:]
        return all(is_spare_ptr(f, o, ctxn, depth + 1) or (o.k == 'reg' and field_load(f, o, ctxn, 0) and False) for o in ops) or \
            all(is_spare_ptr(f, o, ctxn, depth + 1) or null_guarded_ptr(f, o, ctxn) for o in ops)
    if d.op == 'gep' and len(d.ops) == 2:
        return field_load(f, d.ops[0], ctxn, 0) and field_load(f, d.ops[1], ctxn, 1)
    return False


def null_guarded_ptr(f, o, ctxn):
    # `ptr ? ptr + num_ : ptr` leaves a null ptr_ as it is
    return field_load(f, o, ctxn, 0)


def terminator_restored(f, edge, ctxn):
    """on every path from the failure edge to a return the byte ptr_[num_] is set to 0, except on paths that established
    num_ >= mem_ (no spare room, so the measuring write had size 0)"""
    sinks = set()
    for i in f.instrs():
        if i.op == 'store' and i.ops[0].k == 'int' and i.ops[0].v == 0 and i.ops[0].ty == llir.I(8) and is_spare_ptr(f, i.ops[1], ctxn):
            sinks.add(i.block)
    if not sinks:
        return False
    bypass = set()
    for b in f.blocks:
        t = b.term
        if t.op == 'br' and len(t.x['labels']) == 2 and t.ops[0].k == 'reg':
            d = f.defs.get(t.ops[0].v)
            if d is not None and d.op == 'icmp' and d.x['pred'] in ('ult', 'uge', 'ugt', 'ule'):
                a, b_ = d.ops
                lt = None
                if field_load(f, a, ctxn, 1) and field_load(f, b_, ctxn, 2):
                    lt = {'ult': True, 'uge': False}.get(d.x['pred'])
                elif field_load(f, a, ctxn, 2) and field_load(f, b_, ctxn, 1):
                    lt = {'ugt': True, 'ule': False}.get(d.x['pred'])
                if lt is not None:
                    # edge on which num_ < mem_ is false
                    bypass.add((b.name, t.x['labels'][1 if lt else 0]))
    seen = set()
    st = [edge[1]]
    while st:
        b = st.pop()
        if b in seen or b in sinks:
            continue
        seen.add(b)
        if b.term.op == 'ret':
            return False
        for s2 in b.succs:
            if (b.name, s2.name) in bypass:
                continue
            st.append(s2)
    return True


def reaches_edge_after(f, i, definer, sb):
    """the effect i lies on a path entry -> i -> definer -> edge: i must be able to reach the defining instruction"""
    if i.block is definer.block:
        return i.idx < definer.idx or definer.block in path.reach_from(f, i.block.succs)
    return definer.block in path.reach_from(f, i.block.succs)


# ---------------------------------------------------------------- A3
def a3(rep, u, f, fall, allfns):
    # direct allocation sites: the failure edge must lead to a failure indicator
    for s_ in u.sites[f.name]:
        if s_.kind not in ('alloc', 'realloc') or s_.ins.res is None:
            continue
        sym = '%s:%s@%s' % (f.name, s_.kind, f.line(s_.ins))
        loc = f.loc(s_.ins)
        edges = fail_edges_direct(f, s_)
        if f.ret.k == 'void':
            continue
        probs = []
        for e in edges:
            for v in path.returned_values(f, e):
                if not indicates_failure(f, v, s_.ins, None):
                    probs.append('the failing edge %s->%s returns %r' % (e[0].name, e[1].name, v))
        if not edges:
            # untested: fine only if the result itself is returned
            if not any(t.op == 'ret' and t.ops and path.derived_from(f, t.ops[0], s_.ins.res) for t in (b.term for b in f.blocks)):
                probs.append('the allocation result is neither tested nor returned')
        if probs:
            rep.bad('A3', sym, '; '.join(sorted(set(probs))[:2]), loc=loc, key='%s: allocation failure not reported' % f.name)
        else:
            rep.ok('A3', sym, 'the failure edge returns the failure indicator', loc=loc)
    for i in f.instrs():
        if i.op != 'call':
            continue
        cn = callee_name(i)
        if cn not in fall or cn not in allfns or cn == f.name:
            continue
        loc = f.loc(i)
        sym = '%s->%s@%s' % (f.name, cn, f.line(i))
        if cannot_fail(i, allfns[cn][1], u, fall, allfns):
            rep.ok('A3', sym, 'constant arguments make every allocation in the callee unreachable', loc=loc)
            continue
        k = fall[cn]['kind']
        if k == 'void':
            continue
        if i.res is None:
            rep.bad('A3', sym, 'result of fallible %s is discarded' % cn, loc=loc, key='%s: %s unchecked' % (f.name, cn))
            continue
        edges = [e for e in all_fail_edges(f, u, fall, allfns) if e[3] is i]
        # direct propagation: the result (or a phi of it) is returned
        propagated = any(t.op == 'ret' and t.ops and path.derived_from(f, t.ops[0], i.res) for t in (b.term for b in f.blocks))
        if not edges:
            if propagated:
                rep.ok('A3', sym, 'result is returned to the caller', loc=loc)
            else:
                rep.bad('A3', sym, 'result of fallible %s is never tested' % cn, loc=loc, key='%s: %s unchecked' % (f.name, cn))
            continue
        probs = []
        for (sb, db, why, d) in edges:
            vals = path.returned_values(f, (sb, db))
            for v in vals:
                if not indicates_failure(f, v, i, cn):
                    probs.append('failure arm returns %r' % (v,))
        if probs:
            rep.bad('A3', sym, '; '.join(sorted(set(probs))[:3]), loc=loc, key='%s: failure of %s not reported' % (f.name, cn))
        else:
            rep.ok('A3', sym, 'tested; failure arm returns the failure indicator', loc=loc, sample={'caller': f.name, 'callee': cn})


def indicates_failure(f, v, call, cn):
    if v.k == 'void':
        return f.ret.k == 'void'
    if path.derived_from(f, v, call.res):
        return True
    if f.ret.is_ptr:
        return v.k == 'null'
    if f.ret.is_int:
        sent = SENTINELS.get(f.name)
        if v.k == 'int':
            if sent is not None:
                return (v.v & 0xFFFFFFFF) == (sent & 0xFFFFFFFF)
            return v.v != 0
        return False
    return False


# ---------------------------------------------------------------- A4
def a4_success(rep, u, f):
    """every successful allocation is stored into memory, returned, or freed on every path to a return"""
    for s in u.sites[f.name]:
        if s.kind not in ('alloc', 'realloc') or s.ins.res is None:
            continue
        r = s.ins.res
        loc = f.loc(s.ins)
        sym = '%s:%s@%s' % (f.name, s.kind, f.line(s.ins))
        sinks = set()
        for i in f.instrs():
            if i.op == 'store' and path.derived_from(f, i.ops[0], r):
                sinks.add(i.block)
            if i.op == 'ret' and i.ops and path.derived_from(f, i.ops[0], r):
                sinks.add(i.block)
            if i.op == 'call' and i is not s.ins and any(path.derived_from(f, a, r) for a in i.ops):
                sinks.add(i.block)
        starts = [d for (sb, d) in ok_edges(f, s)]
        if not starts:
            # untested: the A1 rule reports it; ownership: result must reach a sink from the site
            starts = [s.ins.block]
        leaks = []
        for st in starts:
            ok, p = path.must_pass(f, st, sinks)
            if not ok:
                leaks.append(' -> '.join(b.name for b in p))
        if leaks:
            rep.bad('A4', sym, 'a successful allocation can reach a return without being stored, returned or freed (path %s)' % leaks[0], loc=loc,
                    key='%s: leak on success path' % f.name)
        else:
            rep.ok('A4', sym, 'on every path after success the block is stored, returned or released', loc=loc)
        # realloc into the owning field must not overwrite it on failure: the store of r into memory is on the non-null side
        if s.kind == 'realloc':
            bad = []
            oke = ok_edges(f, s)
            for i in f.instrs():
                if i.op == 'store' and path.derived_from(f, i.ops[0], r, through_phi=False):
                    if i.block is s.ins.block or not path.all_paths_cross(f, s.ins.block, i.block, oke):
                        bad.append(f.loc(i))
            if bad:
                rep.bad('A4', sym + ':keep', 'the reallocation result overwrites the owning pointer without a null test (%s): the old block leaks on failure' % bad[0],
                        loc=loc, key='%s: realloc overwrites owner' % f.name)
            else:
                rep.ok('A4', sym + ':keep', 'the owning pointer is overwritten only on the non-null edge (old block stays valid on failure)', loc=loc)


def a4_dtors(rep, units, allfns):
    for cname, sp in SPEC['containers'].items():
        short = cname[2:]
        dt = allfns.get(sp['dtor'])
        die = allfns.get(sp['die'])
        if dt is None or die is None:
            rep.unk('A4', cname, 'destructor anchors vanished')
            continue
        u, f = dt
        loc = f.loc(f.entry.instrs[0])
        frees = [s for s in u.sites[f.name] if s.kind == 'free' or s.kind == 'realloc']
        roots = [root_of(f, s.ptr) for s in frees]
        ctxn = f.params[0][1]
        probs = []
        struct_fields = None
        for fld in sp['owning_fields']:
            if fld == 'ptr_':
                ok = any(any(r[0] == 'deref' and any(x[0] == 'param' and x[1] == ctxn for x in r[1]) for r in rs) for rs in roots)
                if not ok:
                    probs.append('owning field ptr_ is not freed')
            elif fld.startswith('ptr_['):
                ok = any(any(r[0] == 'deref' and any(x[0] == 'deref' for x in r[1]) for r in rs) for rs in roots)
                if not ok:
                    probs.append('pooled nodes are not freed')
            elif 'ring' in fld:
                # a node reached from head_.next
                ok = len(frees) >= 3
                if not ok:
                    probs.append('enqueued nodes are not freed')
        if probs:
            rep.bad('A4', sp['dtor'], '; '.join(probs), loc=loc, key='%s: owning field not freed' % sp['dtor'])
        else:
            rep.ok('A4', sp['dtor'], 'frees %s (%d release sites)' % (sp['owning_fields'] or 'nothing separately owned', len(frees)), loc=loc)
        # die = dtor + free(self)
        u2, f2 = die
        loc2 = f2.loc(f2.entry.instrs[0])
        calls = [callee_name(i) for i in f2.instrs() if i.op == 'call']
        frees2 = [s for s in u2.sites[f2.name] if s.kind == 'free']
        self_freed = any(any(r[0] == 'param' and r[1] == f2.params[0][1] and r[2] == () for r in root_of(f2, s.ptr)) for s in frees2)
        order_ok = True
        if sp['dtor'] in calls and frees2:
            dcall = [i for i in f2.instrs() if i.op == 'call' and callee_name(i) == sp['dtor']][0]
            order_ok = all(f2.idominates(dcall, s.ins) for s in frees2)
        if sp['dtor'] in calls and self_freed and order_ok:
            rep.ok('A4', sp['die'], 'destroys, then frees the object itself', loc=loc2)
        else:
            rep.bad('A4', sp['die'], 'expected %s(ctx) followed by a_alloc(ctx, 0) (calls %s, self freed: %s)' % (sp['dtor'], [c for c in calls if c], self_freed),
                    loc=loc2, key='%s: die' % sp['die'])


def fixtures(ctx):
    """positive control: a tiny IR function with an unchecked realloc must be flagged by the A1/A4 logic"""
    src = ctx.scr.path('fx07.c')
    open(src, 'w').write('''#include "a/vec.h"
int fx_bad(a_vec *ctx, a_size n) { ctx->ptr_ = a_alloc(ctx->ptr_, n); ctx->mem_ = n; return 0; }
int fx_good(a_vec *ctx, a_size n) { void *p = a_alloc(ctx->ptr_, n); if (!p) { return 4; } ctx->ptr_ = p; ctx->mem_ = n; return 0; }
''')
    import irx, report
    ll = irx.compile_ir(ctx.scr, src, ctx.cfg('all', 8), 'fx07')
    m = llir.parse_module(ll)

    class U:
        pass
    u = U()
    u.fns = m.functions
    u.sites = {n: path.alloc_sites(f) for n, f in m.functions.items()}
    tmp = report.Report('fx', 'quick')
    a4_success(tmp, u, m.functions['fx_bad'])
    a4_success(tmp, u, m.functions['fx_good'])
    bad = [o for o in tmp.obs if o['status'] == report.VIOL]
    good = [o for o in tmp.obs if o['status'] == report.PASS and o['symbol'].startswith('fx_good')]
    if len(bad) == 1 and bad[0]['symbol'].startswith('fx_bad') and len(good) == 2:
        ctx.rep.ok('FIXTURE', 'unchecked-realloc', 'seeded unchecked realloc flagged, checked twin accepted')
    else:
        ctx.rep.unk('FIXTURE', 'unchecked-realloc', 'positive control failed: %s' % [(o['symbol'], o['status']) for o in tmp.obs])
