"""C16 - transfer function and RC filters (DESIGN 4 C16): G1 a_tf_iter sums / push order / delay line, G2 lpf / hpf
recurrences, G3 coefficient generators = documented formulas, inside (0,1)."""
import sympy as sp
import symx, alg, looptx, consts, dwarf, llir, irx, os
from symx import Ptr, Unsupported, TOP

LEVEL = 'other'


def lookup_in(mods):
    def lk(name):
        for m in mods:
            f = m.functions.get(name)
            if f is not None and not f.error:
                return f
        return None
    return lk


class FDom(alg.Alg):
    """block moves / zeroing with symbolic sizes are recorded as effects, not interpreted"""

    def call(self, name, args, ins, interp, st, fn):
        if name in ('a_move', 'a_copy', 'a_zero', 'a_real_push_fore', 'a_real_push_back') or name.startswith('llvm.memset') or name.startswith('llvm.mem'):
            st.calls.append((name, args))
            return args[0] if args else None
        return alg.Alg.call(self, name, args, ins, interp, st, fn)

    def nonnull(self, base):
        return True


def names_for(ctx, unit, sname, base='ctx'):
    md = dwarf.MD(ctx.module(unit))
    fl = md.flatten(sname)
    if not fl:
        raise Unsupported('no layout for %s' % sname)
    return {(base, off): nm for off, nm in fl.items()}


def positive_rational(e):
    """e > 0 for all positive values of its symbols: numerator and denominator have only positive coefficients"""
    t = sp.cancel(sp.together(e))
    n, d = sp.fraction(t)
    ok = True
    for p in (n, d):
        p = sp.expand(p)
        if p.is_number:
            ok = ok and bool(p > 0)
            continue
        P = sp.Poly(p, *sorted(p.free_symbols, key=str))
        ok = ok and all(sp.N(c) > 0 for c in P.coeffs())
    return ok


def run(ctx):
    rep = ctx.rep
    rep.explanation = ('filters: straight-line state updates interpreted over exact real terms and compared with the documented '
                       'recurrences; generators compared with the documented formulas with 2*pi read from the (checked) constant table '
                       'and shown to lie in (0,1) by coefficient signs; a_tf_iter: the two accumulation loops are checked as loop-body '
                       'transformers (index, bound, operands, sign), the two delay-line pushes by order and arguments; a_real_push_fore '
                       'by its move/store effect')
    rep.trusted += ['lib/symx.py, lib/alg.py, lib/looptx.py', 'sympy']
    rep.assumptions += ['IEEE operations read as exact real operations', 'coefficient arrays, delay lines and the ctx object do not overlap',
                        'linearity / time-invariance are consequences of the verified sum form']
    cres, ctab = consts.check(ctx.scr, ctx.cfg('all', 8))
    for name, ok, lit, closed, detail in cres:
        if name in ('A_TAU', 'A_1_TAU'):
            if ok:
                rep.ok('M0', name, '%s = %s (%s)' % (lit, closed, detail))
            elif ok is None:
                rep.unk('M0', name, detail)
            else:
                rep.bad('M0', name, 'literal %s is not %s (%s)' % (lit, closed, detail), key='%s: value' % name)
    hdr = ctx.module('hdr_unit')
    lk = lookup_in([hdr])
    fc = sp.Symbol('fc', positive=True)
    ts = sp.Symbol('ts', positive=True)
    # ---------------- G3 generators (+ macro twins through a probe unit)
    probe = ctx.scr.path('c16_probe.c')
    open(probe, 'w').write('#include "a/lpf.h"\n#include "a/hpf.h"\n'
                           'double verif_lpf_gen_macro(void){ return A_LPF_GEN(10, 0.01); }\n'
                           'double verif_hpf_gen_macro(void){ return A_HPF_GEN(10, 0.01); }\n')
    for name, want in (('a_lpf_gen', ts / (1 / (2 * sp.pi * fc) + ts)), ('a_hpf_gen', 1 / (2 * sp.pi * fc * ts + 1))):
        fn = ctx.fn('hdr_unit', name)
        if fn is None:
            rep.unk('G3', name, 'anchor vanished')
            continue
        loc = fn.loc(fn.entry.instrs[0])
        try:
            dom = alg.Alg(consts=ctab)
            dom.syms['fc'], dom.syms['ts'] = fc, ts
            it = symx.Interp(dom, lk)
            lv = it.run(fn, [fc, ts])
            if len(lv) != 1:
                raise Unsupported('%d paths' % len(lv))
            got = lv[0].ret
            if not alg.is_zero(got - want):
                rep.bad('G3', name, 'computes %s, documented %s' % (got, want), loc=loc, key='%s: formula' % name)
            else:
                rep.ok('G3', name, 'equals the documented formula %s' % want, loc=loc, sample={'fn': name, 'value': str(got)})
            if positive_rational(got.subs(sp.pi, sp.Symbol('PI', positive=True))) and positive_rational((1 - got).subs(sp.pi, sp.Symbol('PI', positive=True))):
                rep.ok('G3', name + ':range', 'value and 1-value are ratios of positive-coefficient polynomials in fc, ts: strictly inside (0,1)', loc=loc)
            else:
                rep.bad('G3', name + ':range', 'not provably inside (0,1) for positive fc, ts: %s' % got, loc=loc, key='%s: range' % name)
        except Unsupported as e:
            rep.unk('G3', name, str(e))
    # ---------------- G4 the generators saturate: no class of positive arguments turns into NaN / inf / a value above 1
    import mag
    EXPS = (-1074, -1022, -600, -100, -1, 0, 1, 100, 600, 1022, 1023)
    if ctx.tier == 'thorough':
        EXPS = tuple(sorted(set(range(-1074, 1024, 4)) | set(EXPS)))
    for name in ('a_lpf_gen', 'a_hpf_gen'):
        fn = ctx.fn('hdr_unit', name)
        if fn is None:
            rep.unk('G4', name, 'anchor vanished')
            continue
        loc = fn.loc(fn.entry.instrs[0])
        if len(fn.params) != 2 or mag.run(fn, [mag.binade(0), mag.binade(0)]) is None:
            rep.unk('G4', name, 'not straight-line arithmetic over the two arguments', loc=loc)
            continue
        worst, decided = [], 0
        for a in EXPS:
            for b in EXPS:
                r = mag.run(fn, [mag.binade(a), mag.binade(b)])
                if mag.out_of_unit_interval(r):
                    worst.append((a, b, r))
                if r != mag.TOP:
                    decided += 1
        if worst:
            a, b, r = worst[0]
            rep.bad('G4', name, 'for every %s in [2^%d, 2^%d] and %s in [2^%d, 2^%d] the result is %s, not a value of [0,1] (%d of %d magnitude classes)' % (
                fn.params[0][1], a, a + 1, fn.params[1][1], b, b + 1, mag.show(r), len(worst), len(EXPS) ** 2), loc=loc, key='%s: saturation' % name)
        else:
            rep.ok('G4', name, 'magnitude classes of the arguments (%d x %d binades from 2^-1074 to 2^1023): no class yields NaN, inf or a value above 1 '
                   '(%d classes decided, overflow / underflow of intermediate results included)' % (len(EXPS), len(EXPS), decided), loc=loc,
                   sample={'fn': name, 'classes': len(EXPS) ** 2, 'decided': decided})
    # ---------------- G5 the low-pass step stays finite: "within the range of the values fed so far" for ALL finite inputs
    import itertools
    import dwarf
    fn = ctx.fn('hdr_unit', 'a_lpf_iter')
    if fn is None:
        rep.unk('G5', 'a_lpf_iter', 'anchor vanished')
    else:
        loc = fn.loc(fn.entry.instrs[0])
        try:
            mem_ = dwarf.MD(hdr).structs().get('a_lpf', {}).get('members', [])
            idx = {m_['name']: k for k, m_ in enumerate(mem_)}
        except Exception:
            idx = {}
        E5 = (-1074, -600, 0, 600, 1023) if ctx.tier != 'thorough' else (-1074, -1022, -600, -60, 0, 60, 600, 1000, 1022, 1023)
        vals = [mag.binade(e, s_) for e in E5 for s_ in (1, -1)] + [mag.Z]
        alphas = [mag.Z] + [mag.binade(e) for e in (-1074, -600, -60, -2, -1)]
        if 'alpha' not in idx or 'output' not in idx or len(fn.params) != 2 or \
           mag.run(fn, [('ptr', 'ctx'), mag.binade(0)], None, 0, {('ctx', idx['alpha']): mag.binade(-1), ('ctx', idx['output']): mag.binade(0)}) is None:
            rep.unk('G5', 'a_lpf_iter', 'not straight-line arithmetic over the filter object and the input', loc=loc)
        else:
            worst, total, decided = [], 0, 0
            for al, o, x in itertools.product(alphas, vals, vals):
                mem = {('ctx', idx['alpha']): al, ('ctx', idx['output']): o}
                r = mag.run(fn, [('ptr', 'ctx'), x], None, 0, mem)
                got = mem[('ctx', idx['output'])]
                total += 1
                decided += got != mag.TOP
                if got == mag.NAN or got[0] == 'inf' or (r is not True and (r == mag.NAN or r[0] == 'inf')):
                    worst.append((al, o, x, got))
            if worst:
                al, o, x, got = worst[0]
                rep.bad('G5', 'a_lpf_iter', 'for every %s, %s and %s the new output is %s although every value fed so far is finite (%d of %d sign / magnitude classes)' % (
                    mag.show_class('alpha', al), mag.show_class('output', o), mag.show_class('x', x), mag.show(got), len(worst), total), loc=loc, key='a_lpf_iter: saturation')
            else:
                rep.ok('G5', 'a_lpf_iter', 'no sign / magnitude class of (alpha in [0,1], output, x) yields NaN or an infinity (%d classes, %d decided)' % (total, decided),
                       loc=loc, sample={'classes': total, 'decided': decided})
    try:
        ll = irx.compile_ir(ctx.scr, probe, ctx.cfg('all', 8), 'probe16')
        pm = llir.parse_module(ll)
        for pname, f0, want in (('verif_lpf_gen_macro', 'A_LPF_GEN', ts / (1 / (2 * sp.pi * fc) + ts)), ('verif_hpf_gen_macro', 'A_HPF_GEN', 1 / (2 * sp.pi * fc * ts + 1))):
            pf = pm.functions.get(pname)
            dom = alg.Alg()
            it = symx.Interp(dom, lookup_in([pm]))
            lv = it.run(pf, [])
            val = sp.N(lv[0].ret, 30)
            w = sp.N(want.subs({fc: 10, ts: sp.Rational(1, 100)}), 30)
            if abs(val - w) / abs(w) < sp.Float('1e-15'):
                rep.ok('G3', f0, 'macro twin folds to the documented value at the probe arguments (fc=10, ts=0.01)')
            else:
                rep.bad('G3', f0, 'macro twin gives %s, documented formula %s' % (val, w), key='%s: twin' % f0)
    except (Unsupported, irx.ToolError, KeyError, AttributeError) as e:
        rep.unk('G3', 'A_LPF_GEN/A_HPF_GEN', 'probe failed: %s' % str(e)[:200])
    # ---------------- G2 filters
    filt(ctx, lk)
    # ---------------- G1 transfer function
    tf(ctx)
    rep.floor('G3', 6)
    rep.floor('G4', 2)
    rep.floor('G5', 1)
    rep.floor('G2', 8)
    rep.floor('G1', 7)


def run1(ctx, unit, fname, sname, argn, lk, pre=''):
    fn = ctx.fn(unit, fname)
    if fn is None:
        return None, None, None
    names = names_for(ctx, unit, sname)
    dom = FDom(names)
    args = [Ptr('ctx', 0)] + [dom.sym(a, real=True) for a in argn]
    it = symx.Interp(dom, lk)
    return fn, dom, it.run(fn, args)


def final(dom, leaf, name):
    k = [kk for kk, v in dom.names.items() if v == name][0]
    if k in leaf.store:
        return leaf.store[k][0]
    return dom.sym(name, real=True)


def filt(ctx, lk):
    rep = ctx.rep
    S = lambda d, n: d.sym(n, real=True)
    table = [
        ('a_lpf_iter', 'a_lpf', ['x'], lambda d: {'output': (1 - S(d, 'alpha')) * S(d, 'output') + S(d, 'alpha') * S(d, 'x')}, 'output'),
        ('a_hpf_iter', 'a_hpf', ['x'], lambda d: {'output': S(d, 'alpha') * (S(d, 'output') + S(d, 'x') - S(d, 'input')), 'input': S(d, 'x')}, 'output'),
        ('a_lpf_zero', 'a_lpf', [], lambda d: {'output': 0}, None),
        ('a_hpf_zero', 'a_hpf', [], lambda d: {'output': 0, 'input': 0}, None),
        ('a_lpf_init', 'a_lpf', ['a'], lambda d: {'alpha': S(d, 'a'), 'output': 0}, None),
        ('a_hpf_init', 'a_hpf', ['a'], lambda d: {'alpha': S(d, 'a'), 'output': 0, 'input': 0}, None),
    ]
    for fname, sname, argn, want, retf in table:
        try:
            fn, dom, lv = run1(ctx, 'hdr_unit', fname, sname, argn, lk)
        except Unsupported as e:
            rep.unk('G2', fname, str(e))
            continue
        if fn is None:
            rep.unk('G2', fname, 'anchor vanished')
            continue
        loc = fn.loc(fn.entry.instrs[0])
        if len(lv) != 1:
            rep.unk('G2', fname, '%d paths' % len(lv), loc=loc)
            continue
        w = want(dom)
        probs = []
        for nm, e in w.items():
            g = final(dom, lv[0], nm)
            if not alg.is_zero(sp.sympify(g) - e):
                probs.append('%s becomes %s, documented %s' % (nm, g, e))
        for k in lv[0].store:
            if k in dom.names and dom.names[k] not in w:
                probs.append('also writes %s' % dom.names[k])
        if retf and not alg.is_zero(sp.sympify(lv[0].ret) - w[retf]):
            probs.append('returns %s, expected the new output' % lv[0].ret)
        if probs:
            rep.bad('G2', fname, '; '.join(probs), loc=loc, key='%s: recurrence' % fname)
        else:
            rep.ok('G2', fname, '; '.join('%s\' = %s' % (k, v) for k, v in w.items()), loc=loc, sample={'fn': fname})
        if fname == 'a_lpf_iter' and not probs:
            a = S(dom, 'alpha')
            e = sp.expand(final(dom, lv[0], 'output'))
            c_out = e.coeff(S(dom, 'output'))
            c_x = e.coeff(S(dom, 'x'))
            if alg.is_zero(c_out + c_x - 1) and alg.is_zero(c_x - a):
                rep.ok('G2', fname + ':convex', 'coefficients (1-alpha), alpha sum to 1 and are >= 0 on alpha in [0,1]: convex combination (stays in the range of fed values, fixed point = constant input)', loc=loc)
            else:
                rep.bad('G2', fname + ':convex', 'coefficients %s and %s do not form a convex combination' % (c_out, c_x), loc=loc, key='a_lpf_iter: convex')
        if fname == 'a_hpf_iter' and not probs:
            e = final(dom, lv[0], 'output').subs(S(dom, 'x'), S(dom, 'input'))
            if alg.is_zero(e - S(dom, 'alpha') * S(dom, 'output')):
                rep.ok('G2', fname + ':decay', 'for a constant input (x = stored input) output\' = alpha*output: geometric decay to 0 for alpha in [0,1)', loc=loc)
            else:
                rep.bad('G2', fname + ':decay', 'constant input gives %s' % e, loc=loc, key='a_hpf_iter: decay')


def tf(ctx):
    rep = ctx.rep
    mods = [ctx.module('tf')]
    lk = lookup_in(mods)
    fn = ctx.fn('tf', 'a_tf_iter')
    if fn is None:
        rep.unk('G1', 'a_tf_iter', 'anchor vanished')
        return
    loc = fn.loc(fn.entry.instrs[0])
    try:
        names = names_for(ctx, 'tf', 'a_tf')
        nest = looptx.nesting(fn)
        if len(nest) != 2 or nest[0][3] is not None or nest[1][3] is not None:
            raise Unsupported('expected two sequential loops, found %d' % len(nest))
        # order the loops by dominance
        l1, l2 = nest
        if fn.dominates(l2[0], l1[0]):
            l1, l2 = l2, l1
        x = sp.Symbol('x', real=True)
        accs = []
        prev_exit_env = None
        from_block = None
        y_in = sp.Integer(0)
        calls_before = []
        for which, (hdr, body, lat, _) in enumerate((l1, l2)):
            if not (hdr.term.op == 'br' and len(hdr.succs) == 2 and any(b_ not in body for b_ in hdr.succs) and hdr not in hdr.succs):
                raise Unsupported('loop %d is not tested at its head (do-while form): the sum template does not apply' % (which + 1))
            dom = FDom(names)
            dom.syms['x'] = x
            roles = {}

            def bind(ph, init, dom=dom, roles=roles):
                if ph.ty.is_fp:
                    roles['y'] = ph.res
                    return dom.sym('Y', real=True)
                roles['i'] = ph.res
                return dom.sym('i', integer=True, nonnegative=True)
            if which == 0:
                tx = looptx.transformer(fn, lk, [Ptr('ctx', 0), x], dom, bind, loop=(hdr, body, lat))
            else:
                # start behind loop 1: its exit state with loop 1's variables as symbols
                tx1_, r1_, d1_ = accs[0]
                if len(tx1_.exits) != 1:
                    raise Unsupported('first loop has %d exits' % len(tx1_.exits))
                s_ex, b_ex, p_ex = tx1_.exits[0]
                env = dict(s_ex.env)
                dom.syms.update(d1_.syms)
                st0 = symx.State()
                tx = looptx.transformer(fn, lk, [Ptr('ctx', 0), x], dom, bind, loop=(hdr, body, lat), pre_env=env, from_block=b_ex,
                                        from_prev=p_ex, pre_state=st0)
            if set(roles) != {'y', 'i'} or len(tx.backs) != 1:
                raise Unsupported('loop %d does not have the (index, accumulator) shape' % (which + 1))
            s1, nv = tx.backs[0]
            i, Y = tx.sym[roles['i']], tx.sym[roles['y']]
            coef, line, cnt, sign = (('num_p', 'input', 'num_n', 1), ('den_p', 'output', 'den_n', -1))[which]
            term = dom.sym('*%s[8*i]' % coef, real=True) * dom.sym('*%s[8*i]' % line, real=True)
            probs = []
            if not alg.is_zero(nv[roles['y']] - (Y + sign * term)):
                probs.append('accumulator <- %s, expected Y %s %s[i]*%s[i]' % (nv[roles['y']], '+' if sign > 0 else '-', coef, line))
            if not alg.is_zero(nv[roles['i']] - i - 1):
                probs.append('index <- %s' % nv[roles['i']])
            g = [c for c in s1.pc if isinstance(c, alg.Cond)]
            n_sym = dom.sym(cnt, real=True)
            def guards(c):
                # i != n, i < n, and the mirrored spellings n != i, n > i
                if c.rel() in ('!=', '<') and alg.is_zero(c.a - i) and alg.is_zero(c.b - n_sym):
                    return True
                return c.rel() in ('!=', '>') and alg.is_zero(c.b - i) and alg.is_zero(c.a - n_sym)
            if not any(guards(c) for c in g):
                probs.append('guard %s, expected i != %s' % (g, cnt))
            if dom.concrete(tx.init[roles['i']]) != 0:
                probs.append('index starts at %s' % tx.init[roles['i']])
            accs.append((tx, roles, dom))
            if which == 0:
                if not alg.is_zero(sp.sympify(tx.init[roles['y']])):
                    probs.append('accumulator starts at %s, expected 0' % tx.init[roles['y']])
                calls_before = [c for c in tx.pre.calls]
            if probs:
                rep.bad('G1', 'a_tf_iter:sum%d' % (which + 1), '; '.join(probs), loc=loc, key='a_tf_iter: sum %d' % (which + 1))
            else:
                rep.ok('G1', 'a_tf_iter:sum%d' % (which + 1), 'y %s= %s[i]*%s[i] for i = 0..%s-1' % ('+' if sign > 0 else '-', coef, line, cnt), loc=loc,
                       sample={'acc': str(nv[roles['y']])})
        # second loop's accumulator starts as the first loop's accumulator
        tx2, r2, d2 = accs[1]
        tx1, r1, d1 = accs[0]
        y2_init = tx2.init[r2['y']]
        probs = []
        # tx2's pre-state was computed from the entry: loop 1 ran symbolically 0 times -> init of loop2's y is loop1's phi at exit
        # (checked structurally: the phi operand of loop 2's accumulator on entry is loop 1's accumulator phi)
        if tx2.init[r2['y']] != tx1.sym[r1['y']]:
            probs.append('the denominator sum starts from %s, not from the numerator sum' % (tx2.init[r2['y']],))
        # calls: push_fore(input, num_n, x) before loop 1; push_fore(output, den_n, y) after loop 2; return y
        cb = [c for c in calls_before if c[0] == 'a_real_push_fore']
        if not (len(cb) == 1 and isinstance(cb[0][1][0], Ptr) and cb[0][1][0].base == '*input' and alg.is_zero(cb[0][1][1] - d1.sym('num_n', real=True)) and cb[0][1][2] == x):
            probs.append('before the sums: %s, expected a_real_push_fore(input, num_n, x)' % (calls_before,))
        fin = tx2.finals or []
        if len(fin) != 1:
            probs.append('%d exits after the sums' % len(fin))
        else:
            sf, rv = fin[0]
            after = [c for c in sf.calls if c[0] == 'a_real_push_fore']
            Y2 = tx2.sym[r2['y']]
            if not (len(after) == 1 and isinstance(after[0][1][0], Ptr) and after[0][1][0].base == '*output' and alg.is_zero(after[0][1][1] - d2.sym('den_n', real=True)) and after[0][1][2] == Y2):
                probs.append('after the sums: %s, expected a_real_push_fore(output, den_n, y)' % (sf.calls,))
            if rv != Y2:
                probs.append('returns %s, expected y' % rv)
        if probs:
            rep.bad('G1', 'a_tf_iter:order', '; '.join(probs), loc=loc, key='a_tf_iter: order')
        else:
            rep.ok('G1', 'a_tf_iter:order', 'push_fore(input,num_n,x); numerator sum; denominator sum continues it; push_fore(output,den_n,y); return y', loc=loc)
    except Unsupported as e:
        rep.unk('G1', 'a_tf_iter', str(e))
    # ---- a_real_push_fore: delay-line shift
    fn = ctx.fn('math', 'a_real_push_fore')
    if fn is None:
        rep.unk('G1', 'a_real_push_fore', 'anchor vanished')
    else:
        loc = fn.loc(fn.entry.instrs[0])
        try:
            dom = FDom({})
            n = dom.sym('n', integer=True, nonnegative=True)
            x = dom.sym('x', real=True)
            it = symx.Interp(dom, lookup_in([fn.module]))
            lv = it.run(fn, [Ptr('p', 0), n, x])
            probs = []
            seen = set()
            for lf in lv:
                c = [cc for cc in lf.pc if isinstance(cc, alg.Cond)]
                if len(c) == 1 and c[0].rel() == '!=' and c[0].a == n:
                    seen.add('nz')
                    mv = [cl for cl in lf.calls if cl[0] == 'a_move']
                    if not (len(mv) == 1 and mv[0][1][0] == Ptr('p', 8) and mv[0][1][1] == Ptr('p', 0) and alg.is_zero(mv[0][1][2] - 8 * (n - 1))):
                        probs.append('move %s, expected a_move(p+1, p, 8*(n-1))' % (mv,))
                    st = {k: v for k, v in lf.store.items() if k[0] == 'p'}
                    if not (set(st) == {('p', 0)} and st[('p', 0)][0] == x):
                        probs.append('stores %s, expected p[0] = x' % st)
                    # order: move before the store (otherwise p[0] is shifted too) - the store must not precede the call
                elif len(c) == 1 and c[0].rel() == '==' and c[0].a == n:
                    seen.add('z')
                    if lf.calls or any(k[0] == 'p' for k in lf.store):
                        probs.append('n == 0 path has effects')
                else:
                    probs.append('unexpected path %s' % c)
            if seen != {'nz', 'z'}:
                probs.append('paths %s' % seen)
            if probs:
                rep.bad('G1', 'a_real_push_fore', '; '.join(probs), loc=loc, key='a_real_push_fore: shift')
            else:
                rep.ok('G1', 'a_real_push_fore', 'n != 0: cells [0,n-1) move to [1,n), then p[0] = x (most recent first); n == 0: no effect', loc=loc)
        except Unsupported as e:
            rep.unk('G1', 'a_real_push_fore', str(e))
    # ---- zero / setters zero exactly num_n / den_n cells
    for fname, argn in (('a_tf_zero', []), ('a_tf_set_num', None), ('a_tf_set_den', None), ('a_tf_init', None)):
        fn = ctx.fn('tf', fname)
        if fn is None:
            rep.unk('G1', fname, 'anchor vanished')
            continue
        loc = fn.loc(fn.entry.instrs[0])
        try:
            names = names_for(ctx, 'tf', 'a_tf')
            dom = FDom(names)
            if fname == 'a_tf_zero':
                args = [Ptr('ctx', 0)]
                want = [('*input', dom.sym('num_n', real=True)), ('*output', dom.sym('den_n', real=True))]
            elif fname == 'a_tf_init':
                nn, dn = dom.sym('n', integer=True, nonnegative=True), dom.sym('m', integer=True, nonnegative=True)
                args = [Ptr('ctx', 0), nn, Ptr('coef', 0), Ptr('line', 0), dn, Ptr('coef2', 0), Ptr('line2', 0)]
                want = [('line', nn), ('line2', dn)]
            else:
                nn = dom.sym('n', integer=True, nonnegative=True)
                args = [Ptr('ctx', 0), nn, Ptr('coef', 0), Ptr('line', 0)]
                want = [('line', nn)]
            it = symx.Interp(dom, lk)
            lv = it.run(fn, args)
            if fname == 'a_tf_zero' and 1 < len(lv) <= 8:
                # several paths (guards around the clearing): on each of them a delay line may stay uncleared only when the path
                # condition says it is empty
                zprobs = []
                for lf in lv:
                    z = [c for c in lf.calls if c[0] == 'a_zero' or c[0].startswith('llvm.memset')]
                    got = []
                    for c in z:
                        p = c[1][0]
                        size = c[1][1] if c[0] == 'a_zero' else c[1][2]
                        got.append((p.base if isinstance(p, Ptr) else None, sp.sympify(size) / 8))
                    for w in want:
                        if any(g[0] == w[0] and alg.is_zero(g[1] - w[1]) for g in got):
                            continue
                        empty = any(isinstance(c_, alg.Cond) and c_.rel() == '==' and ((sp.sympify(c_.a) == w[1] and c_.b == 0) or (sp.sympify(c_.b) == w[1] and c_.a == 0)) for c_ in lf.pc)
                        if not empty:
                            zprobs.append('on the path %s the delay line %s[0..%s) is not cleared' % (lf.pc, w[0], w[1]))
                    for g in got:
                        if not any(g[0] == w[0] and alg.is_zero(g[1] - w[1]) for w in want):
                            zprobs.append('clears %s[0..%s)' % g)
                if zprobs:
                    rep.bad('G1', fname, '; '.join(sorted(set(zprobs))[:2]), loc=loc, key='%s: zero extent' % fname)
                else:
                    rep.ok('G1', fname, 'on all %d paths every non-empty delay line is cleared over exactly its length' % len(lv), loc=loc)
                continue
            if len(lv) != 1:
                raise Unsupported('%d paths' % len(lv))
            # the fields the setter is responsible for, and only those
            if fname != 'a_tf_zero':
                byname = {v_: k_ for k_, v_ in names.items()}
                exp = {}
                if fname in ('a_tf_set_num', 'a_tf_init'):
                    exp.update({'num_n': nn, 'num_p': Ptr('coef', 0), 'input': Ptr('line', 0)})
                if fname == 'a_tf_set_den':
                    exp.update({'den_n': nn, 'den_p': Ptr('coef', 0), 'output': Ptr('line', 0)})
                if fname == 'a_tf_init':
                    exp.update({'den_n': dn, 'den_p': Ptr('coef2', 0), 'output': Ptr('line2', 0)})
                fprobs = []
                for fld_, wv in exp.items():
                    got_ = lv[0].store.get(byname.get(fld_))
                    gv = got_[0] if got_ else None
                    same = (isinstance(wv, Ptr) and isinstance(gv, Ptr) and gv == wv) or (not isinstance(wv, Ptr) and gv is not None and not isinstance(gv, Ptr) and alg.is_zero(sp.sympify(gv) - wv))
                    if not same:
                        fprobs.append('%s = %s, expected %s' % (fld_, gv, wv))
                for k_, v_ in lv[0].store.items():
                    if k_[0] == 'ctx' and names.get(k_) not in exp:
                        fprobs.append('also writes %s' % names.get(k_, k_))
                if fprobs:
                    rep.bad('G1', fname, '; '.join(sorted(set(fprobs))[:3]), loc=loc, key='%s: fields' % fname)
                    continue
            z = [c for c in lv[0].calls if c[0] == 'a_zero' or c[0].startswith('llvm.memset')]
            got = []
            for c in z:
                p = c[1][0]
                size = c[1][1] if c[0] == 'a_zero' else c[1][2]
                got.append((p.base if isinstance(p, Ptr) else None, sp.sympify(size) / 8))
            okz = len(got) == len(want) and all(any(g[0] == w[0] and alg.is_zero(g[1] - w[1]) for g in got) for w in want)
            if okz:
                rep.ok('G1', fname, 'zeroes exactly %s' % ', '.join('%s[0..%s)' % w for w in want), loc=loc)
            else:
                rep.bad('G1', fname, 'zeroing effects %s, expected %s' % (got, want), loc=loc, key='%s: zero extent' % fname)
        except Unsupported as e:
            rep.unk('G1', fname, str(e))
