"""C14 - velocity-profile trajectories (DESIGN 4 C14).
J1 calculus consistency: on every elementary interval of the query time, in both directions of travel, vel = d pos/dx,
acc = d vel/dx (and jer = d acc/dx); queries outside [0,t] hold the boundary state.
J2 continuity / end state per planning branch of the generator, modulo the relations that branch assigns (thorough for
the bell profile).  The kinematic-limit inequalities and the bisection are NOT decided."""
import functools
import sympy as sp
import symx, alg, dwarf, llir
from symx import Ptr, Unsupported, TOP

LEVEL = 'other'
X = sp.Symbol('x', real=True)


def lookup_in(mods):
    def lk(name):
        for m in mods:
            f = m.functions.get(name)
            if f is not None and not f.error:
                return f
        return None
    return lk


def P(n):
    return sp.Symbol(n, positive=True)


def sign_of(e):
    e = sp.sympify(e)
    if e == 0:
        return 0
    for f in (lambda t: t, sp.expand, lambda t: sp.factor(sp.together(t))):
        t = f(e)
        if t == 0:
            return 0
        if t.is_positive:
            return 1
        if t.is_negative:
            return -1
    return None


def names_for(ctx, unit, sname):
    md = dwarf.MD(ctx.module(unit))
    fl = md.flatten(sname)
    if not fl:
        raise Unsupported('no layout for %s' % sname)
    return {('ctx', off): nm for off, nm in fl.items()}


def leaves_of(ctx, unit, fname, sname, dom_syms=None):
    fn = ctx.fn(unit, fname)
    if fn is None:
        return None, None, None
    names = names_for(ctx, unit, sname)
    dom = alg.Alg(names)
    dom.syms['x'] = X
    it = symx.Interp(dom, lookup_in([ctx.module(unit)]))
    lv = it.run(fn, [Ptr('ctx', 0), X])
    return fn, dom, lv


def atoms_of(c):
    if isinstance(c, alg.BoolOp):
        out = []
        for a in c.args:
            out.extend(atoms_of(a))
        return out
    return [c]


def split_pc(lf):
    xc, oc = [], []
    todo = list(lf.pc)
    while todo:
        c = todo.pop(0)
        if isinstance(c, alg.BoolOp) and c.op == 'and':
            todo = list(c.args) + todo
            continue
        if any(isinstance(a, alg.Cond) and (sp.sympify(a.a).has(X) or sp.sympify(a.b).has(X)) for a in atoms_of(c)):
            xc.append(c)
        else:
            oc.append(c)
    return xc, oc


_FLIP = {'<': '>', '>': '<', '<=': '>=', '>=': '<=', '==': '==', '!=': '!='}


def canon_cond(c):
    """printed form of a comparison that does not depend on how it is spelled: a > b, b < a -> 'a - b > 0'"""
    if not isinstance(c, alg.Cond):
        return str(c)
    try:
        d = sp.expand(sp.sympify(c.a) - sp.sympify(c.b))
        rel = c.rel()
        if d != 0 and d.as_ordered_terms()[0].as_coeff_Mul()[0] < 0:
            d, rel = -d, _FLIP[rel]
        return '%s %s 0' % (d, rel)
    except Exception:
        return str(c)


def mode_key(oc):
    return tuple(sorted(set(canon_cond(c) for c in oc)))


def is_reversed(c, a, b):
    """True when the comparison says a > b (in either spelling)"""
    return canon_cond(c) == canon_cond(alg.Cond('fcmp', 'ogt', sp.Symbol(a, real=True), sp.Symbol(b, real=True))) if isinstance(c, alg.Cond) else False


def thresholds(lv):
    ts = []
    for lf in lv:
        for c0 in split_pc(lf)[0]:
          for c in atoms_of(c0):
            d = sp.expand(sp.sympify(c.a) - sp.sympify(c.b))
            if not d.has(X):
                continue
            sol = sp.solve(d, X)
            if len(sol) != 1:
                raise Unsupported('non-linear breakpoint %s' % c)
            if not any(alg.is_zero(sol[0] - t) for t in ts):
                ts.append(sol[0])
    return ts


def holds(c, xv, par):
    if isinstance(c, alg.BoolOp):
        vals = [holds(a, xv, par) for a in c.args]
        if c.op == 'and':
            return False if any(v is False for v in vals) else (None if any(v is None for v in vals) else True)
        return True if any(v is True for v in vals) else (None if any(v is None for v in vals) else False)
    d = (sp.sympify(c.a) - sp.sympify(c.b)).subs(X, xv).subs(par)
    s = sign_of(d)
    if s is None:
        return None
    return {'<': s < 0, '<=': s <= 0, '>': s > 0, '>=': s >= 0, '==': s == 0, '!=': s != 0}[c.rel()]


def leaf_at(lv, xv, par, mode):
    out = []
    for lf in lv:
        xc, oc = split_pc(lf)
        if not set(mode_key(oc)) <= set(mode):
            continue   # a path without a direction test belongs to every mode
        ok = True
        for c in xc:
            h = holds(c, xv, par)
            if h is None:
                raise Unsupported('cannot decide %s at x=%s' % (c, xv))
            if not h:
                ok = False
                break
        if ok:
            out.append(lf)
    return out


def cells(ts, par):
    def cmpf(u, v):
        s = sign_of((u - v).subs(par))
        if s is None:
            raise Unsupported('cannot order breakpoints %s, %s' % (u, v))
        return s
    ts = sorted(ts, key=functools.cmp_to_key(cmpf))
    # drop duplicates under the parametrisation
    uniq = []
    for t in ts:
        if not uniq or sign_of((t - uniq[-1]).subs(par)) != 0:
            uniq.append(t)
    out = []
    for i in range(len(uniq) + 1):
        lo = uniq[i - 1] if i > 0 else -sp.oo
        hi = uniq[i] if i < len(uniq) else sp.oo
        mid = hi - 1 if lo == -sp.oo else (lo + 1 if hi == sp.oo else (lo + hi) / 2)
        out.append((lo, hi, mid))
    return out, uniq


def calculus(ctx, rep, unit, sname, chain, par, label, tsym=None):
    """chain = [pos, vel, acc(, jer)] function names"""
    res = {}
    for f in chain:
        fn, dom, lv = leaves_of(ctx, unit, f, sname)
        if fn is None:
            rep.unk('J1', f, 'anchor vanished')
            return None
        res[f] = (fn, dom, lv)
    # modes: direction of travel etc. (conditions that do not mention the query time)
    modes = set()
    for f in chain:
        for lf in res[f][2]:
            modes.add(mode_key(split_pc(lf)[1]))
    full = set(m for m in modes if m) or {()}
    # a function without the mode split (e.g. trajtrap has none) uses the empty mode
    ts = []
    for f in chain:
        for t in thresholds(res[f][2]):
            if not any(alg.is_zero((t - u)) for u in ts):
                ts.append(t)
    cl, uniq = cells(ts, par)
    for k in range(len(chain) - 1):
        f, g = chain[k], chain[k + 1]
        probs = []
        ncell = 0
        for fm in sorted(full):
            for gm in [fm]:
                for lo, hi, mid in cl:
                    # outside [0, t] the evaluators hold the boundary state (rule J1h), no derivative relation there
                    if lo == -sp.oo or hi == sp.oo or sign_of(sp.sympify(lo).subs(par)) < 0 or (tsym is not None and sign_of((tsym - hi).subs(par)) < 0):
                        continue
                    a = leaf_at(res[f][2], mid, par, fm)
                    b = leaf_at(res[g][2], mid, par, gm)
                    if len(a) != 1 or len(b) != 1:
                        probs.append('%d/%d paths cover x in (%s, %s)' % (len(a), len(b), lo, hi))
                        continue
                    ncell += 1
                    da = sp.diff(sp.sympify(a[0].ret), X)
                    if not alg.is_zero(sp.expand(da - sp.sympify(b[0].ret))):
                        probs.append('on (%s, %s)%s: d %s/dx = %s but %s = %s' % (lo, hi, ' [' + ','.join(fm) + ']' if fm else '', f, sp.expand(da), g, sp.expand(sp.sympify(b[0].ret))))
        loc = res[g][0].loc(res[g][0].entry.instrs[0])
        if probs:
            rep.bad('J1', '%s/%s' % (f, g), '; '.join(sorted(set(probs))[:2])[:600], loc=loc, key='%s: derivative of %s' % (g, f))
        else:
            rep.ok('J1', '%s/%s' % (f, g), '%s = d %s / dx on all %d (mode, interval) cells; breakpoints %s' % (g, f, ncell, [str(u) for u in uniq]), loc=loc,
                   sample={'pair': [f, g], 'cells': ncell})
    return res, cl, uniq


def compatible(fm, gm):
    # modes are sets of printed conditions: compatible unless one contains the negation of the other (p0 > p1 vs p0 <= p1)
    def norm(s):
        return s.replace(' ', '')
    a, b = set(map(norm, fm)), set(map(norm, gm))
    for c in a:
        for d in b:
            if c.replace('<=', '§').replace('>', '<=').replace('§', '>') == d and c != d:
                return False
    return True


def run(ctx):
    rep = ctx.rep
    rep.explanation = ('each evaluator is interpreted into its decision tree over the query time with the trajectory fields symbolic; phase '
                       'durations are ordered through positive gap symbols to enumerate the elementary intervals; on every interval and in '
                       'both directions of travel the derivative identity is a polynomial identity in x with the fields as free symbols; '
                       'continuity/end state: the generator is interpreted per planning branch and its field assignments are substituted '
                       'into the boundary equations, decided modulo the square-root relations')
    rep.trusted += ['lib/symx.py, lib/alg.py', 'sympy (diff, expand, solve for linear breakpoints, polynomial remainder)']
    rep.assumptions += ['IEEE operations read as exact real operations', 'phase durations non-negative and ordered (used only to enumerate intervals)',
                        'NOT decided: velocity/acceleration/jerk limit inequalities, feasibility, non-negativity of the planned durations, the bisection loop of a_trajbell_gen']
    # ---------------- trapezoid
    g1, g2, g3 = P('g1'), P('g2'), P('g3')
    S = lambda n: sp.Symbol(n, real=True)
    par = {S('ta'): g1, S('td'): g1 + g2, S('t'): g1 + g2 + g3}
    try:
        r = calculus(ctx, rep, 'trajtrap', 'a_trajtrap', ['a_trajtrap_pos', 'a_trajtrap_vel', 'a_trajtrap_acc'], par, 'trap', S('t'))
        if r:
            boundary_hold(rep, r[0], par, 'a_trajtrap', {'a_trajtrap_pos': ('p0', 'p1'), 'a_trajtrap_vel': ('v0', 'v1'), 'a_trajtrap_acc': (0, 0)}, S('t'))
    except Unsupported as e:
        rep.unk('J1', 'a_trajtrap', str(e))
    # ---------------- bell
    h1, h2, h3, h4, h5 = P('h1'), P('h2'), P('h3'), P('h4'), P('h5')
    parb = {S('taj'): h1, S('ta'): 2 * h1 + h2, S('tv'): h3, S('tdj'): h4, S('td'): 2 * h4 + h5}
    parb[S('t')] = parb[S('ta')] + parb[S('tv')] + parb[S('td')]
    try:
        r2 = calculus(ctx, rep, 'trajbell', 'a_trajbell', ['a_trajbell_pos', 'a_trajbell_vel', 'a_trajbell_acc', 'a_trajbell_jer'], parb, 'bell', S('t'))
        if r2:
            boundary_hold(rep, r2[0], parb, 'a_trajbell', {'a_trajbell_pos': ('p0', 'p1'), 'a_trajbell_vel': ('v0', 'v1'), 'a_trajbell_acc': (0, 0)}, S('t'))
    except Unsupported as e:
        rep.unk('J1', 'a_trajbell', str(e))
    # ---------------- J2
    try:
        trap_gen(ctx, r[0] if r else None, par)
    except Unsupported as e:
        rep.unk('J2', 'a_trajtrap_gen', str(e))
    try:
        bell_gen(ctx, r2[0] if r2 else None, parb)
    except Unsupported as e:
        rep.unk('J2', 'a_trajbell_gen', str(e))
    magnitude_only(ctx)
    rep.floor('J5', 4)
    rep.floor('J6', 2)
    rep.floor('J1', 5)
    rep.floor('J1h', 6)
    rep.floor('J2', 5)
    rep.floor('J3', 1)


def boundary_hold(rep, res, par, sname, table, tsym):
    for f, (lo_name, hi_name) in table.items():
        fn, dom, lv = res[f]
        loc = fn.loc(fn.entry.instrs[0])
        modes = set(mode_key(split_pc(lf)[1]) for lf in lv)
        modes = set(m for m in modes if m) or {()}
        probs = []
        for m in modes:
            for xv, want in ((sp.Integer(-1), lo_name), (tsym + 1, hi_name)):
                ls = leaf_at(lv, xv, par, m)
                if len(ls) != 1:
                    probs.append('%d paths at x=%s' % (len(ls), xv))
                    continue
                w = sp.Symbol(want, real=True) if isinstance(want, str) else sp.Integer(want)
                if not alg.is_zero(sp.sympify(ls[0].ret) - w):
                    probs.append('query at x=%s returns %s, expected %s' % (xv, ls[0].ret, want))
        if probs:
            rep.bad('J1h', f, '; '.join(sorted(set(probs))[:2]), loc=loc, key='%s: boundary hold' % f)
        else:
            rep.ok('J1h', f, 'queries before 0 / after t return %s / %s' % (lo_name, hi_name), loc=loc)


# ---------------------------------------------------------------- J5 limits enter through their magnitude
def magnitude_only(ctx):
    """J2/J3 analyse the generators for POSITIVE limits; the property quantifies over all finite limits.  What reduces the one to the other
    is the prologue  if (m < 0) m = -m  of every limit argument.  Rule: a limit argument m is used by nothing but (a) a comparison with
    0, (b) its own negation, (c) the merge  (m < 0 ? -m : m)  - whose orientation is checked -, and that negation feeds nothing but the
    merge; everything else (the clamps of the boundary velocities in particular) sees the magnitude."""
    rep = ctx.rep
    for unit, fname, limits in (('trajtrap', 'a_trajtrap_gen', ['vm']), ('trajbell', 'a_trajbell_gen', ['jm', 'am', 'vm'])):
        fn = ctx.fn(unit, fname)
        if fn is None:
            rep.unk('J5', fname, 'anchor vanished')
            continue
        pnames = [pn for _, pn in fn.params]
        for P in limits:
            sym = '%s(%s)' % (fname, P)
            if P not in pnames:
                rep.unk('J5', sym, 'parameter vanished (parameters: %s)' % pnames)
                continue
            instrs = list(fn.instrs())
            uses = lambda r: [i for i in instrs if any(o.k == 'reg' and o.v == r for o in i.ops)]
            is_zero = lambda o: o.k == 'fp' and float(o.v) == 0.0
            negs, merges, probs = [], [], []
            for i in uses(P):
                if i.op == 'fcmp' and any(is_zero(o) for o in i.ops):
                    continue
                if i.op == 'fcmp' and (i.x.get('pred') in ('uno', 'ord') or (len(i.ops) == 2 and all(o.k == 'reg' and o.v == P for o in i.ops))):
                    continue      # a NaN test (m != m, isnan): says nothing about the sign
                if i.op == 'fneg':
                    negs.append(i)
                    continue
                if i.op in ('select', 'phi') or (i.op == 'call' and 'fabs' in str(i.x.get('callee').v if i.x.get('callee') is not None else '')):
                    merges.append(i)
                    continue
                probs.append('the raw argument is used by %s %%%s (%s) - a negative limit is not reduced to its magnitude there' % (i.op, i.res, fn.loc(i)))
            negres = set(n.res for n in negs)
            for n in negs:
                for u in uses(n.res):
                    if u not in merges and not (u.op in ('select', 'phi') and any(o.k == 'reg' and o.v == P for o in u.ops)):
                        probs.append('the negation of the raw argument is used by %s %%%s (%s)' % (u.op, u.res, fn.loc(u)))
            for mg in merges:
                if mg.op == 'select':
                    c, a, b = mg.ops
                    cd = fn.defs.get(c.v) if c.k == 'reg' else None
                    if cd is None or cd.op != 'fcmp':
                        probs.append('the merge %%%s is not controlled by a comparison of the argument with 0' % mg.res)
                        continue
                    x, y = cd.ops
                    pred = cd.x['pred'][1:]
                    if is_zero(x) and y.k == 'reg' and y.v == P:
                        pred = {'lt': 'gt', 'le': 'ge', 'gt': 'lt', 'ge': 'le'}.get(pred, pred)
                    elif not (is_zero(y) and x.k == 'reg' and x.v == P):
                        probs.append('the merge %%%s is controlled by %s, not by the sign of the argument' % (mg.res, cd.res))
                        continue
                    neg_when_true = pred in ('lt', 'le')
                    pos_when_true = pred in ('gt', 'ge')
                    a_neg = a.k == 'reg' and a.v in negres
                    b_neg = b.k == 'reg' and b.v in negres
                    a_raw = a.k == 'reg' and a.v == P
                    b_raw = b.k == 'reg' and b.v == P
                    if not ((neg_when_true and a_neg and b_raw) or (pos_when_true and a_raw and b_neg)):
                        probs.append('the merge %%%s = (%s %s 0 ? %s : %s) is not the magnitude of the argument' % (mg.res, P, pred, 'negated' if a_neg else 'raw', 'negated' if b_neg else 'raw'))
                elif mg.op == 'phi':
                    inc = set(o.v for o in mg.ops if o.k == 'reg')
                    if not (P in inc and inc & negres and len(inc) == 2):
                        probs.append('the merge %%%s joins %s, expected the argument and its negation' % (mg.res, sorted(inc)))
            if not merges and (negs or probs):
                probs.append('no magnitude is formed from the argument')
            loc = fn.loc(fn.entry.instrs[0])
            if probs:
                rep.bad('J5', sym, '; '.join(sorted(set(probs))[:2]), loc=loc, key='%s: limit %s used raw' % (fname, P))
            else:
                rep.ok('J5', sym, 'used only by the sign test, its negation and the merge (%s < 0 ? -%s : %s); everything else sees the magnitude (%d uses)' % (P, P, P, len(uses(P))), loc=loc,
                       sample={'fn': fname, 'limit': P, 'uses': len(uses(P))})


# ---------------------------------------------------------------- J2 generators
def gen_leaves(ctx, unit, fname, sname, argn, prune=False, positive=()):
    fn = ctx.fn(unit, fname)
    if fn is None:
        return None, None, None
    names = names_for(ctx, unit, sname)
    dom = alg.Alg(names)
    args = [Ptr('ctx', 0)] + [dom.sym(a, real=True, **({'positive': True} if a in positive else {})) for a in argn]
    it = symx.Interp(dom, lookup_in([ctx.module(unit)]), max_paths=20000, max_steps=3000000)
    it.prune_loops = prune
    lv = it.run(fn, args)
    return fn, dom, lv


def final_fields(dom, lf):
    out = {}
    for k, nm in dom.names.items():
        if k in lf.store:
            out[sp.Symbol(nm, real=True)] = sp.sympify(lf.store[k][0])
    return out


def result_record(rep, fname, fn, dom, lv, res, total=None):
    """J6: a planning path that reports success (non-zero duration) has written every field the evaluators read - a field left as it was
    makes the evaluators answer from the previous trajectory - and the duration it returns is the one it stored"""
    S = lambda n: sp.Symbol(n, real=True)
    fields = set(dom.names.values())
    read = set()
    for f, (fn2, dom2, lv2) in (res or {}).items():
        for l in lv2:
            terms = [l.ret] + [x for c in l.pc for x in ((c.a, c.b) if isinstance(c, alg.Cond) else [a_ for cc in atoms_of(c) for a_ in (cc.a, cc.b)])]
            for t_ in terms:
                try:
                    read |= set(str(x) for x in sp.sympify(t_).free_symbols)
                except Exception:
                    pass
    need = sorted(fields & read)
    probs, n = [], 0
    for lf in lv:
        r = lf.ret
        if r is None or r is TOP:
            continue
        ff = final_fields(dom, lf)
        if sp.sympify(r) == 0:
            continue
        n += 1
        missing = [f for f in need if S(f) not in ff]
        if missing:
            probs.append('a successful planning path leaves %s as it was (path %s)' % (', '.join(missing), str(lf.pc)[-120:]))
            continue
        if sp.sympify(r).has(sp.zoo, sp.nan, sp.oo) or sp.sympify(ff[S('t')]).has(sp.zoo, sp.nan, sp.oo):
            continue          # a clamp combination under which this branch divides by v0 + v1 = 0: the branch is not taken for such requests
        if not alg.sqrt_zero(sp.sympify(r) - sp.sympify(ff[S('t')])):
            probs.append('returns %s, the stored duration is %s' % (r, ff[S('t')]))
        if total is not None and not alg.sqrt_zero(sp.sympify(ff[S('t')]) - sum(sp.sympify(ff[S(x)]) for x in total)):
            probs.append('the stored duration %s is not %s' % (ff[S('t')], ' + '.join(total)))
    loc = fn.loc(fn.entry.instrs[0])
    if not need or not n:
        rep.unk('J6', fname, 'no successful planning path / no fields read by the evaluators found', loc=loc)
    elif probs:
        rep.bad('J6', fname, '; '.join(sorted(set(probs))[:2])[:600], loc=loc, key='%s: result record' % fname)
    else:
        rep.ok('J6', fname, 'all %d successful planning paths store every field the evaluators read (%s) and return the stored duration%s' % (
            n, ', '.join(need), (' = ' + ' + '.join(total)) if total else ''), loc=loc, sample={'fn': fname, 'paths': n, 'fields': need})


def trap_gen(ctx, res, par):
    rep = ctx.rep
    fn, dom, lv = gen_leaves(ctx, 'trajtrap', 'a_trajtrap_gen', 'a_trajtrap', ['vm', 'ac', 'de', 'p0_', 'p1_', 'v0_', 'v1_'])
    if fn is None:
        rep.unk('J2', 'a_trajtrap_gen', 'anchor vanished')
        return
    loc = fn.loc(fn.entry.instrs[0])
    S = lambda n: sp.Symbol(n, real=True)
    result_record(rep, 'a_trajtrap_gen', fn, dom, lv, res)
    # boundary equations of the evaluators (from J1's leaves): continuity of pos and vel at ta, td, t and at 0
    eqs = [
        ('pos continuous at ta', S('p0') + S('v0') * S('ta') + sp.Rational(1, 2) * S('ac') * S('ta') ** 2 - S('pa')),
        ('vel continuous at ta', S('v0') + S('ac') * S('ta') - S('vc')),
        ('pos continuous at td', S('pa') + S('vc') * (S('td') - S('ta')) - S('pd')),
        ('pos reaches p1 at t', S('pd') + S('vc') * (S('t') - S('td')) + sp.Rational(1, 2) * S('de') * (S('t') - S('td')) ** 2 - S('p1')),
        ('vel reaches v1 at t', S('vc') + S('de') * (S('t') - S('td')) - S('v1')),
    ]
    # derive these equations from the evaluator leaves themselves when available (so a changed evaluator changes the obligation)
    if res is not None:
        eqs = derive_boundary_eqs(res, par, ['a_trajtrap_pos', 'a_trajtrap_vel'], [S('ta'), S('td'), S('t')], {'a_trajtrap_pos': S('p1'), 'a_trajtrap_vel': S('v1')})
    nb = 0
    groups = {}
    for lf in lv:
        r = lf.ret
        if r is None or r is TOP or sp.sympify(r) == 0:
            continue
        ff = final_fields(dom, lf)
        if S('t') not in ff:
            continue
        # branch signature: which planning branch (number of sqrt atoms and the td/ta pattern)
        sig = (str(ff.get(S('td'), '')) == str(ff.get(S('ta'), '')), ff.get(S('ta')) == 0, len(sp.sympify(ff[S('vc')]).atoms(sp.Pow)))
        groups.setdefault(sig, []).append((lf, ff))
    for sig, items in sorted(groups.items(), key=str):
        probs = []
        for lf, ff in items:
            sub = dict(ff)
            sub.setdefault(S('ac'), S('ac'))
            for label, e in eqs:
                v = sp.sympify(e).subs(sub)
                if not alg.sqrt_zero(v):
                    probs.append('%s fails on planning path %s: residual %s' % (label, str(lf.pc)[:120], str(sp.simplify(v))[:160]))
        nb += 1
        sym = 'a_trajtrap_gen[branch %d: %d paths]' % (nb, len(items))
        if probs:
            rep.bad('J2', sym, '; '.join(sorted(set(probs))[:2])[:700], loc=loc, key='a_trajtrap_gen: continuity/end state')
        else:
            rep.ok('J2', sym, 'pos/vel continuous at every phase boundary and the end state equals (p1, recorded v1), modulo the branch\'s own field relations (%d equations x %d paths)'
                   % (len(eqs), len(items)), loc=loc, sample={'branch': nb, 'paths': len(items), 'equations': [l for l, _ in eqs]})
    if nb == 0:
        rep.unk('J2', 'a_trajtrap_gen', 'no successful planning path found')


def derive_boundary_eqs(res, par, fnames, bounds, endvals):
    """continuity equations from the evaluators' own leaves: for every boundary b and evaluator f, left leaf(b) - right leaf(b)"""
    eqs = []
    for f in fnames:
        fn, dom, lv = res[f]
        modes = sorted(set(mode_key(split_pc(lf)[1]) for lf in lv))
        m = modes[0] if modes else ()
        for b in bounds:
            eps = sp.Symbol('eps', positive=True)
            bv = b.subs(par)
            # pick the leaves just left and right of b (half a gap away under the parametrisation)
            gaps = sorted([g for g in bv.free_symbols], key=str)
            left = leaf_at(lv, b - sp.Rational(1, 2) * min_gap(par), par_small(par), m)
            right = leaf_at(lv, b + sp.Rational(1, 2) * min_gap(par), par_small(par), m)
            if len(left) != 1 or len(right) != 1:
                raise Unsupported('cannot select the phases around %s' % b)
            e = (sp.sympify(left[0].ret) - sp.sympify(right[0].ret)).subs(X, b)
            eqs.append(('%s continuous at %s' % (f.split('_')[-1], b), e))
    return eqs


def min_gap(par):
    return sp.Symbol('gmin', positive=True)


def par_small(par):
    """numeric instance of the gap parametrisation used only to *select* neighbouring phases: gaps = 2, gmin = 1"""
    sub = {}
    for k, v in par.items():
        sub[k] = v.subs({s: 2 for s in v.free_symbols})
    sub[sp.Symbol('gmin', positive=True)] = 1
    return sub


def bell_gen(ctx, res, parb):
    rep = ctx.rep
    fn, dom, lv = gen_leaves(ctx, 'trajbell', 'a_trajbell_gen', 'a_trajbell', ['jm_', 'am_', 'vm_', 'p0_', 'p1_', 'v0_', 'v1_'], prune=True, positive=('jm_', 'am_', 'vm_'))
    if fn is None:
        rep.unk('J2', 'a_trajbell_gen', 'anchor vanished')
        return
    loc = fn.loc(fn.entry.instrs[0])
    S = lambda n: sp.Symbol(n, real=True)
    if res is None:
        rep.unk('J2', 'a_trajbell_gen', 'evaluators not analysed')
        return
    result_record(rep, 'a_trajbell_gen', fn, dom, lv, res, total=('ta', 'tv', 'td'))
    bounds = [S('taj'), S('ta') - S('taj'), S('ta'), S('ta') + S('tv'), S('t') - S('td') + S('tdj'), S('t') - S('tdj')]
    ok = bad = 0
    probs = []
    nuse = 0
    nsingle = 0
    counts = {'ok': 0, 'bad': 0}

    def continuity(pc, ff, what, pctext):
        rev = any(is_reversed(c, 'p0_', 'p1_') for c in pc)
        for f in ('a_trajbell_pos', 'a_trajbell_vel', 'a_trajbell_acc'):
            fn2, dom2, lv2 = res[f]
            modes = sorted(set(mode_key(split_pc(l)[1]) for l in lv2))
            modes = [m for m in modes if m] or [()]
            revkey = canon_cond(alg.Cond('fcmp', 'ogt', S('p0'), S('p1')))
            want_mode = [m for m in modes if ((revkey in m) == rev)]
            m = want_mode[0] if want_mode else modes[0]
            for b in bounds:
                left = leaf_at(lv2, b - sp.Rational(1, 2), par_small(parb), m)
                right = leaf_at(lv2, b + sp.Rational(1, 2), par_small(parb), m)
                if len(left) != 1 or len(right) != 1:
                    raise Unsupported('cannot select the phases around %s' % b)
                e = (sp.sympify(left[0].ret) - sp.sympify(right[0].ret)).subs(X, b).subs(ff)
                if alg.sqrt_zero(e):
                    counts['ok'] += 1
                else:
                    counts['bad'] += 1
                    probs.append('%s discontinuous at %s on %s planning path %s' % (f, b, what, pctext))
    for lf in lv:
        r = lf.ret
        if r is None or r is TOP or sp.sympify(r) == 0:
            continue
        ff = final_fields(dom, lf)
        if S('t') not in ff or S('tv') not in ff:
            continue
        # the limit-reached family (cruise phase planned before the bisection: tv is the closed form, not 0) and the exits of the FIRST
        # pass of the acceleration search with unclamped velocities (both phases at the limit, acceleration only, deceleration only)
        single = sp.sympify(ff[S('tv')]) == 0
        if single and not (str(ff.get(S('v0'))) == 'v0_' and str(ff.get(S('v1'))) == 'v1_'):
            continue
        if single:
            nsingle += 1
            if nsingle > (24 if ctx.tier == 'thorough' else 12):
                continue
        else:
            nuse += 1
            if nuse > 40:
                continue
        continuity(lf.pc, ff, 'the first-pass exit' if single else 'the limit-reached', str(lf.pc)[-160:] if single else str(lf.pc)[:100])
    # ---- the exits of an ARBITRARY pass of the acceleration search: one abstract iteration from the loop header with the trial
    # acceleration and the step width as symbols (the fields written at the three exits are closed forms in the trial acceleration)
    ngen = 0
    gen_exits = []
    try:
        loops = fn.loops()
        if len(loops) != 1:
            raise Unsupported('expected one search loop in a_trajbell_gen, found %d' % len(loops))
        header = loops[0][0]
        phis = [i for i in header.instrs if i.op == 'phi']
        names_ = names_for(ctx, 'trajbell', 'a_trajbell')
        dom_g = alg.Alg(names_)
        argn = ['jm_', 'am_', 'vm_', 'p0_', 'p1_', 'v0_', 'v1_']
        args_g = [Ptr('ctx', 0)] + [dom_g.sym(a, real=True, **({'positive': True} if a in ('jm_', 'am_', 'vm_') else {})) for a in argn]
        it = symx.Interp(dom_g, lookup_in([ctx.module('trajbell')]), max_paths=20000, max_steps=3000000)
        it.prune_loops = True
        ro0, _ = it.run_region(fn, args_g, fn.entry, {}, [header])
        pre = []
        for s0, blk, prev in ro0:
            if blk is not header:
                continue
            st_v0 = s0.store.get([k for k, nm in dom_g.names.items() if nm == 'v0'][0])
            st_v1 = s0.store.get([k for k, nm in dom_g.names.items() if nm == 'v1'][0])
            if st_v0 is None or st_v1 is None or str(st_v0[0]) != 'v0_' or str(st_v1[0]) != 'v1_':
                continue          # clamped end velocities are special cases of the closed forms in v0, v1
            pre.append((s0, prev))
        limit = (6 if ctx.tier == 'thorough' else 2)
        for s0, prev in pre[:limit]:
            env0 = dict(s0.env)
            for k_, ph in enumerate(phis):
                env0[ph.res] = dom_g.sym('A' if k_ == 0 else 'C%d' % k_, real=True, positive=True) if not ph.ty.is_ptr else it.val(ph.ops[ph.x['labels'].index(prev.name)], s0, fn)
            # which phi is the trial acceleration does not matter for the closed forms; both are positive reals
            ro2, rets = it.run_region(fn, args_g, header, env0, [header], st=s0.clone())
            for s_, rv in rets:
                if rv is None or rv is TOP or sp.sympify(rv) == 0:
                    continue
                lf = symx.Leaf(s_.pc, rv, s_.store, {}, s_.calls, s_.trace, s_.pc_raw, s_.offs, None, s_.reads)
                ff = final_fields(dom_g, lf)
                if S('t') not in ff or S('tv') not in ff:
                    continue
                ngen += 1
                gen_exits.append((list(lf.pc), ff))
                continuity(lf.pc, ff, 'an exit of an arbitrary pass of the acceleration search', str(lf.pc)[-160:])
    except Unsupported as e:
        rep.unk('J2', 'a_trajbell_gen[arbitrary pass]', str(e), loc=loc)
    ok, bad = counts['ok'], counts['bad']
    # J3: the constant-acceleration sub-phases have non-negative length because the planning branch's own guard says so
    j3 = []
    nj3 = 0
    jm_, am_ = sp.Symbol('jm_', real=True, positive=True), sp.Symbol('am_', real=True, positive=True)
    seen_leaf = 0
    j3_items = []
    for lf in lv:
        r = lf.ret
        if r is None or r is TOP or sp.sympify(r) == 0:
            continue
        ff = final_fields(dom, lf)
        if S('tv') not in ff or sp.sympify(ff[S('tv')]) == 0:
            continue
        seen_leaf += 1
        if seen_leaf > 40:
            break
        j3_items.append((lf.pc, ff, {jm_, am_, sp.Symbol('vm_', real=True, positive=True)}))
    # the exit of the acceleration search on which BOTH phases keep a constant-acceleration plateau (taj = tdj = A/jm): the acceptance
    # test of the search is what makes ta >= 2*taj and td >= 2*tdj there
    for pc_, ff_ in gen_exits:
        if S('taj') in ff_ and S('tdj') in ff_ and sp.sympify(ff_[S('taj')]) != 0 and alg.is_zero(sp.sympify(ff_[S('taj')]) - sp.sympify(ff_[S('tdj')])):
            pos_ = set(x for x in sp.sympify(ff_[S('taj')]).free_symbols if x.is_positive)
            j3_items.append((pc_, ff_, pos_ | {sp.Symbol('jm_', real=True, positive=True)}))

    class _L:
        pass
    for pc_, ff, allowed in j3_items:
        lf = _L()
        lf.pc = pc_
        for tot, jrk in ((S('ta'), S('taj')), (S('td'), S('tdj'))):
            E = sp.together(sp.sympify(ff[tot]) - 2 * sp.sympify(ff[jrk]))
            if alg.sqrt_zero(E):
                nj3 += 1
                continue
            N, D = sp.fraction(sp.cancel(E))
            sD = sign_of(D)
            if sD is None:
                j3.append('%s - 2*%s = %s: sign of the denominator unknown' % (tot, jrk, E))
                continue
            N = sp.expand(N * sD)
            ok = False
            for c in lf.pc:
                if not isinstance(c, alg.Cond):
                    continue
                d = sp.expand(sp.sympify(c.a) - sp.sympify(c.b))
                if d == 0:
                    continue
                q = sp.simplify(N / d)
                sq = sign_of(q)
                if sq is None or not q.free_symbols <= allowed:
                    continue
                rel = c.rel()
                if (sq > 0 and rel in ('>=', '>')) or (sq < 0 and rel in ('<=', '<')):
                    ok = True
            if ok:
                nj3 += 1
            else:
                j3.append('on planning path %s the length %s - 2*%s = %s of the constant-acceleration sub-phase is not implied non-negative by the branch guard'
                          % (str(lf.pc)[:140], tot, jrk, sp.simplify(E)))
    if j3:
        rep.bad('J3', 'a_trajbell_gen[sub-phases]', '; '.join(sorted(set(j3))[:2])[:700], loc=loc, key='a_trajbell_gen: sub-phase length vs guard')
    elif nj3:
        rep.ok('J3', 'a_trajbell_gen[sub-phases]', 'ta >= 2*taj and td >= 2*tdj follow from the guard of the planning branch that assigns them (%d instances)' % nj3, loc=loc)
    if nuse == 0:
        rep.unk('J2', 'a_trajbell_gen', 'no limit-reached planning path found')
    elif probs:
        rep.bad('J2', 'a_trajbell_gen[planning paths]', '; '.join(sorted(set(probs))[:2])[:600], loc=loc, key='a_trajbell_gen: continuity')
    else:
        rep.ok('J2', 'a_trajbell_gen[planning paths]', 'pos/vel/acc continuous at all %d phase boundaries on %d limit-reached planning paths, %d first-pass exits and %d exits of an arbitrary pass (trial acceleration symbolic) of the acceleration search (%d equations, modulo sqrt relations)'
               % (len(bounds), min(nuse, 40), nsingle, ngen, ok), loc=loc)
