"""C15 - polynomial trajectories (DESIGN 4 C15): T1 boundary identities, T2 derivative builders and
evaluators, T3 Horner / reversal loop templates.  Engine: ALG (exact rational-function values)."""
import json, os
import sympy as sp
import symx, alg, llir
from symx import Ptr, Unsupported

LEVEL = 'proof'
SPEC = json.load(open(os.path.join(os.path.dirname(__file__), '..', 'specs', 'traj.json')))['trajpoly']


def lookup_in(mods):
    def lk(name):
        for m in mods:
            f = m.functions.get(name)
            if f is not None and not f.error:
                return f
        return None
    return lk


def coeff_syms(dom, base, n, real=8):
    return [dom.sym('%s.c[%d]' % (base, k), real=True) for k in range(n)]


def run(ctx):
    rep = ctx.rep
    rep.explanation = ('each generator/builder/evaluator is abstractly interpreted over exact rational functions of its '
                       'symbolic arguments (IEEE operations read as real operations); the obligations are polynomial '
                       'identities decided by normal form; the Horner and reversal loops are checked as one-iteration '
                       'recurrences (state transformer of the loop body) against their defining template')
    rep.trusted += ['sympy polynomial arithmetic (expand/cancel)', 'lib/symx.py + lib/alg.py abstract interpreter']
    rep.assumptions += ['floating-point operations are read as exact real operations (rounding error size is not decided)',
                        'floating literals are read as the simplest rational whose nearest double they are (1.0/6 -> 1/6)',
                        'ctx and the output array do not alias (documented as distinct objects)']
    poly = ctx.module('poly')
    x = sp.Symbol('x', real=True)
    for name, sp_ in sorted(SPEC.items()):
        if not name.startswith('a_trajpoly'):
            continue
        unit = name[2:]
        try:
            m = ctx.module(unit)
        except Exception as e:
            rep.unk('T1', name, 'unit vanished: %s' % e)
            continue
        n = sp_['coeffs']
        lk = lookup_in([m, poly])
        # ---------------- T1
        gen = ctx.fn(unit, name + '_gen')
        if gen is None:
            rep.unk('T1', name + '_gen', 'anchor vanished')
        else:
            try:
                t1(rep, gen, name, n, sp_, lk)
            except Unsupported as e:
                rep.unk('T1', name + '_gen', str(e))
        # ---------------- T2 builders
        for d in range(0, 4):
            fn = ctx.fn(unit, '%s_c%d' % (name, d))
            if fn is None:
                if d <= (3 if n == 8 else 2):
                    rep.unk('T2', '%s_c%d' % (name, d), 'anchor vanished')
                continue
            try:
                t2_builder(rep, fn, name, n, d, lk)
            except Unsupported as e:
                rep.unk('T2', fn.name, str(e))
        # ---------------- T2 evaluators
        for d, ev in enumerate(['pos', 'vel', 'acc', 'jer']):
            fn = ctx.fn(unit, '%s_%s' % (name, ev))
            if fn is None:
                if d <= (3 if n == 8 else 2):
                    rep.unk('T2e', '%s_%s' % (name, ev), 'anchor vanished')
                continue
            try:
                t2_eval(rep, fn, name, n, d, lk, x)
            except Unsupported as e:
                rep.unk('T2e', fn.name, str(e))
    # ---------------- T3
    for fname in ('a_poly_eval_', 'a_poly_evar_'):
        fn = ctx.fn('poly', fname)
        if fn is None:
            rep.unk('T3', fname, 'anchor vanished')
            continue
        try:
            t3_horner(rep, fn, fname == 'a_poly_evar_', lookup_in([poly]))
        except Unsupported as e:
            rep.unk('T3', fname, str(e))
    fn = ctx.fn('poly', 'a_poly_swap_')
    if fn is None:
        rep.unk('T3', 'a_poly_swap_', 'anchor vanished')
    else:
        try:
            t3_swap(rep, fn, lookup_in([poly]))
        except Unsupported as e:
            # a reversal moves coefficients.  A cell that receives a sum / difference of loaded cells (the add-subtract exchange) holds
            # the other coefficient only in exact arithmetic: a + b - b is not a in binary floating point
            comp = [i for i in fn.instrs() if i.op == 'store' and i.ops[0].k == 'reg' and fn.defs.get(i.ops[0].v) is not None
                    and fn.defs[i.ops[0].v].op in ('fadd', 'fsub', 'fmul', 'fdiv')]
            if comp:
                rep.bad('T3', 'a_poly_swap_', 'a cell receives a value computed from coefficients (%s): the exchange is exact only in real arithmetic' %
                        fn.defs[comp[0].ops[0].v].op, loc=fn.loc(comp[0]), key='a_poly_swap_: stores')
            else:
                rep.unk('T3', 'a_poly_swap_', str(e))
    # bounded cross-check of the wrappers a_poly_eval/evar/swap (concrete lengths 1..6, symbolic coefficients)
    hdr_checks(ctx, x)
    swap_wrapper(ctx)
    rep.floor('T1', 18)
    rep.floor('T2', 10)
    rep.floor('T2e', 10)
    rep.floor('T3', 5)
    fixtures(ctx)


def gen_args(dom, gen, sp_):
    """bind parameters by position: ctx, then the spec's argument names"""
    names = sp_['gen_args']
    if len(gen.params) != 1 + len(names):
        raise Unsupported('generator has %d parameters, spec lists %d' % (len(gen.params), 1 + len(names)))
    args = [Ptr('ctx', 0)]
    syms = {}
    for nm in names:
        syms[nm] = dom.sym(nm, real=True, **({'positive': True} if nm == 'ts' else {}))
        args.append(syms[nm])
    return args, syms


def final_coeffs(leaf, base, n, esz=8):
    cs = []
    for k in range(n):
        v = leaf.store.get((base, k * esz))
        if v is None:
            return None
        cs.append(v[0])
    return cs


def t1(rep, gen, name, n, sp_, lk):
    dom = alg.Alg()
    it = symx.Interp(dom, lk)
    args, syms = gen_args(dom, gen, sp_)
    leaves = it.run(gen, args)
    if len(leaves) != 1:
        rep.unk('T1', gen.name, 'generator has %d paths (expected straight-line code)' % len(leaves))
        return
    cs = final_coeffs(leaves[0], 'ctx', n)
    if cs is None or any(c is symx.TOP for c in cs):
        rep.bad('T1', gen.name, 'not all %d coefficients are stored' % n, key='%s: coefficient not stored' % gen.name)
        return
    X = sp.Symbol('X')
    P = sum(c * X ** k for k, c in enumerate(cs))
    T = syms['ts']
    for cond in sp_['conditions']:
        lhs, rhs = cond.split('=')
        order = lhs.count("'")
        at = lhs[lhs.index('(') + 1:lhs.index(')')]
        atv = 0 if at == '0' else T
        val = sp.diff(P, X, order).subs(X, atv)
        dif = val - syms[rhs]
        loc = gen.loc(gen.entry.instrs[0])
        if alg.is_zero(dif):
            rep.ok('T1', gen.name, cond, loc=loc, sample={'identity': cond, 'normal_form': '0'})
        else:
            rem = sp.factor(sp.cancel(sp.together(dif)))
            rep.bad('T1', gen.name, 'boundary condition %s fails: P - rhs = %s' % (cond, str(rem)[:300]), loc=loc,
                    key='%s: %s' % (gen.name, cond))


def t2_builder(rep, fn, name, n, d, lk):
    dom = alg.Alg()
    it = symx.Interp(dom, lk)
    leaves = it.run(fn, [Ptr('ctx', 0), Ptr('out', 0)])
    if len(leaves) != 1:
        rep.unk('T2', fn.name, '%d paths' % len(leaves))
        return
    lf = leaves[0]
    want_n = n - d
    probs = []
    for k in range(want_n):
        v = lf.store.get(('out', 8 * k))
        fac = 1
        for j in range(d):
            fac *= (k + d - j)
        src = lf.entry.get(('ctx', 8 * (k + d), 'double')) or lf.entry.get(('ctx', 8 * (k + d), 'float'))
        if v is None:
            probs.append('c%d[%d] not written' % (d, k))
            continue
        # entry symbols for ctx->c[k+d]
        sym = dom.sym('ctx[%d]' % (8 * (k + d)), real=True)
        if not alg.is_zero(v[0] - fac * sym):
            probs.append('c%d[%d] = %s, expected %d*c[%d]' % (d, k, v[0], fac, k + d))
    extra = [kk for kk in lf.store if kk[0] == 'out' and isinstance(kk[1], int) and kk[1] >= 8 * want_n]
    if extra:
        probs.append('writes beyond the %d derivative coefficients: offsets %s' % (want_n, sorted(k[1] for k in extra)))
    if any(k[0] == 'ctx' for k in lf.store):
        probs.append('writes into the trajectory object')
    loc = fn.loc(fn.entry.instrs[0])
    if probs:
        rep.bad('T2', fn.name, '; '.join(probs), loc=loc, key='%s: %s' % (fn.name, probs[0].split('=')[0].strip()))
    else:
        rep.ok('T2', fn.name, 'c%d[k] = %s c[k+%d] for k < %d' % (d, 'k-falling-factorial' if d else '', d, want_n), loc=loc,
               sample={'builder': fn.name, 'cells': want_n})


def under_path(pc, exprs):
    """specialise expressions to a path: an equality `symbol == constant` of the path condition is substituted (a fast path for
    x == 0 is compared at x = 0).  -> list of specialised expressions, or None when a condition is not of a kind this handles"""
    sub = {}
    for c in pc:
        if not isinstance(c, alg.Cond):
            return None
        a_, b_ = sp.sympify(c.a), sp.sympify(c.b)
        if c.rel() == '==':
            if a_.is_Symbol and b_.is_number:
                sub[a_] = b_
            elif b_.is_Symbol and a_.is_number:
                sub[b_] = a_
            else:
                return None
        elif c.rel() in ('!=', '<', '>', '<=', '>='):
            continue      # an open condition: the identity is demanded for all values, which covers these
        else:
            return None
    return [sp.sympify(e).subs(sub) if e is not None and e is not symx.TOP else e for e in exprs]


def t2_eval(rep, fn, name, n, d, lk, x):
    dom = alg.Alg()
    it = symx.Interp(dom, lk)
    xs = dom.sym('x', real=True)
    leaves = it.run(fn, [Ptr('ctx', 0), xs])
    if not leaves or len(leaves) > 8:
        rep.unk('T2e', fn.name, '%d paths' % len(leaves))
        return
    cs = [dom.sym('ctx[%d]' % (8 * k), real=True) for k in range(n)]
    P = sum(c * xs ** k for k, c in enumerate(cs))
    want = sp.diff(P, xs, d)
    loc = fn.loc(fn.entry.instrs[0])
    for lf in leaves:
        got = lf.ret
        if got is symx.TOP or got is None:
            rep.bad('T2e', fn.name, 'returns an undefined value (reads an unwritten coefficient)', loc=loc, key='%s: undefined' % fn.name)
            return
        sp_ = under_path(lf.pc, [got, want])
        if sp_ is None:
            rep.unk('T2e', fn.name, 'path condition %s' % (lf.pc,))
            return
        if not alg.is_zero(sp_[0] - sp_[1]):
            rep.bad('T2e', fn.name, 'returns %s%s, expected %s' % (str(sp.expand(sp_[0]))[:200], ' under %s' % (lf.pc,) if lf.pc else '', str(sp.expand(sp_[1]))[:200]), loc=loc,
                    key='%s: derivative' % fn.name)
            return
    rep.ok('T2e', fn.name, 'returns d^%d P / dx^%d%s' % (d, d, ' on all %d paths' % len(leaves) if len(leaves) > 1 else ''), loc=loc,
           sample={'evaluator': fn.name, 'value': str(sp.expand(leaves[-1].ret))[:200]})


# ---------------------------------------------------------------- loop templates
def single_loop(fn):
    loops = fn.loops()
    if len(loops) != 1:
        raise Unsupported('%s has %d loops, template expects 1' % (fn.name, len(loops)))
    return loops[0]


def loop_transformer(fn, lk, args, dom):
    """-> (init values of header phis, [(phi names)], body exits, function returns) for a single-loop function"""
    header, body, latches = single_loop(fn)
    phis = [i for i in header.instrs if i.op == 'phi']
    it = symx.Interp(dom, lk)
    # 1. run from entry to the header: initial phi values
    ro, rets0 = it.run_region(fn, args, fn.entry, {}, [header])
    if len(ro) != 1:
        raise Unsupported('pre-loop code of %s forks (%d paths)' % (fn.name, len(ro)))
    s0, _, prev0 = ro[0]
    init = {}
    for ph in phis:
        init[ph.res] = it.val(ph.ops[ph.x['labels'].index(prev0.name)], s0, fn)
    # 2. one abstract iteration from the header with symbolic phi values
    it2 = symx.Interp(dom, lk)
    env0 = {}
    for ph in phis:
        if ph.ty.is_ptr:
            if not isinstance(init[ph.res], Ptr):
                raise Unsupported('pointer phi with non-pointer initial value')
            env0[ph.res] = Ptr(init[ph.res].base, dom.sym('o_' + ph.res, integer=True))
        else:
            env0[ph.res] = dom.sym('v_' + ph.res, real=True)
    ro2, rets = it2.run_region(fn, args, header, env0, [header])
    nxt = []
    for s, _, prev in ro2:
        nv = {}
        for ph in phis:
            nv[ph.res] = it2.val(ph.ops[ph.x['labels'].index(prev.name)], s, fn)
        nxt.append((s, nv))
    return phis, init, env0, nxt, rets, (s0, rets0), it2


def canon_guard(c, stride):
    """comparison between cursor offsets that are multiples of `stride` apart -> expr with meaning expr >= 0"""
    if not isinstance(c, alg.Cond):
        return None
    d = sp.sympify(c.a) - sp.sympify(c.b)
    r = c.rel()
    if r == '>':
        return sp.expand(d - stride)
    if r == '>=':
        return sp.expand(d)
    if r == '<':
        return sp.expand(-d - stride)
    if r == '<=':
        return sp.expand(-d)
    return None


def mem_syms(dom, e, base='arr'):
    out = []
    for s in sp.sympify(e).free_symbols:
        if s.name in dom.entry_off and dom.entry_off[s.name][0] == base:
            out.append((s, dom.entry_off[s.name][1]))
    return out


def t3_horner(rep, fn, reverse, lk):
    """a_poly_eval_: y=a[n-1]; y=y*x+a[k], k=n-2..0   /  a_poly_evar_: y=a[0]; y=y*x+a[k], k=1..n-1
    semantic template: the value starts as the load of the first cell in visiting order; every iteration loads the
    next cell in that order (cursor+alpha), folds y*x+cell, and continues exactly while that cell is inside [a,b)"""
    dom = alg.Alg()
    xs = dom.sym('x', real=True)
    A = Ptr('arr', dom.sym('A', integer=True))
    B = Ptr('arr', dom.sym('B', integer=True))
    phis, init, env0, nxt, rets, (s0, rets0), it2 = loop_transformer(fn, lk, [A, B, xs], dom)
    loc = fn.loc(fn.entry.instrs[0])
    pp = [p for p in phis if p.ty.is_ptr]
    vp = [p for p in phis if p.ty.is_fp]
    if len(pp) != 1 or len(vp) != 1 or len(nxt) != 1 or len(rets) != 1:
        raise Unsupported('%s: loop shape differs from the Horner template (%d pointer phis, %d value phis, %d back paths, %d exits)'
                          % (fn.name, len(pp), len(vp), len(nxt), len(rets)))
    p, y = pp[0].res, vp[0].res
    esz = 8
    po = env0[p].off
    yv = env0[y]
    s1, nv = nxt[0]
    step = -esz if not reverse else esz
    first = (B.off - esz) if not reverse else A.off          # first cell in visiting order
    probs, bprobs = [], []
    # initial value = load of the first cell
    ms = mem_syms(dom, init[y]) if init[y] is not symx.TOP else []
    if len(ms) != 1 or not alg.is_zero(init[y] - ms[0][0]) or not alg.is_zero(ms[0][1] - first):
        probs.append('initial value %s, expected the load of %s' % (init[y], 'b[-1]' if not reverse else 'a[0]'))
    # recurrence: y' = y*x + mem[cursor+alpha]
    alpha = None
    if nv[y] is symx.TOP:
        probs.append('accumulator becomes undefined')
    else:
        ms = mem_syms(dom, nv[y])
        if len(ms) == 1 and alg.is_zero(nv[y] - (yv * xs + ms[0][0])):
            alpha = sp.expand(ms[0][1] - po)
            if not alpha.is_number:
                probs.append('cell loaded at %s is not relative to the cursor' % ms[0][1])
                alpha = None
        else:
            probs.append('recurrence y <- %s, expected y*x + next cell' % (nv[y],))
    if not (isinstance(nv[p], Ptr) and alg.is_zero(sp.sympify(nv[p].off) - (po + step))):
        probs.append('cursor step %s -> %s, expected %+d bytes' % (po, nv[p].off if isinstance(nv[p], Ptr) else nv[p], step))
    if alpha is not None:
        # second cell in visiting order must be first+step
        if not alg.is_zero(sp.sympify(init[p].off) + alpha - (first + step)):
            probs.append('first iteration loads offset %s, expected %s' % (sp.expand(sp.sympify(init[p].off) + alpha), first + step))
        want = sp.expand((po + alpha) - A.off) if not reverse else sp.expand((B.off - esz) - (po + alpha))
        gs = [canon_guard(c, esz) for c in s1.pc]
        if not any(g is not None and alg.is_zero(g - want) for g in gs):
            bprobs.append('continuation guard %s is not equivalent to "next cell inside [a,b)"' % (s1.pc,))
    else:
        bprobs.append('no cell load identified')
    sr, rv = rets[0]
    if str(rv) != str(yv):
        probs.append('returns %s, expected the accumulator' % rv)
    if probs:
        rep.bad('T3', fn.name, '; '.join(probs), loc=loc, key='%s: %s' % (fn.name, probs[0].split(',')[0][:40]))
    else:
        rep.ok('T3', fn.name, 'init/step/return match the Horner template (%s order)' % ('descending' if reverse else 'ascending'),
               loc=loc, sample={'loop': fn.name, 'cursor': str(nv[p].off), 'acc': str(nv[y]), 'guard': str(s1.pc)})
    if bprobs:
        rep.bad('T3', fn.name + ':bounds', '; '.join(bprobs), loc=loc, key='%s: guard' % fn.name)
    else:
        rep.ok('T3', fn.name + ':bounds', 'every load is at the stepped cursor under a guard equivalent to "cell inside [a,b)"', loc=loc)


def t3_swap(rep, fn, lk):
    """iteration i exchanges a[i] and b[-1-i] and runs exactly while a+i < b-1-i"""
    dom = alg.Alg()
    A = Ptr('arr', dom.sym('A', integer=True))
    B = Ptr('arr', dom.sym('B', integer=True))
    phis, init, env0, nxt, rets, (s0, rets0), it2 = loop_transformer(fn, lk, [A, B], dom)
    loc = fn.loc(fn.entry.instrs[0])
    pp = [p for p in phis if p.ty.is_ptr]
    if len(pp) != 2 or len(nxt) != 1:
        raise Unsupported('a_poly_swap_: loop shape differs from the two-cursor template')
    s1, nv = nxt[0]
    probs = []
    st = {k: v for k, v in s1.store.items() if k[0] == 'arr'}
    osyms = {env0[p.res].off: p.res for p in pp}
    cells = {}
    for (b_, k), (v, t) in st.items():
        e = sp.sympify(s1.offs[(b_, k)])
        cs = [o for o in osyms if o in e.free_symbols]
        if len(cs) != 1:
            raise Unsupported('a_poly_swap_: store at %s not relative to one cursor' % k)
        cells[osyms[cs[0]]] = (sp.expand(e - cs[0]), e, v)
    if len(cells) != 2:
        rep.bad('T3', fn.name, 'one iteration stores %d cells, expected 2' % len(cells), loc=loc, key='a_poly_swap_: stores')
        return
    # which cursor is low (ends at a side)?  the one stepping +8
    lo = [p.res for p in pp if isinstance(nv[p.res], Ptr) and alg.is_zero(sp.sympify(nv[p.res].off) - env0[p.res].off - 8)]
    hi = [p.res for p in pp if isinstance(nv[p.res], Ptr) and alg.is_zero(sp.sympify(nv[p.res].off) - env0[p.res].off + 8)]
    if len(lo) != 1 or len(hi) != 1:
        rep.bad('T3', fn.name, 'cursor steps are not +1/-1 element', loc=loc, key='a_poly_swap_: steps')
        return
    lo, hi = lo[0], hi[0]
    al, el, vl = cells[lo]
    ah, eh, vh = cells[hi]
    if not alg.is_zero(sp.sympify(init[lo].off) + al - A.off):
        probs.append('first low cell at %s, expected a' % sp.expand(sp.sympify(init[lo].off) + al))
    if not alg.is_zero(sp.sympify(init[hi].off) + ah - (B.off - 8)):
        probs.append('first high cell at %s, expected b-1' % sp.expand(sp.sympify(init[hi].off) + ah))
    ml, mh = mem_syms(dom, vl), mem_syms(dom, vh)
    if not (len(ml) == 1 and alg.is_zero(vl - ml[0][0]) and alg.is_zero(ml[0][1] - eh)):
        probs.append('low cell receives %s, expected the old high cell' % vl)
    if not (len(mh) == 1 and alg.is_zero(vh - mh[0][0]) and alg.is_zero(mh[0][1] - el)):
        probs.append('high cell receives %s, expected the old low cell' % vh)
    want = sp.expand(eh - el - 8)
    gs = [canon_guard(c, 8) for c in s1.pc]
    if not any(g is not None and alg.is_zero(g - want) for g in gs):
        probs.append('guard %s is not equivalent to low < high' % (s1.pc,))
    if probs:
        rep.bad('T3', fn.name, '; '.join(probs), loc=loc, key='%s: %s' % (fn.name, probs[0][:40]))
    else:
        rep.ok('T3', fn.name, 'exchanges a[i] and b[-1-i] while a+i < b-1-i; symmetric transformer (involution)', loc=loc,
               sample={'loop': fn.name, 'stores': {str(k[1]): str(v[0]) for k, v in st.items()}})


def hdr_checks(ctx, x):
    """a_poly_eval / a_poly_evar / a_poly_swap (count-based wrappers): bounded lengths with symbolic coefficients;
    evar(a) == eval(reverse(a))"""
    rep = ctx.rep
    poly = ctx.module('poly')
    lk = lookup_in([poly])
    for fname, rev in (('a_poly_eval', False), ('a_poly_evar', True)):
        fn = ctx.fn('poly', fname)
        if fn is None:
            rep.unk('T3w', fname, 'anchor vanished')
            continue
        for n in range(1, 7):
            dom = alg.Alg()
            it = symx.Interp(dom, lk)
            xs = dom.sym('x', real=True)
            try:
                leaves = it.run(fn, [Ptr('arr', 0), n, xs])
            except Unsupported as e:
                rep.unk('T3w', '%s[n=%d]' % (fname, n), str(e))
                continue
            if not leaves or len(leaves) > 8:
                rep.unk('T3w', '%s[n=%d]' % (fname, n), '%d paths' % len(leaves))
                continue
            cs = [dom.sym('arr[%d]' % (8 * k), real=True) for k in range(n)]
            want = sum(c * xs ** (k if not rev else n - 1 - k) for k, c in enumerate(cs))
            verdict = 'ok'
            for lf in leaves:
                got = lf.ret
                sp_ = under_path(lf.pc, [got, want]) if got is not symx.TOP and got is not None else [got, want]
                if sp_ is None:
                    verdict = ('unk', 'path condition %s' % (lf.pc,))
                    break
                if sp_[0] is symx.TOP or sp_[0] is None or not alg.is_zero(sp_[0] - sp_[1]):
                    verdict = ('bad', 'value %s%s, expected %s' % (sp_[0], ' under %s' % (lf.pc,) if lf.pc else '', sp_[1]))
                    break
            if verdict == 'ok':
                rep.ok('T3w', '%s[n=%d]' % (fname, n), 'value = sum a[k] x^%s' % ('k' if not rev else '(n-1-k)'))
            elif verdict[0] == 'unk':
                rep.unk('T3w', '%s[n=%d]' % (fname, n), verdict[1])
            else:
                rep.bad('T3w', '%s[n=%d]' % (fname, n), verdict[1], key='%s: wrapper value' % fname)


def swap_wrapper(ctx):
    """a_poly_swap(a, n): the count-based form of the reversal - for n = 0..6 the array ends up reversed (nothing happens for n <= 1)"""
    rep = ctx.rep
    poly = ctx.module('poly')
    lk = lookup_in([poly, ctx.module('hdr_unit')])
    fn = ctx.fn('poly', 'a_poly_swap') or ctx.fn('hdr_unit', 'a_poly_swap')
    if fn is None:
        rep.unk('T3w', 'a_poly_swap', 'anchor vanished')
        return
    for n in range(0, 7):
        sym = 'a_poly_swap[n=%d]' % n
        dom = alg.Alg()
        it = symx.Interp(dom, lk)
        try:
            leaves = it.run(fn, [Ptr('arr', 0), n])
        except Unsupported as e:
            rep.unk('T3w', sym, str(e))
            continue
        if len(leaves) != 1:
            rep.unk('T3w', sym, '%d paths' % len(leaves))
            continue
        st = leaves[0].store
        bad = []
        for k in range(n):
            want = dom.sym('arr[%d]' % (8 * (n - 1 - k)), real=True)
            got = st[('arr', 8 * k)][0] if ('arr', 8 * k) in st else dom.sym('arr[%d]' % (8 * k), real=True)
            if not alg.is_zero(sp.sympify(got) - want):
                bad.append('a[%d] becomes %s, expected the old a[%d]' % (k, got, n - 1 - k))
        extra = [k_ for k_ in st if k_[0] == 'arr' and not (0 <= k_[1] < 8 * n)]
        if extra:
            bad.append('writes outside the %d coefficients (%s)' % (n, sorted(k_[1] for k_ in extra)))
        if bad:
            rep.bad('T3w', sym, '; '.join(bad[:2]), key='a_poly_swap: wrapper')
        else:
            rep.ok('T3w', sym, 'the %d coefficients end up in reverse order' % n)


def fixtures(ctx):
    """positive control: the identity decision procedure must refute a wrong cubic and accept the right one"""
    T, p0, p1, v0, v1, X = sp.symbols('T p0 p1 v0 v1 X')
    p = p1 - p0

    def P(k):
        c2 = (-2 * v0 - v1) / T + k * p / T ** 2
        c3 = (v0 + v1) / T ** 2 - 2 * p / T ** 3
        return p0 + v0 * X + c2 * X ** 2 + c3 * X ** 3
    good = alg.is_zero(P(3).subs(X, T) - p1)
    bad = alg.is_zero(P(2).subs(X, T) - p1)
    r1 = alg.rationalize(1.0 / 6) == sp.Rational(1, 6)
    if good and not bad and r1:
        ctx.rep.ok('FIXTURE', 'alg-identity', 'wrong cubic refuted, right cubic accepted, 1.0/6 read as 1/6')
    else:
        ctx.rep.unk('FIXTURE', 'alg-identity', 'positive control failed (%s,%s,%s)' % (good, bad, r1))
