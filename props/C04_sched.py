"""C04 rule B11 - callback schedules.  A destructor / copy callback inside a loop of vec.c / buf.c is applied to every element of
the range the operation is about, once each, in one direction, and (copy) with the matching source element:

    store  copy(dst = pos + t, src = t)      t = 0 .. num - 1           pos = idx if idx < num_ else num_
    erase  dtor(idx + t)                     t = 0 .. c - 1             c = min(num, num_ - idx)
    setn   dtor(num_ - 1 - t)                t = 0 .. num_ - num - 1    (dtor / die / setz: num = 0)

Read off the summarised loop (lib/lin.py LoopSummary): on the iteration leaf the element index of every callback argument is an affine
function of the pass number t with slope +1 or -1; on the leaves behind the loop the exit test pins t to the number of passes.  Both
are compared with the table by Fourier-Motzkin entailment under the path's conditions (wrap cases included); a refuted equality
comes with an integer witness.  A leaf whose conditions contain a non-linear test that had to be dropped is no verdict."""
import sympy as sp
import lin, fm, alg
from props import C04_content
from lin import Effect
from symx import Ptr, Unsupported

S = lambda n: sp.Symbol(n, integer=True, nonnegative=True)


def spec_for(name, kind):
    base = name[len('a_%s_' % kind):]
    n0, idx, cnt = S('num_'), S('arg_idx'), S('arg_num')
    if base == 'store':
        return dict(lo=('either', [(idx, [fm.le(idx, n0 - 1)]), (n0, [fm.le(n0, idx)])]), len=('plain', cnt), src=True, what='copy')
    if base == 'erase':
        return dict(lo=('plain', idx), len=('either', [(cnt, [fm.le(cnt, n0 - idx)]), (n0 - idx, [fm.le(n0 - idx, cnt)])]), src=False, what='dtor')
    if base == 'setn':
        return dict(lo=('plain', cnt), len=('either', [(n0 - cnt, [fm.le(cnt, n0 - 1)]), (sp.Integer(0), [fm.le(n0, cnt)])]), src=False, what='dtor')
    if base in ('dtor', 'die', 'setz'):
        return dict(lo=('plain', sp.Integer(0)), len=('plain', n0), src=False, what='dtor')
    return None


def _dropped(leaf):
    return [c for c in leaf.pc if lin.cond_constraints(c) is None]


def _alts(spec):
    kind, v = spec
    return [(v, [])] if kind == 'plain' else v


def _decide(cs, T, first, spec):
    """under one case: the number of passes and the first element against the table.
    -> list of (label, status, info): status True | False (info = (witness, wanted)) | None (not decidable)"""
    out = []
    for wlen, c1 in _alts(spec['len']):
        try:
            cons1 = list(cs.cons) + [lin.subst_con(c, cs.kenv) for c in c1]
        except fm.NonLinear:
            out.append(('number of passes', None, None))
            continue
        if not C04_content.feasible(cons1):
            continue
        k1 = lin.Case(cons1, cs.kenv)
        try:
            ok, failing = lin.prove(k1, [fm.le(T, wlen), fm.le(wlen, T)])
        except fm.NonLinear:
            out.append(('number of passes', None, None))
            continue
        if not ok:
            out.append(('number of passes', False, (lin.witness(k1, failing, None), wlen, T)))
            continue
        out.append(('number of passes', True, None))
        if wlen == 0:
            continue        # no pass: there is no first element
        for wlo, c2 in _alts(spec['lo']):
            try:
                cons2 = list(k1.cons) + [lin.subst_con(c, cs.kenv) for c in c2]
            except fm.NonLinear:
                out.append(('first element of the range', None, None))
                continue
            if not C04_content.feasible(cons2):
                continue
            k2 = lin.Case(cons2, cs.kenv)
            try:
                ok, failing = lin.prove(k2, [fm.le(first, wlo), fm.le(wlo, first)])
            except fm.NonLinear:
                out.append(('first element of the range', None, None))
                continue
            if ok:
                out.append(('first element of the range', True, None))
            else:
                out.append(('first element of the range', False, (lin.witness(k2, failing, None), wlo, first)))
    return out


def check(C, fn, name, dom, leaves, loop_leaves, facts0, rep):
    spec = spec_for(name, C.kind)
    if spec is None:
        return
    siz = sp.Symbol('siz_', integer=True, nonnegative=True)
    loc = fn.loc(fn.entry.instrs[0])
    by_loop = {}
    for lf in loop_leaves:
        cbs = [e for e in lf.calls if isinstance(e, Effect) and e.kind == 'callback']
        if cbs:
            by_loop.setdefault((lf.loop_header, lf.loop_t), []).append((lf, cbs))
    if not by_loop:
        return
    probs, unk = [], []
    nob = 0
    for (hdr, t), lfs in sorted(by_loop.items(), key=lambda kv: str(kv[0])):
        slope = None
        start = None
        site = None
        # ---- the pass: which element(s) does pass t hand to the callback
        for lf, cbs in lfs:
            sites = {}
            for e in cbs:
                sites.setdefault(id(e.ins), []).append(e)
            if len(sites) != 1:
                unk.append('%d callback sites in one pass' % len(sites))
                continue
            es = list(sites.values())[0]
            dst = [e for e in es if C.storage(Ptr(e.base, e.off))[0]]
            src = [e for e in es if e.base == 'src']
            if len(dst) != 1 or (spec['src'] and len(src) != 1) or len(es) != len(dst) + len(src):
                unk.append('callback arguments %s' % [(e.base, str(e.off)) for e in es])
                continue
            X = lin.divide(C.storage(Ptr(dst[0].base, dst[0].off))[1], siz)
            if X is None:
                unk.append('callback argument is not an element address')
                continue
            X = sp.expand(dom.strip_wrap(X))
            if t not in X.free_symbols or sp.degree(X, t) != 1 or X.coeff(t, 1) not in (1, -1):
                probs.append('pass t hands element %s to the %s callback: not one element further per pass' % (X, spec['what']))
                continue
            sl, st0 = int(X.coeff(t, 1)), sp.expand(X.coeff(t, 0))
            if slope is not None and (sl != slope or sp.expand(st0 - start) != 0):
                unk.append('paths of one pass disagree on the element')
                continue
            slope, start = sl, st0
            site = dst[0].ins
            if spec['src']:
                Y = lin.divide(src[0].off, siz)
                Y = sp.expand(dom.strip_wrap(Y)) if Y is not None else None
                nob += 1
                if Y is None or sp.expand(Y - t) != 0:
                    probs.append('pass t copies from source element %s, expected element t' % (Y if Y is not None else src[0].off))
        if slope is None:
            continue
        # ---- behind the loop: the number of passes and the range covered
        exits = [lf for lf in leaves if any(t in (sp.sympify(c.a).free_symbols | sp.sympify(c.b).free_symbols) for c in lf.pc if isinstance(c, alg.Cond))]
        if not exits:
            unk.append('no path behind the loop constrains the number of passes')
            continue
        for lf in exits:
            dropped = _dropped(lf)
            try:
                cases = lin.cases_of(dom, lf, facts0, extra_terms=[start, t])
            except Unsupported as e:
                unk.append(str(e))
                continue
            # a loop tested at the bottom is left from inside pass t: that pass has run too
            more = len([e for e in lf.calls if isinstance(e, Effect) and e.kind == 'callback' and e.ins is site and C.storage(Ptr(e.base, e.off))[0]])
            if more > 1:
                unk.append('the path behind the loop repeats the callback %d times' % more)
                continue
            T = sp.expand(t + more)
            for cs in cases:
                # first element of the range: start (ascending) or start - (T - 1) (descending)
                first = start if slope == 1 else sp.expand(start - T + 1)
                for label, ok, info in _decide(cs, T, first, spec):
                    nob += 1
                    if ok:
                        continue
                    if ok is None or dropped or info is None or info[0] is None:
                        unk.append('%s: not decided%s' % (label, ' (a non-linear test on this path was dropped: %s)' % (dropped[0],) if dropped else
                                                          (' (not entailed, no integer witness found)' if ok is False else '')))
                        continue
                    wit, wanted, got = info
                    desc = ', '.join('%s=%s' % (k, v) for k, v in sorted(wit.items(), key=lambda kv: str(kv[0])) if not str(k).startswith(('k', 'q', 'r', 'M', 'cb', 'h')))
                    probs.append('the %s callback loop: %s is %s, the operation is about %s (%s)' % (spec['what'], label, sp.expand(got), wanted, desc))
    sym = name
    if probs:
        rep.bad('B11', sym, '; '.join(sorted(set(probs))[:2])[:600], loc=loc, key='%s: callback schedule' % name)
    elif unk:
        rep.unk('B11', sym, '; '.join(sorted(set(unk))[:2])[:300], loc=loc)
    else:
        rep.ok('B11', sym, 'the %s callback visits exactly the elements of the operation\'s range, one per pass, %s (%d equalities entailed)' % (
            spec['what'], 'with the matching source element' if spec['src'] else 'each once', nob), loc=loc, sample={'fn': name, 'equalities': nob})
