"""C06 - dynamic string (DESIGN 4 C06).  B1/B2 (LIN): num_ <= mem_ preserved, every byte access and block effect inside the
capacity; N1 terminator typestate of the terminating variants; V1 two-pass vsnprintf protocol of a_str_catv; K1 compare
structure.  Loop paths (trim family) are not decided."""
import sympy as sp
import symx, alg, lin, fm, dwarf, llir, effects, path
from symx import Ptr, Unsupported, TOP, NULL
from lin import LinDom, Effect, MAXP, TWO64

LEVEL = 'other'
S = lambda n: sp.Symbol(n, integer=True, nonnegative=True)


def lookup_in(mods):
    def lk(name):
        for m in mods:
            f = m.functions.get(name)
            if f is not None and not f.error:
                return f
        return None
    return lk


class StrDom(LinDom):
    """adds: vsnprintf / strlen / a_utf_encode summaries and NUL facts"""

    def __init__(self, names, summaries):
        LinDom.__init__(self, names, summaries)
        self.indicator_symbols = True
        self.nul_facts = []    # (base, offset expr, condition constraints) : a NUL byte is known at base+offset

    def call(self, name, args, ins, interp, st, fn):
        if name == 'vsnprintf':
            buf, size = args[0], args[1]
            # the formatter is a function of (format, arguments): the measuring and the formatting call return the same length
            fkey = repr(args[2])
            if fkey in getattr(self, 'fmt_res', {}):
                res = self.fmt_res[fkey]
            else:
                res = self.fresh('res')
                self.fmt_res = dict(getattr(self, 'fmt_res', {}))
                self.fmt_res[fkey] = res
                self.facts.append(fm.le(0, res))     # assumption: the C formatter does not fail (no negative result)
                self.facts.append(fm.le(res, 2 ** 31 - 1))
            if isinstance(buf, Ptr) and buf.base != 'null':
                e = Effect('write', 'vsnprintf', buf.base, buf.off, size, ins)
                e.cap = self.cap_now(interp, st)
                st.calls.append(e)
                st.calls.append(('nul_if', buf.base, sp.sympify(buf.off) + res, [fm.le(0, res), fm.lt(res, size)], res))
            st.calls.append(('vsnprintf', buf, size, args[2], args[3], res))
            return res
        if name == 'strlen':
            n = self.fresh('len', nonnegative=True)
            self.facts.append(fm.le(n, MAXP))
            if not hasattr(self, 'strlen_of'):
                self.strlen_of = {}
            self.strlen_of[n] = args[0]
            return n
        if name == 'a_utf_encode':
            # the length is a function of the code point alone (with or without a buffer: C18 U3 and its buf == NULL clause), at most
            # 6, and exactly that many bytes are written (C18 U2): one symbol per code-point argument
            if not hasattr(self, 'enc_of'):
                self.enc_of = {}
            key = str(args[0])
            if key not in self.enc_of:
                self.enc_of[key] = self.fresh('enc', nonnegative=True)
                self.facts.append(fm.le(self.enc_of[key], 6))
            n = self.enc_of[key]
            buf = args[1]
            if isinstance(buf, Ptr) and buf.base != 'null':
                e = Effect('write', 'a_utf_encode', buf.base, buf.off, n, ins)
                e.cap = self.cap_now(interp, st)
                st.calls.append(e)
            return n
        if name in ('isspace',):
            return self.fresh('p')
        if name == '__ctype_b_loc':
            return Ptr('ctype_loc', 0)
        if name == 'a_utf_length':
            if isinstance(args[0], Ptr) and args[0].base != 'null':
                e = Effect('read', name, args[0].base, args[0].off, args[1], ins)
                e.cap = self.cap_now(interp, st)
                st.calls.append(e)
            return self.fresh('ulen', nonnegative=True)
        if name.startswith('llvm.va_'):
            st.calls.append((name, args))
            return None
        return LinDom.call(self, name, args, ins, interp, st, fn)


def setm_summary(off):
    def summ(dom, args, ins, interp, st):
        p, req = args[0], args[1]
        if not isinstance(p, Ptr) or p.base != 'ctx':
            return NotImplemented
        old = interp.load(Ptr('ctx', off['mem_']), llir.I(64), st)
        forced = ins.x['callee'].v == 'a_str_setm_'

        def ok(s2):
            M = dom.fresh('M', nonnegative=True)
            dom.facts.append(fm.le(req, M))
            dom.facts.append(fm.le(M, MAXP))
            if not forced:
                dom.facts.append(fm.le(old, M))
            interp.store(Ptr('ctx', off['mem_']), M, llir.I(64), s2)
            interp.store(Ptr('ctx', off['ptr_']), Ptr('*ptr_', 0), llir.Ty('ptr', llir.I(8)), s2)
            s2.calls.append(('grown',))

        def fail(s2):
            if not forced:
                s2.assume(alg.Cond('icmp', 'ugt', sp.sympify(req), sp.sympify(old)))
        return [(0, ok), (4, fail)]
    return summ


TERMINATING_MUTATORS = {'a_str_getc', 'a_str_catc', 'a_str_getn', 'a_str_catn', 'a_str_cats', 'a_str_cat', 'a_str_catv', 'a_str_catf', 'a_utf_catc',
                        'a_str_rtrim', 'a_str_ltrim', 'a_str_trim', 'a_str_exit'}


def analyse(ctx, fn, m, hdr, off, names, rep):
    name = fn.name
    loc = fn.loc(fn.entry.instrs[0])
    summaries = {}
    if name not in ('a_str_setm', 'a_str_setm_'):
        summaries = {'a_str_setm': setm_summary(off), 'a_str_setm_': setm_summary(off)}
    dom = StrDom(names, summaries)
    dom.facts = []
    dom.cap_loc = ('ctx', off['mem_'])
    dom.track_bases = ('*ptr_',)
    dom.maybe_null |= {'src', '*ptr_', 'stop'}
    args = []
    psyms = []
    for k, (t, pn) in enumerate(fn.params):
        if k == 0 and t.is_ptr and t.a.k == 'struct':
            args.append(Ptr('ctx', 0))
        elif t.is_ptr and t.a.k == 'struct' and t.a.a.endswith('a_str'):
            args.append(Ptr('obj', 0))
        elif t.is_ptr:
            args.append(Ptr('src%d' % k, 0))
            dom.maybe_null.add('src%d' % k)
        elif t.is_int and t.a == 64:
            s = sp.Symbol('arg_' + (pn or str(k)), integer=True, nonnegative=True)
            args.append(s)
            psyms.append(s)
        elif t.is_int:
            args.append(sp.Symbol('arg_' + (pn or str(k)), integer=True))
        elif t.k == 'vararg':
            continue
        else:
            raise Unsupported('parameter type %r' % t)
    it = symx.Interp(dom, lookup_in([m, hdr]), max_paths=2000, inline=lambda n: n not in summaries)
    it.prune_loops = True
    facts0 = [fm.le(S('num_'), S('mem_')), fm.le(S('mem_'), MAXP), fm.le(0, S('num_'))]
    ls = lin.LoopSummary(facts0, None)
    it.loop_hook = ls
    it.loop_leaves = []
    leaves = it.run(fn, args)
    pruned = getattr(it, 'pruned', 0)
    loop_leaves = list(it.loop_leaves)
    for s in psyms:
        facts0 += [fm.le(0, s), fm.le(s, TWO64 - 1)]
    # source blocks of documented length hold that many bytes: nbyte <= PTRDIFF_MAX
    for s in psyms:
        if str(s) in ('arg_nbyte',):
            facts0.append(fm.le(s, MAXP))
    if name == 'a_str_setn_':
        facts0.append(fm.le(sp.Symbol('arg_num', integer=True, nonnegative=True), S('mem_')))   # documented: length must be less than memory
    # the other string object of cat: its own invariant
    facts0 += [fm.le(sp.Symbol('obj[8]', integer=True, nonnegative=True), MAXP)]
    terminating = name in TERMINATING_MUTATORS
    if terminating:
        # entry typestate of the terminating API: a NUL directly behind the content inside the capacity (when there is a buffer)
        pass
    from props import C06_content
    try:
        C06_content.check(fn, name, dom, leaves, facts0, off, rep)
    except Unsupported as e:
        rep.unk('K2', name, str(e), loc=loc)
    if name in ('a_str_rtrim_', 'a_str_ltrim_'):
        try:
            C06_content.trim_steps(fn, name, dom, leaves, loop_leaves, off, rep)
        except Unsupported as e:
            rep.unk('K3', name, str(e), loc=loc)
    nob = 0
    viol, unk = [], []
    for lf in leaves + loop_leaves:
        in_loop = hasattr(lf, 'loop_obligations')
        try:
            cases = lin.cases_of(dom, lf, facts0, extra_terms=[x for o in getattr(lf, 'loop_obligations', []) for x in o[1:]])
        except Unsupported as e:
            unk.append(str(e))
            continue
        ptr_null = any(isinstance(c, alg.Cond) and str(c.a) == '&*ptr_' and c.rel() == '==' for c in lf.pc)
        ptr_nonnull = any(isinstance(c, alg.Cond) and str(c.a) == '&*ptr_' and c.rel() == '!=' for c in lf.pc)
        if ptr_nonnull:
            # a buffer exists only with a capacity of at least one byte (a_str_setm_ frees when the capacity becomes 0)
            for cs in cases:
                cs.cons.append(fm.le(1, S('mem_')))
        if ptr_null:
            for cs in cases:
                cs.cons += [fm.le(S('mem_'), 0)]
        fin = {}
        for nm in ('num_', 'mem_'):
            k = ('ctx', off[nm])
            fin[nm] = sp.sympify(lf.store[k][0]) if k in lf.store else S(nm)
        pk = ('ctx', off['ptr_'])
        ptr_final = lf.store[pk][0] if pk in lf.store else Ptr('*ptr_', 0)
        for cs in cases:
            goals = []
            for e in lf.calls:
                if not isinstance(e, Effect) or e.base != '*ptr_':
                    continue
                cap = sp.sympify(e.cap) if getattr(e, 'cap', None) is not None else fin['mem_']
                try:
                    X = sp.expand(sp.sympify(e.off))
                    Y = sp.expand(sp.sympify(e.size))
                    goals.append(('%s at %s touches bytes [%s, %s) of capacity %s' % (e.name, fn.loc(e.ins) if e.ins else loc, X, sp.expand(X + Y), cap),
                                  [fm.le(0, X), fm.le(0, Y), fm.le(X + Y, cap)], e))
                except fm.NonLinear:
                    unk.append('non-linear extent of %s' % e.name)
            for desc_, a_, b_ in getattr(lf, 'loop_obligations', []):
                try:
                    goals.append(('loop summary: ' + desc_, [fm.le(a_, b_), fm.le(b_, a_)], 'loop'))
                except fm.NonLinear:
                    unk.append('non-linear loop summary')
            if not name.endswith('_dtor') and not name.endswith('_die') and not in_loop:
                try:
                    goals.append(('num_ <= mem_ at exit (num_=%s, mem_=%s)' % (fin['num_'], fin['mem_']), [fm.le(fin['num_'], fin['mem_']), fm.le(0, fin['num_'])], None))
                except fm.NonLinear:
                    unk.append('non-linear final fields')
            # N1: terminator behind the content when the function changed the content
            if not in_loop and terminating and name != 'a_str_exit' and isinstance(ptr_final, Ptr) and ptr_final.base == '*ptr_' and not (ptr_null and ('grown',) not in lf.calls):
                changed = ('ctx', off['num_']) in lf.store and not alg.is_zero(fin['num_'] - S('num_'))
                if changed:
                    try:
                        if all(fm.entails(cs.cons, lin.subst_con(g, cs.kenv)) for g in fm.eq(fin['num_'], S('num_'))):
                            changed = False      # the path condition forces the length to be what it was
                    except fm.NonLinear:
                        pass
                wrote = any(isinstance(e, Effect) and e.base == '*ptr_' and e.kind in ('store', 'write') for e in lf.calls)
                if changed:
                    # a store of 0 at offset num_final, or a formatter NUL fact at that offset
                    okn = False
                    for (b, kk), (v, t) in lf.store.items():
                        if b == '*ptr_' and dom.concrete(v) == 0:
                            offx = lf.offs.get((b, kk), kk)
                            try:
                                if all(fm.entails(cs.cons, lin.subst_con(g, cs.kenv)) for g in fm.eq(sp.sympify(offx), fin['num_'])):
                                    okn = True
                            except fm.NonLinear:
                                pass
                    for e in lf.calls:
                        # a block of zero bytes that covers the new end: off <= num_ < off + size
                        if isinstance(e, Effect) and getattr(e, 'zero', False) and e.base == '*ptr_' and e.size is not None:
                            try:
                                gz = [fm.le(sp.sympify(e.off), fin['num_']), fm.lt(fin['num_'], sp.sympify(e.off) + sp.sympify(e.size))]
                                if all(fm.entails(cs.cons, lin.subst_con(g, cs.kenv)) for g in gz):
                                    okn = True
                            except fm.NonLinear:
                                pass
                    for e in lf.calls:
                        if isinstance(e, tuple) and e and e[0] == 'nul_if':
                            _, b, offx, conds, res = e
                            try:
                                eqs = fm.eq(sp.sympify(offx), fin['num_'])
                                if all(fm.entails(cs.cons, lin.subst_con(g, cs.kenv)) for g in eqs + conds):
                                    okn = True
                            except fm.NonLinear:
                                pass
                    nob += 1
                    if not okn:
                        # is there a model? the content changed without a NUL at the new end
                        viol.append(('terminator: no NUL byte is written at offset num_ = %s after the content changed' % fin['num_'], 'path %s' % str(lf.pc)[:120], loc, cs.kenv, 'N1'))
                    try:
                        goals.append(('terminator inside the capacity: num_ < mem_ at exit (num_=%s, mem_=%s)' % (fin['num_'], fin['mem_']), [fm.lt(fin['num_'], fin['mem_'])], None))
                    except fm.NonLinear:
                        pass
            for desc, gs, e in goals:
                nob += 1
                ok, failing = lin.prove(cs, gs)
                if ok:
                    continue
                if e == 'loop':
                    unk.append('cannot prove: %s' % desc)
                    continue
                w = lin.witness(cs, failing, None)
                if w is not None:
                    wit = ', '.join('%s=%s' % (k, v) for k, v in sorted(w.items(), key=lambda kv: str(kv[0])) if not str(k).startswith(('k', 'q', 'r', 'M', '&', 'u', 'p')))
                    viol.append((desc, wit, fn.loc(e.ins) if e is not None and not isinstance(e, str) and e.ins else loc, cs.kenv, 'B1' if 'exit' in desc and 'terminator' not in desc else ('N1' if 'terminator' in desc else 'B2')))
                else:
                    unk.append('cannot prove: %s' % desc)
    if viol:
        seen = set()
        for desc, wit, l2, kenv, rule in viol:
            site = desc.split(' touches')[0].split(' at exit')[0].split(':')[0]
            key = '%s: %s' % (name, site.split(' at ')[0])
            if key in seen:
                continue
            seen.add(key)
            rep.bad(rule, '%s{%s}' % (name, site.split(' at ')[0]), '%s; witness: %s' % (desc, wit), loc=l2, key=key, witness=wit)
    elif unk:
        rep.unk('B2', name, '; '.join(sorted(set(unk))[:2])[:400], loc=loc)
    else:
        rep.ok('B2', name, '%d paths%s, %d obligations discharged (byte accesses, block effects, exit invariant%s)%s'
               % (len(leaves), ' + %d loop-iteration paths of summarised loops' % len(loop_leaves) if loop_leaves else '', nob, ', terminator' if terminating else '', '; %d paths enter loops that are not summarised (not decided)' % pruned if pruned else ''), loc=loc,
               sample={'fn': name, 'paths': len(leaves), 'obligations': nob, 'pruned_loop_paths': pruned})
    for n_ in ls.notes:
        rep.note(n_)


def catv_protocol(ctx, m, off, names, rep):
    """V1: measuring call into the spare room with a copied va_list, grow to num_+res+1, second call with the original list"""
    fn = m.functions.get('a_str_catv')
    if fn is None or fn.error:
        rep.unk('V1', 'a_str_catv', 'anchor vanished')
        return
    loc = fn.loc(fn.entry.instrs[0])
    calls = [(effects.callee_name(i) or '?', i) for i in fn.instrs() if i.op == 'call']
    names_ = [c for c, _ in calls]
    probs = []
    vs = [i for c, i in calls if c == 'vsnprintf']
    if len(vs) != 2:
        probs.append('%d vsnprintf calls, expected 2 (measure, then format)' % len(vs))
    if 'llvm.va_copy' not in names_ or 'llvm.va_end' not in names_:
        probs.append('the measuring pass does not work on a va_copy that is va_end-ed')
    else:
        cp = [i for c, i in calls if c == 'llvm.va_copy'][0]
        if vs and not fn.idominates(cp, vs[0]):
            probs.append('va_copy does not precede the first formatter call')
    sm = [i for c, i in calls if c in ('a_str_setm_', 'a_str_setm')]
    if len(sm) < 1:
        probs.append('%d grow calls' % len(sm))
    elif len(vs) == 2:
        # measure -> grow (one request, or a generous one with the exact need as fallback) -> format: every grow call comes behind the
        # measuring call, and the formatting call is not reached from it without passing one
        smb = set(i.block for i in sm)
        seen_, todo_ = set(), [vs[0].block] if vs[0].block not in smb else []
        while todo_:
            b_ = todo_.pop()
            if b_ in seen_ or b_ in smb:
                continue
            seen_.add(b_)
            todo_.extend(b_.succs)
        around = vs[1].block in seen_ and vs[1].block is not vs[0].block
        if not all(fn.idominates(vs[0], i) for i in sm) or around:
            probs.append('order is not measure -> grow -> format')
        # both formatter calls receive the same format argument
        if vs[0].ops[2].key() != vs[1].ops[2].key():
            probs.append('the two formatter calls use different format strings')
    if probs:
        rep.bad('V1', 'a_str_catv', '; '.join(probs), loc=loc, key='a_str_catv: protocol')
    else:
        rep.ok('V1', 'a_str_catv', 'va_copy; measure into (ptr_+num_, mem_-num_); grow; format again with the same format and the original list; sizes/extents by rule B2', loc=loc)


def compare_rule(ctx, m, rep):
    fn = m.functions.get('a_str_cmp_')
    if fn is None or fn.error:
        rep.unk('K1', 'a_str_cmp_', 'anchor vanished')
        return
    loc = fn.loc(fn.entry.instrs[0])
    strf = sorted(set(effects.callee_name(i) or '' for i in fn.instrs() if i.op == 'call') & {'strcmp', 'strncmp', 'strcoll', 'strcasecmp', 'strncasecmp', 'strxfrm'})
    if strf:
        rep.bad('K1', 'a_str_cmp_', 'the common prefix is compared with %s, which stops at the first NUL byte: byte strings with an embedded NUL compare equal although '
                'they differ behind it (bytewise comparison needs memcmp)' % ', '.join(strf), loc=loc, key='a_str_cmp_: structure')
        return
    try:
        dom = StrDom({}, {})
        dom.facts = []
        dom.maybe_null |= {'p0', 'p1'}
        n0, n1 = S('n0'), S('n1')
        it = symx.Interp(dom, lambda n: None)
        lv = it.run(fn, [Ptr('p0', 0), n0, Ptr('p1', 0), n1])
        probs = []
        saw_mem = False
        for lf in lv:
            mc = [e for e in lf.calls if isinstance(e, Effect) and e.name == 'memcmp']
            r = lf.ret
            if mc:
                saw_mem = True
                sz = sp.sympify(mc[0].size)
                # size must be min(n0, n1): equals n0 under n0<=n1 or n1 otherwise (select forks)
                if not (sz == n0 or sz == n1):
                    probs.append('memcmp over %s bytes, expected min(n0, n1)' % sz)
                else:
                    other = n1 if sz == n0 else n0
                    if not any(isinstance(c, alg.Cond) and ((c.rel() in ('<', '<=') and sp.sympify(c.a) == sz and sp.sympify(c.b) == other) or
                                                             (c.rel() in ('>', '>=') and sp.sympify(c.a) == other and sp.sympify(c.b) == sz)) for c in lf.pc) and not alg.is_zero(n0 - n1):
                        probs.append('memcmp length %s is not guarded as the smaller length on path %s' % (sz, lf.pc))
        # tie-break leaves: (n0 > n1) - (n0 < n1).  The difference of the lengths itself is no substitute once it is narrowed to the
        # int that is returned: for lengths 2^31 or more apart the sign flips, for a multiple of 2^32 apart the result is "equal"
        def narrowed_difference(v, depth=0):
            d = fn.defs.get(v.v) if v.k == 'reg' else None
            if d is None or depth > 6:
                return None
            if d.op in ('phi', 'select'):
                for o in (d.ops if d.op == 'phi' else d.ops[1:]):
                    r_ = narrowed_difference(o, depth + 1)
                    if r_ is not None:
                        return r_
                return None
            if d.op == 'trunc':
                src = fn.defs.get(d.ops[0].v) if d.ops[0].k == 'reg' else None
                if src is not None and src.op == 'sub' and {o.v for o in src.ops if o.k == 'reg'} == {fn.params[1][1], fn.params[3][1]}:
                    return d
            return None
        for i_ in fn.instrs():
            if i_.op == 'ret' and i_.ops:
                nd = narrowed_difference(i_.ops[0])
                if nd is not None:
                    probs.append('equal prefixes are ordered by the difference of the lengths narrowed to %d bits: wrong sign for lengths 2^%d or more apart, '
                                 '"equal" for lengths a multiple of 2^%d apart' % (nd.ty.a, nd.ty.a - 1, nd.ty.a))
        if not saw_mem:
            probs.append('no memcmp on the common prefix')
        if probs:
            rep.bad('K1', 'a_str_cmp_', '; '.join(sorted(set(probs))[:2]), loc=loc, key='a_str_cmp_: structure')
        else:
            rep.ok('K1', 'a_str_cmp_', 'memcmp over min(n0,n1) bytes decides when non-zero, otherwise the sign of n0 - n1 (%d paths)' % len(lv), loc=loc)
    except Unsupported as e:
        rep.unk('K1', 'a_str_cmp_', str(e))


def trim_wrappers(m, rep):
    """K4: the trim variants are built from the two loops decided by K3 - each forwards its own (ctx, s, n) to the documented pieces"""
    import effects
    want = {'a_str_rtrim': ['a_str_rtrim_'], 'a_str_ltrim': ['a_str_ltrim_'], 'a_str_trim_': ['a_str_ltrim_', 'a_str_rtrim_'], 'a_str_trim': ['a_str_trim_']}
    for name, callees in want.items():
        f = m.functions.get(name)
        if f is None or f.error:
            rep.unk('K4', name, 'anchor vanished')
            continue
        loc = f.loc(f.entry.instrs[0])
        params = [pn for (_, pn) in f.params]
        got, probs = [], []
        for i in f.instrs():
            if i.op != 'call':
                continue
            cn = effects.callee_name(i) or ''
            if 'trim' not in cn:
                continue
            got.append(cn)
            ops = [o.v if o.k == 'reg' else None for o in i.ops[:3]]
            if ops != params[:3]:
                probs.append('%s is called with %s, expected the own arguments (ctx, s, n)' % (cn, ops))
        if sorted(got) != sorted(callees):
            if not got or list(f.loops()):
                # written out by hand instead of being composed from the two pieces: not comparable, no verdict
                rep.unk('K4', name, 'not composed from %s (calls %s, %d loops of its own)' % (callees, sorted(got), len(list(f.loops()))), loc=loc)
                continue
            probs.append('calls %s, expected %s' % (sorted(got), sorted(callees)))
        if probs:
            rep.bad('K4', name, '; '.join(probs), loc=loc, key='%s: trim pieces' % name)
        else:
            rep.ok('K4', name, 'forwards (ctx, s, n) to %s' % ' and '.join(callees), loc=loc)


def run(ctx):
    rep = ctx.rep
    rep.explanation = ('LIN analysis of every function of str.c and the inline accessors (fields, lengths and counts symbolic over their full '
                       'range, wrap symbols, Fourier-Motzkin entailment, integer witnesses): every byte load/store and block effect on the '
                       'character buffer lies inside [0, mem_), num_ <= mem_ at exit; terminating variants that change the content end with a '
                       'NUL byte at ptr_[num_] and num_ < mem_ (stores and the formatter NUL fact); the formatted append follows the two-pass '
                       'protocol; the comparison is memcmp over the common prefix, then length')
    rep.trusted += ['lib/lin.py, lib/fm.py', 'libc contracts: vsnprintf writes at most size bytes, returns res >= 0 (formatter errors are not modelled) and, for res < size, a NUL at buf[res]; strlen <= PTRDIFF_MAX']
    rep.assumptions += ['representation invariant at entry: num_ <= mem_, the block holds mem_ bytes', 'a_str_setn_ receives num <= mem_ (documented: length must be less than memory)',
                        'source blocks hold the stated number of bytes', 'NOT decided: what the C formatter writes (libc contract), contents for setn']
    m = ctx.module('str')
    hdr = ctx.module('hdr_unit')
    md = dwarf.MD(m)
    fl = md.flatten('a_str')
    off = {nm: o for o, nm in fl.items()}
    names = {('ctx', o): nm for o, nm in fl.items()}
    fns = []
    for n, f in sorted(m.functions.items()):
        if not f.error and (n.startswith('a_str_') or n.startswith('a_utf_')) and 'internal' not in f.linkage:
            fns.append(f)
    for n, f in sorted(hdr.functions.items()):
        if not f.error and n.startswith('a_str_') and n not in m.functions:
            fns.append(f)
    todo = []
    for f in fns:
        ctx.rep.functions.add(f.name)
        if not f.params or not f.params[0][0].is_ptr or f.name in ('a_str_cmp_', 'a_str_swap', 'a_str_new', 'a_str_die'):
            continue
        todo.append(f)
    byname = {f.name: f for f in todo}

    def one(nm, r_):
        try:
            analyse(ctx, byname[nm], m, hdr, off, names, r_)
        except Unsupported as e:
            r_.unk('B2', nm, str(e))
    import par
    par.fan_out(rep, [f.name for f in todo], one)
    catv_protocol(ctx, m, off, names, rep)
    compare_rule(ctx, m, rep)
    trim_wrappers(m, rep)
    import stale
    pidx = stale.field_index(m, 'a_str', 'ptr_')
    for f in fns:
        if f.name in ('a_str_setm', 'a_str_setm_'):
            continue
        stale.check(rep, 'N3', f, pidx, {'a_str_setm', 'a_str_setm_'})
    rep.floor('N3', 2)
    rep.floor('K2', 8)
    rep.floor('K3', 2)
    rep.floor('K4', 4)
    rep.floor('B2', 30)
    rep.floor('V1', 1)
    rep.floor('K1', 1)
