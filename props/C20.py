"""C20 - Rust binding ABI (DESIGN 4 C20): ABI-1 structs, ABI-2 functions, ABI-3 both real widths.

C side: types as resolved by clang (debug-info type graph of the compiled definitions + a constant
folded sizeof/_Alignof/offsetof probe).  Rust side: lib.rs read by lib/rustsrc.py, repr(C) layout
algorithm (quick) and rustc const-assert witnesses (thorough).
"""
import os, re, json, subprocess, shutil
import irx, llir, dwarf, rustsrc
from report import PASS, VIOL, INCONC

LEVEL = 'proof'
SPEC = json.load(open(os.path.join(os.path.dirname(__file__), '..', 'specs', 'abi.json')))
RUST_ONLY = SPEC['struct_pairing']['rust_only']
FLOOR_STRUCTS = 14
FLOOR_FNS = 121


def fmt(c):
    if isinstance(c, str):
        return c
    if c[0] == 'ptr':
        return '*' + fmt(c[1])
    if c[0] == 'array':
        return '[%s;%s]' % (fmt(c[1]), c[2])
    if c[0] == 'struct':
        return 'struct ' + c[1]
    if c[0] == 'fn':
        return 'fn(%s)->%s' % (','.join(fmt(x) for x in c[2]), fmt(c[1]))
    return repr(c)


def compat(cc, rc, mirrored, top=True):
    """is C class cc ABI-compatible with Rust class rc?  returns None if ok, else reason"""
    if isinstance(cc, str) and isinstance(rc, str):
        if cc == rc:
            return None
        if cc == 'c8' and rc in ('u8', 'i8', 'c8'):
            return None
        if rc == 'c8' and cc in ('u8', 'i8'):
            return None
        return 'C %s vs Rust %s' % (cc, rc)
    if isinstance(cc, str) or isinstance(rc, str):
        return 'C %s vs Rust %s' % (fmt(cc), fmt(rc))
    if cc[0] != rc[0]:
        return 'C %s vs Rust %s' % (fmt(cc), fmt(rc))
    k = cc[0]
    if k == 'ptr':
        a, b = cc[1], rc[1]
        # pointer to array decays to pointer to element
        while isinstance(a, tuple) and a[0] == 'array':
            a = a[1]
        while isinstance(b, tuple) and b[0] == 'array':
            b = b[1]
        if a == 'void' or b == 'void':
            return None
        r = compat(a, b, mirrored, False)
        return ('pointee: ' + r) if r else None
    if k == 'array':
        if cc[2] != rc[2]:
            return 'array length C %s vs Rust %s' % (cc[2], rc[2])
        return compat(cc[1], rc[1], mirrored, False)
    if k == 'struct':
        cn = cc[1]
        rn = rc[1]
        if cn == 'a_' + rn:
            return None
        return 'C struct %s vs Rust struct %s' % (cn, rn)
    if k == 'fn':
        if len(cc[2]) != len(rc[2]):
            return 'fn pointer arity C %d vs Rust %d' % (len(cc[2]), len(rc[2]))
        r = compat(cc[1], rc[1], mirrored, False)
        if r:
            return 'fn pointer return: ' + r
        for i, (x, y) in enumerate(zip(cc[2], rc[2])):
            r = compat(x, y, mirrored, False)
            if r:
                return 'fn pointer param %d: %s' % (i, r)
        return None
    return 'C %s vs Rust %s' % (fmt(cc), fmt(rc))


def cname(n):
    return n[:-1] if n.endswith('_') else n


def c_facts(ctx, real, struct_names):
    """-> (structs{name:{size,align,members}}, fns{name:{sig,unit,loc}}, protos{name})"""
    scr = ctx.scr
    cfg = ctx.cfg('all', real)
    tag = 'abi%d' % real
    mods = irx.compile_all(scr, cfg, tag)
    fns = {}
    protos = set()
    structs = {}
    for unit, ll in sorted(mods.items()):
        m = llir.parse_module(ll)
        ctx.rep.units.add('%s@%s' % (unit, tag))
        md = dwarf.MD(m)
        for nm, sp in md.subprograms().items():
            if nm in m.functions and (nm not in fns or unit != 'hdr_unit'):
                f = m.functions[nm]
                internal = 'internal' in f.linkage
                if nm in fns and internal:
                    continue
                fns[nm] = {'sig': sp['sig'], 'unit': unit, 'line': sp['line'], 'internal': internal,
                           'pnames': [pn for _, pn in f.params]}
        protos |= set(m.declares) | set(m.functions)
    # struct probe
    L = ['#include <stddef.h>'] + ['#include "a/%s"' % os.path.basename(h) for h in sorted(
        __import__('glob').glob(os.path.join(irx.REPO, 'include/a/*.h')))]
    # which struct tags exist?  ask the AST of the header unit via a first compile of tentative probes
    hdr = open(scr.path('probe_tags.c'), 'w')
    hdr.write('\n'.join(L) + '\n')
    hdr.close()
    r = irx.sh([irx.CLANG] + irx.base_flags(cfg) + ['-fsyntax-only', '-Xclang', '-ast-dump=json', '-Xclang',
                                                   '-ast-dump-filter=a_', scr.path('probe_tags.c')])
    tags = set(re.findall(r'"kind": "RecordDecl",(?:(?!"kind").)*?"name": "(a_\w+)"', r.stdout, re.S))
    have = [n for n in struct_names if 'a_' + n in tags]
    src = scr.path('probe%d.c' % real)
    body = list(L)
    for n in have:
        body.append('struct a_%s verif_obj_%s;' % (n, n))
        body.append('const unsigned long verif_sz_%s[2] = {sizeof(struct a_%s), _Alignof(struct a_%s)};' % (n, n, n))
    open(src, 'w').write('\n'.join(body) + '\n')
    ll = irx.compile_ir(scr, src, cfg, tag, irx.PASSES, ['-fstandalone-debug'])
    m = llir.parse_module(ll)
    md = dwarf.MD(m)
    st = md.structs()
    for n in have:
        g = m.globals.get('verif_sz_%s' % n, '')
        mm = re.search(r'\[i64 (\d+), i64 (\d+)\]', g)
        s = st.get('a_' + n)
        if not mm or not s:
            continue
        structs[n] = {'size': int(mm.group(1)), 'align': int(mm.group(2)), 'members': s['members'],
                      'dwarf_size': s['size']}
    return structs, fns, protos, tags


def run(ctx):
    rep = ctx.rep
    rep.explanation = ('ABI agreement decided from declarations only: C types as resolved by clang for the compiled '
                       'definitions (debug-info type graph, constant-folded sizeof/_Alignof) vs. src/lib.rs read by a Rust '
                       'item reader + repr(C) layout algorithm; thorough tier adds rustc-checked const witnesses')
    rep.trusted += ['clang debug-info type graph', 'lib/rustsrc.py Rust item reader', 'repr(C) layout algorithm (x86-64 SysV)']
    librs = os.path.join(irx.REPO, 'src/lib.rs')
    if not os.path.exists(librs):
        rep.unk('ABI-0', 'src/lib.rs', 'binding source vanished')
        return
    nstruct = 0
    nfn = 0
    for real, feats in ((8, ['std']), (4, ['std', 'float'])):
        cfgname = 'real=f%d' % (real * 8)
        try:
            rs = rustsrc.Src(librs, feats)
        except rustsrc.RustError as e:
            rep.unk('ABI-0', 'src/lib.rs', 'Rust reader: %s' % e)
            return
        rnames = [n for n, s in rs.structs.items() if s['repr'] == 'C']
        cst, cfn, protos, tags = c_facts(ctx, real, rnames)
        mirrored = set(cst)
        # ---- ABI-1 structs
        for n in rnames:
            sym = '%s[%s]' % (n, cfgname)
            if n not in cst:
                if n in RUST_ONLY and ('a_' + n) not in tags:
                    rep.ok('ABI-1x', sym, 'Rust-only struct (no C struct a_%s): %s' % (n, RUST_ONLY[n]))
                    continue
                if ('a_' + n) in tags:
                    rep.unk('ABI-1', sym, 'C struct a_%s exists but no layout could be read' % n)
                else:
                    rep.bad('ABI-1', sym, 'repr(C) struct %s has no C counterpart struct a_%s' % (n, n),
                            key='%s: no C counterpart' % n, loc='src/lib.rs:%d' % rs.structs[n]['line'])
                continue
            nstruct += 1
            try:
                rsize, ralign, rf = rustsrc.struct_layout(rs, n)
            except rustsrc.RustError as e:
                rep.unk('ABI-1', sym, 'Rust layout: %s' % e)
                continue
            c = cst[n]
            loc = 'src/lib.rs:%d' % rs.structs[n]['line']
            probs = []
            if any(m['bitfield'] for m in c['members']):
                rep.unk('ABI-1', sym, 'C struct has bit-fields')
                continue
            if len(rf) != len(c['members']):
                probs.append('field count C %d vs Rust %d' % (len(c['members']), len(rf)))
            cn = [cname(m['name']) for m in c['members']]
            rn = [cname(f[0]) for f in rf]
            for i, (m, f) in enumerate(zip(c['members'], rf)):
                if cn[i] != rn[i]:
                    if rn[i] in cn and cn[i] in rn:
                        probs.append('field %d: order differs (C %s, Rust %s)' % (i, m['name'], f[0]))
                    else:
                        rep.note('%s field %d renamed: C %s / Rust %s' % (sym, i, m['name'], f[0]))
                if m['offset'] != f[1]:
                    probs.append('field %s: offset C %d vs Rust %d' % (f[0], m['offset'], f[1]))
                if m['size'] != f[2]:
                    probs.append('field %s: size C %d vs Rust %d' % (f[0], m['size'], f[2]))
                r = compat(m['cls'], f[3], mirrored)
                if r:
                    probs.append('field %s: type %s' % (f[0], r))
            if c['size'] != rsize:
                probs.append('size C %d vs Rust %d' % (c['size'], rsize))
            if c['align'] != ralign:
                probs.append('alignment C %d vs Rust %d' % (c['align'], ralign))
            sample = {'struct': n, 'config': cfgname, 'size': rsize, 'align': ralign,
                      'fields': [[f[0], f[1], fmt(f[3])] for f in rf]}
            if probs:
                rep.bad('ABI-1', sym, '; '.join(probs), loc=loc, key='%s: %s' % (n, probs[0].split(':')[0]), sample=sample)
            else:
                rep.ok('ABI-1', sym, 'size %d align %d, %d fields' % (rsize, ralign, len(rf)), sample=sample)
        # ---- ABI-2 functions
        for fn, rd in sorted(rs.fns.items()):
            sym = '%s[%s]' % (fn, cfgname)
            loc = 'src/lib.rs:%d' % rd['line']
            nfn += 1
            if fn not in cfn:
                if fn in protos:
                    rep.bad('ABI-2', sym, 'declared in the headers but defined in no unit of the library', loc=loc,
                            key='%s: no definition' % fn)
                else:
                    rep.bad('ABI-2', sym, 'no such function in the library', loc=loc, key='%s: missing' % fn)
                continue
            cf = cfn[fn]
            if cf['internal']:
                rep.bad('ABI-2', sym, 'only an internal (static) definition exists in %s' % cf['unit'], loc=loc,
                        key='%s: internal' % fn)
                continue
            try:
                rsig = ('fn', rustsrc.cls(rs, rd['ret']) if rd['ret'] else 'void',
                        tuple(rustsrc.cls(rs, t) for _, t in rd['params']))
            except rustsrc.RustError as e:
                rep.unk('ABI-2', sym, 'Rust type: %s' % e, loc=loc)
                continue
            csig = cf['sig']
            probs = []
            if rd['variadic']:
                probs.append('variadic Rust declaration')
            if len(csig[2]) != len(rsig[2]):
                probs.append('arity C %d vs Rust %d' % (len(csig[2]), len(rsig[2])))
            else:
                for i, (x, y) in enumerate(zip(csig[2], rsig[2])):
                    r = compat(x, y, mirrored)
                    if r:
                        probs.append('param %d (%s): %s' % (i, rd['params'][i][0], r))
            r = compat(csig[1], rsig[1], mirrored)
            if r:
                probs.append('return: %s' % r)
            # parameter order by name: two names that both occur on the other side at other positions prove a swap
            cn_ = [cname(x or '') for x in cf.get('pnames', [])]
            rn_ = [cname(x[0]) for x in rd['params']]
            if len(cn_) == len(rn_):
                for i in range(len(cn_)):
                    if cn_[i] != rn_[i] and cn_[i] in rn_ and rn_[i] in cn_ and rn_.index(cn_[i]) != i:
                        probs.append('param %d: order differs (C definition names it %s, Rust %s)' % (i, cn_[i], rn_[i]))
                        break
            sample = {'fn': fn, 'config': cfgname, 'c': fmt(csig), 'rust': fmt(rsig), 'unit': cf['unit']}
            if probs:
                rep.bad('ABI-2', sym, '; '.join(probs) + ' [C: %s | Rust: %s]' % (fmt(csig), fmt(rsig)), loc=loc,
                        key='%s: %s' % (fn, probs[0].split(':')[0]), sample=sample)
            else:
                rep.ok('ABI-2', sym, fmt(csig), sample=sample)
        if ctx.tier == 'thorough':
            witness(ctx, rs, cst, cfn, real, feats, cfgname)
    rep.floor('ABI-1', 2 * FLOOR_STRUCTS)
    rep.floor('ABI-2', 2 * FLOOR_FNS)
    fixtures(ctx)


# ---------------------------------------------------------------- thorough: rustc as type-level oracle
CODES = {'void': 0, 'f32': 1, 'f64': 2, 'u8': 3, 'i8': 4, 'u16': 5, 'i16': 6, 'u32': 7, 'i32': 8, 'u64': 9, 'i64': 10,
         'bool': 11, 'ptr': 12, 'fn': 13, 'c8': 3}
PRELUDE = """
#[allow(dead_code, non_camel_case_types, clippy::all)]
pub mod verif_w {
    pub trait MC { const C: u8; const PC: u8 = 255; }
    impl MC for () { const C: u8 = 0; }
    impl MC for f32 { const C: u8 = 1; }
    impl MC for f64 { const C: u8 = 2; }
    impl MC for u8 { const C: u8 = 3; }
    impl MC for i8 { const C: u8 = 4; }
    impl MC for u16 { const C: u8 = 5; }
    impl MC for i16 { const C: u8 = 6; }
    impl MC for u32 { const C: u8 = 7; }
    impl MC for i32 { const C: u8 = 8; }
    impl MC for u64 { const C: u8 = 9; }
    impl MC for i64 { const C: u8 = 10; }
    impl MC for usize { const C: u8 = 9; }
    impl MC for isize { const C: u8 = 10; }
    impl MC for bool { const C: u8 = 11; }
    impl<T: MC> MC for *const T { const C: u8 = 12; const PC: u8 = T::C; }
    impl<T: MC> MC for *mut T { const C: u8 = 12; const PC: u8 = T::C; }
    impl<'a, T: MC> MC for &'a T { const C: u8 = 12; const PC: u8 = T::C; }
    impl<'a, T: MC> MC for &'a mut T { const C: u8 = 12; const PC: u8 = T::C; }
    impl<T: MC, const N: usize> MC for [T; N] { const C: u8 = T::C; }
    impl<R: MC, A: MC, B: MC> MC for extern "C" fn(A, B) -> R { const C: u8 = 13; }
    impl<R: MC, A: MC> MC for extern "C" fn(A) -> R { const C: u8 = 13; }
    pub trait Sig { const P: &'static [(u8, u8)]; const R: (u8, u8); }
    pub const fn params<F: Sig>(_: &F) -> &'static [(u8, u8)] { F::P }
    pub const fn ret<F: Sig>(_: &F) -> (u8, u8) { F::R }
    /// class equality; pointee class 0 (void) on the C side matches anything, 3 (char/u8) matches 3 and 4
    pub const fn same(c: &[(u8, u8)], r: &[(u8, u8)]) -> bool {
        if c.len() != r.len() { return false; }
        let mut i = 0;
        while i < c.len() {
            if !same1(c[i], r[i]) { return false; }
            i += 1;
        }
        true
    }
    pub const fn same1(c: (u8, u8), r: (u8, u8)) -> bool {
        if c.0 != r.0 && !(c.0 == 33 && (r.0 == 3 || r.0 == 4)) { return false; }
        if c.0 == 12 && c.1 != 0 && c.1 != r.1 && !(c.1 == 33 && (r.1 == 3 || r.1 == 4)) { return false; }
        true
    }
__IMPLS__
}
"""


def sig_impls(maxn=12):
    L = []
    for n in range(0, maxn + 1):
        tv = ['A%d' % i for i in range(n)]
        gen = ', '.join(['R: MC'] + ['%s: MC' % t for t in tv])
        L.append('    impl<%s> Sig for unsafe extern "C" fn(%s) -> R { const P: &\'static [(u8, u8)] = &[%s]; const R: (u8, u8) = (R::C, R::PC); }'
                 % (gen, ', '.join(tv), ', '.join('(%s::C, %s::PC)' % (t, t) for t in tv)))
    return '\n'.join(L)


def code(c, structcodes):
    if isinstance(c, str):
        if c == 'c8':
            return (33, 255)
        return (CODES[c], 255)
    if c[0] == 'ptr':
        a = c[1]
        while isinstance(a, tuple) and a[0] == 'array':
            a = a[1]
        if isinstance(a, str):
            pc = 33 if a == 'c8' else CODES[a]
        elif a[0] == 'struct':
            pc = structcodes.get(a[1][2:] if a[1].startswith('a_') else a[1], 0)
        elif a[0] == 'ptr':
            pc = 12
        elif a[0] == 'fn':
            pc = 13
        else:
            pc = 0
        return (12, pc)
    if c[0] == 'fn':
        return (13, 255)
    raise KeyError(c)


def witness(ctx, rs, cst, cfn, real, feats, cfgname):
    """append const assertions carrying the *C* facts to a scratch copy of lib.rs; rustc's type checker and
    const evaluator decide them (nothing of liba is executed: --emit=metadata stops after analysis)"""
    rep = ctx.rep
    if not shutil.which('rustc'):
        rep.unk('ABI-w', cfgname, 'rustc not available')
        return
    scr = ctx.scr
    src = open(os.path.join(irx.REPO, 'src/lib.rs')).read()
    structcodes = {n: 100 + i for i, n in enumerate(sorted(n for n, s in rs.structs.items() if s['repr'] == 'C'))}
    W = []
    idx = []
    k = 0
    for n, c in sorted(cst.items()):
        W.append('const _W%d: () = assert!(core::mem::size_of::<%s>() == %d);' % (k, n, c['size']))
        idx.append(('ABI-1w', '%s[%s]' % (n, cfgname), 'size_of == %d' % c['size'])); k += 1
        W.append('const _W%d: () = assert!(core::mem::align_of::<%s>() == %d);' % (k, n, c['align']))
        idx.append(('ABI-1w', '%s[%s]' % (n, cfgname), 'align_of == %d' % c['align'])); k += 1
        rf = rs.structs[n]['fields']
        for m, f in zip(c['members'], rf):
            W.append('const _W%d: () = assert!(core::mem::offset_of!(%s, %s) == %d);' % (k, n, f[0], m['offset']))
            idx.append(('ABI-1w', '%s.%s[%s]' % (n, f[0], cfgname), 'offset_of == %d' % m['offset'])); k += 1
    simpl = '\n'.join('    impl MC for crate::%s { const C: u8 = %d; }' % (n, cde) for n, cde in sorted(structcodes.items()))
    fnl = {}
    for fn, rd in sorted(rs.fns.items()):
        if fn not in cfn:
            continue
        cs = cfn[fn]['sig']
        try:
            pc = [code(p, structcodes) for p in cs[2]]
            rc = code(cs[1], structcodes)
        except KeyError:
            continue
        ph = ', '.join('_' for _ in cs[2])
        line = ('const _S_%s: () = { let f = %s as unsafe extern "C" fn(%s) -> _; '
                'assert!(crate::verif_w::same(&[%s], crate::verif_w::params(&f))); '
                'assert!(crate::verif_w::same1((%d, %d), crate::verif_w::ret(&f))); };'
                % (fn, fn, ph, ', '.join('(%d, %d)' % p for p in pc), rc[0], rc[1]))
        fnl[fn] = line
    text = src
    root, inmod = [], []
    for fn, line in fnl.items():
        m = re.search(r'\n(\s*)fn %s\s*\(' % re.escape(fn), text)
        indent = m.group(1) if m else ''
        (inmod if len(indent) > 4 else root).append(line)
    if inmod:
        mm = re.search(r'\npub mod mf \{', text)
        if mm:
            i = text.index('{', mm.start())
            d = 0
            j = i
            while j < len(text):
                if text[j] == '{':
                    d += 1
                elif text[j] == '}':
                    d -= 1
                    if d == 0:
                        break
                j += 1
            text = text[:j] + '\n' + '\n'.join('    #[allow(dead_code)] ' + l for l in inmod) + '\n' + text[j:]
        else:
            rep.unk('ABI-w', cfgname, 'module layout of lib.rs changed: cannot place %d witnesses' % len(inmod))
    text += PRELUDE.replace('__IMPLS__', sig_impls() + '\n' + simpl)
    text += '\n'.join('#[allow(dead_code)] ' + w for w in W) + '\n'
    text += '\n'.join('#[allow(dead_code)] ' + l for l in root) + '\n'
    out = scr.path('lib_w%d.rs' % real)
    open(out, 'w').write(text)
    os.makedirs(scr.path('rsout%d' % real), exist_ok=True)
    cmd = ['rustc', '--crate-type=lib', '--emit=metadata', '--edition', '2018', '--crate-name', 'liba', '--cap-lints', 'allow',
           '--error-format=short', '--out-dir', scr.path('rsout%d' % real), '--cfg', 'feature="std"']
    if 'float' in feats:
        cmd += ['--cfg', 'feature="float"']
    cmd.append(out)
    r = subprocess.run(cmd, stdout=subprocess.PIPE, stderr=subprocess.PIPE, text=True, env=dict(os.environ, CARGO_NET_OFFLINE='true'))
    rep.cmds.append(' '.join(cmd))
    failed = {}
    for l in r.stderr.splitlines():
        m = re.match(r'.*lib_w\d\.rs:(\d+):\d+: error(.*)', l)
        if m:
            failed.setdefault(int(m.group(1)), m.group(2))
    tl = text.split('\n')
    seen = 0
    for ln, line in enumerate(tl, 1):
        m = re.search(r'const _W(\d+): \(\) = assert', line)
        if m:
            rule, sym, what = idx[int(m.group(1))]
            seen += 1
            if ln in failed:
                rep.bad(rule, sym, 'rustc refutes witness: %s' % what, key='%s: witness %s' % (sym.split('[')[0], what.split(' ')[0]))
                failed.pop(ln)
            else:
                rep.ok(rule, sym, 'rustc accepts: ' + what, sample=line.strip()[20:])
            continue
        m = re.search(r'const _S_(\w+): \(\) = ', line)
        if m and 'let f =' in line:
            fn = m.group(1)
            sym = '%s[%s]' % (fn, cfgname)
            seen += 1
            if ln in failed:
                rep.bad('ABI-2w', sym, 'rustc refutes signature witness (%s)' % failed[ln].strip()[:120], key='%s: witness' % fn)
                failed.pop(ln)
            else:
                rep.ok('ABI-2w', sym, 'rustc accepts arity and machine classes', sample=line.strip()[20:200])
    if failed:
        rep.unk('ABI-w', cfgname, 'rustc errors outside the witnesses: %s' % ' | '.join('%d:%s' % kv for kv in list(failed.items())[:3]))
    elif r.returncode != 0 and not r.stderr.strip():
        rep.unk('ABI-w', cfgname, 'rustc failed without diagnostics')


# ---------------------------------------------------------------- fixtures (positive controls, DESIGN 1.4)
def fixtures(ctx):
    """the comparison functions must flag seeded mismatches and accept the repaired twins"""
    rep = ctx.rep
    bad = [(('ptr', 'f64'), ('ptr', 'f32')), ('u32', 'u64'), ('i32', 'u32'),
           (('fn', 'f64', ('f64', 'f64')), ('fn', 'f64', ('f64',))), (('struct', 'a_pid'), ('struct', 'tf')),
           (('array', 'f64', 4), ('array', 'f64', 5))]
    good = [(('ptr', 'void'), ('ptr', 'u8')), ('c8', 'u8'), (('struct', 'a_pid'), ('struct', 'pid')),
            (('ptr', ('array', 'c8', 5)), ('ptr', 'u8'))]
    okc = all(compat(a, b, set()) is not None for a, b in bad) and all(compat(a, b, set()) is None for a, b in good)
    # layout algorithm control
    import tempfile
    p = ctx.scr.path('fx.rs')
    open(p, 'w').write('pub type real = f64;\n#[repr(C)] pub struct t { a: u8, b: real, c: [u16; 3], d: *mut t }\n')
    s = rustsrc.Src(p)
    lay = rustsrc.struct_layout(s, 't')
    okl = lay[0] == 32 and lay[1] == 8 and [f[1] for f in lay[2]] == [0, 8, 16, 24]
    if okc and okl:
        rep.ok('FIXTURE', 'abi-compare', 'seeded mismatches flagged, repaired twins accepted')
    else:
        rep.unk('FIXTURE', 'abi-compare', 'positive control failed: compare=%s layout=%s' % (okc, okl))
