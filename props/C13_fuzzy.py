"""C13 rule F5 - scratch-buffer discipline and weighted-mean shape of a_pid_fuzzy_out_ (AFF, lib/scev.py).

The statement tree of a_pid_fuzzy_out_ is derived with the numbers of active sets ne, nec (results of the two
a_pid_fuzzy_mf calls) as symbols; pointer fields of the controller are bases named by their field.  Decided:
  F5a  the two membership calls fill idx/val at [0, ne) and [ne, ne+nec) (second call starts ne elements further)
  F5b  the joint-membership statement writes val[ne+nec + i*nec + ii] = opr(val[i], val[ne+ii]) over the full ne x nec box:
       the written cells lie strictly behind every cell still to be read (no overlap with the two membership vectors), the
       box is covered exactly once and ends at ne + nec + ne*nec <= n(2+n) for ne, nec <= n; idx[i] is scaled by nrule for i < ne
  F5c  the normaliser is the sum of exactly the written cells; each of the three gain accumulations adds
       mat(i,ii) * table[idx[i] + idx[ne+ii]] over the same box reading the same cells (weighted mean of the consequents)
Not decided: finiteness when every joint weight is zero (see DESIGN)."""
import itertools
import sympy as sp
import scev, irx, dwarf, fm
from scev import ld
from symx import Unsupported

AFF_PASSES = 'sroa,mem2reg,instsimplify,simplifycfg,loop-simplify,lcssa'


def walk(tree, loops=(), conds=()):
    """-> [(item, loops, conds)] flattened"""
    out = []
    for t in tree:
        if t[0] == 'loop':
            out += walk(t[3], loops + ((t[1], t[2], t[5]),), conds)
        elif t[0] == 'if':
            out.append((t, loops, conds))
            out += walk(t[2], loops, conds + (t[1],))
            out += walk(t[3], loops, conds + (t[1].neg(),))
        elif t[0] == 'exitif':
            out.append((t, loops, conds))
            out += walk(t[2], loops, conds + (t[1],))
        else:
            out.append((t, loops, conds))
    return out


def run(ctx):
    rep = ctx.rep
    try:
        mod = ctx.module('pid_fuzzy', passes=AFF_PASSES)
    except Exception as e:
        rep.unk('F5', 'a_pid_fuzzy_out_', 'unit not readable: %s' % e)
        return
    fn = mod.functions.get('a_pid_fuzzy_out_')
    if fn is None or fn.error:
        rep.unk('F5', 'a_pid_fuzzy_out_', 'anchor vanished')
        return
    rep.functions.add(fn.name)
    try:
        check(ctx, mod, fn)
        normaliser_guard(ctx, mod, fn)
        gains_on_every_exit(ctx, mod, fn)
    except Unsupported as e:
        rep.unk('F5', fn.name, 'outside the affine fragment: %s' % e, loc=fn.loc(fn.entry.term))
    except fm.NonLinear as e:
        rep.unk('F5', fn.name, 'non-polynomial term: %s' % e, loc=fn.loc(fn.entry.term))


def check(ctx, mod, fn):
    rep = ctx.rep
    a = scev.Aff(fn, lookup=lambda n: mod.functions.get(n))
    tree = a.emit()
    md = dwarf.MD(mod)
    fields = md.flatten('a_pid_fuzzy')
    cx = a.params[fn.params[0][1]]
    # no store to the controller object before the final gain update: pointer fields read at different times are the same pointers
    name_of = {}
    for sy, v in a.ptrdef.items():
        p = sp.expand(v.args[0])
        if cx in p.free_symbols and sp.expand(p - cx).is_Integer:
            name_of[sy] = fields.get(int(sp.expand(p - cx)), 'field@%s' % sp.expand(p - cx))
    items = walk(tree)
    st_ctx = [it for it, lp, cd in items if it[0] == 'store' and it[1] == cx]
    if st_ctx:
        rep.unk('F5', fn.name, 'the controller object is written inside the function: field pointers cannot be identified', loc=st_ctx[0][4])
        return

    def fname(base):
        return name_of.get(base, str(base))

    def canon(e):
        """replace pointer-load symbols by one symbol per field; drop memory-state tags of loads from tables that are never written here"""
        sub = {sy: sp.Symbol('F_' + nm.replace('.', '_'), real=True) for sy, nm in name_of.items()}
        e = e.subs(sub) if isinstance(e, sp.Basic) else e
        return e
    calls = [(it, lp, cd) for it, lp, cd in items if it[0] == 'call' and it[1] == 'a_pid_fuzzy_mf']
    loc = fn.loc(fn.entry.term)
    if len(calls) != 2 or any(lp for _, lp, _ in calls):
        rep.unk('F5', fn.name, 'expected two membership evaluations outside loops, found %d' % len(calls), loc=loc)
        return
    rets = sorted(a.callres.items(), key=lambda kv: fn.blocks.index(fn.defs[kv[0]].block) * 1000 + fn.defs[kv[0]].idx)
    mf_rets = [sy for r, sy in rets if fn.defs[r].x['callee'].v == 'a_pid_fuzzy_mf']
    if len(mf_rets) != 2:
        rep.unk('F5', fn.name, 'results of the membership evaluations not found', loc=loc)
        return
    ne, nec = mf_rets
    idxs, vals = sp.Symbol('F_idx', real=True), sp.Symbol('F_val', real=True)
    # element sizes from the IR types of the two fields are implicit in scev's indices; argument pointers are byte addresses
    (c1, _, _), (c2, _, _) = calls
    A1 = [canon(x) for x in c1[2]]
    A2 = [canon(x) for x in c2[2]]
    real_size = 8 if ctx.cfg else 8
    # ---- F5a
    probs = []
    if sp.expand(A1[3] - idxs) != 0 or sp.expand(A1[4] - vals) != 0:
        probs.append('first membership evaluation does not write at the start of idx/val (%s, %s)' % (A1[3], A1[4]))
    d_idx = sp.expand(A2[3] - idxs)
    d_val = sp.expand(A2[4] - vals)
    usz = sp.Integer(4)
    rsz = None
    if d_idx != sp.expand(usz * ne):
        probs.append('second membership evaluation writes idx at byte offset %s, expected %s (behind the %s active error sets)' % (d_idx, usz * ne, ne))
    q = sp.cancel(d_val / ne) if d_val != 0 else None
    if q is None or not q.is_Integer or int(q) not in (4, 8):
        probs.append('second membership evaluation writes val at byte offset %s, expected sizeof(real) * %s' % (d_val, ne))
    if probs:
        rep.bad('F5a', fn.name, '; '.join(probs), loc=c2[3], key='a_pid_fuzzy_out_: membership layout')
    else:
        rep.ok('F5a', fn.name, 'memberships of e at idx/val[0, ne), of ec at [ne, ne+nec)', sample={'second call': [str(x) for x in A2]})
    # ---- F5b
    stores = [(it, lp, cd) for it, lp, cd in items if it[0] == 'store']
    mat = [(it, lp) for it, lp, cd in stores if fname(it[1]) == 'val']
    ist = [(it, lp) for it, lp, cd in stores if fname(it[1]) == 'idx']
    other = [it for it, lp, cd in stores if fname(it[1]) not in ('val', 'idx')]
    facts = [ne - 1, nec - 1]
    probs = []
    if other:
        probs.append('store to %s[%s]' % (fname(other[0][1]), other[0][2]))
    if len(mat) != 1 or len(mat[0][1]) != 2:
        rep.unk('F5b', fn.name, 'expected one joint-membership statement in a 2-deep nest, found %d' % len(mat), loc=loc)
        return
    (it, lp) = mat[0]
    (i, Ti, _), (ii, Tii, _) = lp
    widx = sp.expand(it[2])
    dom = facts + [i, Ti - 1 - i, ii, Tii - 1 - ii]
    if Ti is None or Tii is None or not a.prove_eq(Ti, ne, facts) or not a.prove_eq(Tii, nec, facts):
        probs.append('joint-membership nest runs %s x %s times, expected %s x %s' % (Ti, Tii, ne, nec))
    base = sp.expand(widx - (i * nec + ii))
    if base.free_symbols & {i, ii}:
        probs.append('joint-membership cells are not laid out row by row: index %s' % widx)
    else:
        # reads of the membership vectors in this statement
        reads = []
        valsrc = it[3]
        # the stored value is the operator's result: the operator call is the preceding item in the same loop body
        opr_calls = [c for c, l2, cd in items if c[0] == 'call' and c[1] is None and len(l2) == 2]
        for c in opr_calls:
            for arg in c[2]:
                if isinstance(arg, sp.Basic):
                    for t in arg.atoms(sp.Function):
                        if t.func == ld and fname(t.args[0]) == 'val':
                            reads.append(sp.expand(t.args[1]))
        if len(opr_calls) != 1 or len(reads) != 2:
            probs.append('joint membership is not one operator call on two membership degrees')
        else:
            want = {sp.expand(i), sp.expand(ne + ii)}
            if set(reads) != want:
                probs.append('operator is applied to val[%s], val[%s]; expected val[i] and val[ne+ii]' % tuple(reads))
            # written cells lie behind every membership cell: base >= ne + nec
            if not a.prove_ge0(base - (ne + nec), facts):
                w = witness(base, ne, nec)
                probs.append('the joint-membership matrix starts at val[%s], inside the membership vectors val[0, ne+nec)%s: a degree is overwritten before it is read' % (base, w))
            elif not a.prove_eq(base, ne + nec, facts):
                probs.append('the joint-membership matrix starts at val[%s] instead of val[ne+nec]: with ne = nec = n it ends behind the n(2+n) reals of the buffer' % base)
    # the row offset idx[i] * nrule into the gain tables is formed either once, in place (idx[i] *= nrule), or where the tables are
    # read; F5c accepts the index form that goes with what is found here
    scaled = len(ist) == 1
    nrule_off = [k_ for k_, v_ in fields.items() if v_ == 'nrule']
    if len(ist) == 0:
        pass
    elif len(ist) != 1 or len(ist[0][1]) != 1:
        probs.append('expected one scaling statement for idx, found %d' % len(ist))
    else:
        (s2, l2) = ist[0]
        (j, Tj, _), = l2
        nr = [t for t in s2[3].atoms(sp.Function) if t.func == ld and t.args[0] == cx] if isinstance(s2[3], sp.Basic) else []
        own = [t for t in s2[3].atoms(sp.Function) if t.func == ld and fname(t.args[0]) == 'idx'] if isinstance(s2[3], sp.Basic) else []
        if sp.expand(s2[2] - j) != 0 or not a.prove_eq(Tj, ne, facts) or len(own) != 1 or sp.expand(own[0].args[1] - j) != 0 or len(nr) != 1 \
                or sp.expand(s2[3] - nr[0] * own[0]) != 0:
            probs.append('idx[%s] = %s over %s steps is not idx[i] *= nrule for i < ne' % (s2[2], s2[3], Tj))
    if probs:
        rep.bad('F5b', fn.name, '; '.join(probs[:3]), loc=it[4], key='a_pid_fuzzy_out_: joint membership layout')
    else:
        rep.ok('F5b', fn.name, 'val[ne+nec + i*nec + ii] = opr(val[i], val[ne+ii]) over i < ne, ii < nec; written cells behind all cells still read; extent ne+nec+ne*nec',
               sample={'index': str(widx), 'box': [str(Ti), str(Tii)]})
    # ---- F5c folds
    guards = {}     # loop header name -> conditions of the enclosing ifs
    def collect(tree_, conds_):
        for t in tree_:
            if t[0] == 'loop':
                guards[t[5].header.name] = conds_
                collect(t[3], conds_)
            elif t[0] == 'if':
                collect(t[2], conds_ + (t[1],))
                collect(t[3], conds_ + (t[1].neg(),))
            elif t[0] == 'exitif':
                collect(t[2], conds_ + (t[1],))
    collect(tree, ())
    probs = []
    nfold = 0
    tables = set()
    for k, (l, init, nxt, P) in a.folds.items():
        nx = canon(a.resolve(nxt, l))
        if not isinstance(nx, sp.Basic):
            continue
        inc = sp.expand(nx - k)
        if inc == 0 or k in inc.free_symbols:
            continue
        chain = a.chain(l)
        if len(chain) != 2:
            continue
        ci, cii = chain[1].counter, chain[0].counter
        lds = [t for t in inc.atoms(sp.Function) if t.func == ld]
        m = [t for t in lds if str(t.args[0]) == 'F_val']
        if len(m) != 1:
            continue
        nfold += 1
        cell = sp.expand(m[0].args[1])
        want = sp.expand(widx.subs({i: ci, ii: cii}, simultaneous=True))
        Tn = [a.resolve(x.T, x.parent) for x in (chain[1], chain[0])]
        if not (a.prove_eq(Tn[0], ne, facts) and a.prove_eq(Tn[1], nec, facts)):
            probs.append('accumulation %s runs over %s x %s, expected ne x nec' % (k, Tn[0], Tn[1]))
        if sp.expand(cell - want) != 0:
            probs.append('accumulation %s reads val[%s], the joint membership of (i, ii) was written to val[%s]' % (k, cell, want))
        rest = sp.cancel(inc / m[0])
        if rest == 1:
            tables.add('sum')
            continue
        if rest.func != ld:
            probs.append('accumulation %s adds %s' % (k, inc))
            continue
        tb = str(rest.args[0]).replace('F_', '')
        tables.add(tb)
        # the accumulation over an optional table runs exactly when that table is present
        gs = [canon(sp.sympify(c_.a) - sp.sympify(c_.b)) for c_ in guards.get(chain[1].header.name, ()) if c_.pred == 'ne']
        tabs = [str(g_).replace('F_', '') for g_ in gs if isinstance(g_, sp.Basic) and g_.is_Symbol and str(g_).startswith('F_mk')]
        if tabs != [tb]:
            probs.append('the accumulation over %s is guarded by the presence of %s' % (tb, tabs or 'nothing'))
        tix = sp.expand(rest.args[1])
        parts = [t for t in tix.atoms(sp.Function) if t.func == ld and str(t.args[0]) == 'F_idx']
        got = set(sp.expand(t.args[1]) for t in parts)
        if scaled:
            okx = sp.expand(tix - sum(parts)) == 0 and got == {sp.expand(ci), sp.expand(ne + cii)}
        else:
            # unscaled rows: idx[i] * nrule + idx[ne+ii] with nrule read from the controller
            row = [t for t in parts if sp.expand(t.args[1] - ci) == 0]
            col = [t for t in parts if sp.expand(t.args[1] - (ne + cii)) == 0]
            okx = False
            if len(row) == 1 and len(col) == 1 and len(parts) == 2:
                restx = sp.expand(tix - col[0])
                q_ = sp.cancel(restx / row[0])
                okx = q_.func == ld and q_.args[0] == cx and (not nrule_off or sp.expand(q_.args[1] * 4) in [sp.Integer(o_) for o_ in nrule_off] or sp.expand(q_.args[1]) in [sp.Integer(o_) for o_ in nrule_off])
        if not okx:
            probs.append('gain table %s is indexed with %s, expected %s' % (tb, tix, 'idx[i] + idx[ne+ii]' if scaled else 'idx[i] * nrule + idx[ne+ii]'))
    if nfold < 4 or not {'sum', 'mkp', 'mki', 'mkd'} <= tables:
        rep.unk('F5c', fn.name, 'expected the normaliser and three gain accumulations, recognised %s' % sorted(tables), loc=loc)
    elif probs:
        rep.bad('F5c', fn.name, '; '.join(probs[:3]), loc=loc, key='a_pid_fuzzy_out_: weighted mean')
    else:
        rep.ok('F5c', fn.name, 'normaliser = sum of the written cells; kp/ki/kd accumulate mat(i,ii) * table[idx[i] + idx[ne+ii]] over the same box',
               sample={'tables': sorted(tables)})


def witness(base, ne, nec):
    """small active-set counts for which the matrix start lies inside the membership vectors"""
    for a_, b_ in itertools.product(range(1, 4), repeat=2):
        v = base.subs({ne: a_, nec: b_})
        if v.is_number and v < a_ + b_:
            return ' (e.g. ne=%d, nec=%d: first cell val[%s] < %d)' % (a_, b_, v, a_ + b_)
    return ''


def normaliser_guard(ctx, mod, fn):
    """F5d: the reciprocal of the sum of joint memberships is taken only behind a test that the sum is positive.
    Why it is necessary: for the bounded product max(a+b-1, 0) (an operator the scheduler offers, rule F3) every joint
    membership of two active sets can be 0 (degrees 1/2 and 1/2), so the sum can vanish although sets are active; 1/0 then
    turns every gain into NaN."""
    rep = ctx.rep
    divs = []
    for i in fn.instrs():
        if i.op == 'fdiv' and i.ops[0].k == 'fp' and float(i.ops[0].v) == 1.0 and i.ops[1].k == 'reg':
            divs.append(i)
    if not divs:
        rep.unk('F5d', fn.name, 'no reciprocal 1/sum found')
        return
    for d in divs:
        den = d.ops[1]
        guarded = False
        for b in fn.blocks:
            t = b.term
            if t.op != 'br' or len(t.x['labels']) != 2 or t.ops[0].k != 'reg' or not fn.dominates(b, d.block) or b is d.block:
                continue
            c = fn.defs.get(t.ops[0].v)
            neg = False
            while c is not None and c.op == 'xor' and c.ops[1].k == 'int':
                neg = not neg
                c = fn.defs.get(c.ops[0].v) if c.ops[0].k == 'reg' else None
            if c is None or c.op != 'fcmp':
                continue
            x, y = c.ops
            pred = c.x['pred']
            zero = lambda v: v.k == 'fp' and float(v.v) == 0.0
            same = lambda v: v.k == 'reg' and (v.v == den.v or same_value(fn, v, den))
            pos = None
            if same(x) and zero(y) and pred in ('ogt', 'one', 'ugt', 'une'):
                pos = True
            elif same(y) and zero(x) and pred in ('olt', 'one', 'ult', 'une'):
                pos = True
            elif same(x) and zero(y) and pred in ('ole', 'oeq', 'ule', 'ueq'):
                pos = False
            elif same(y) and zero(x) and pred in ('oge', 'oeq', 'uge', 'ueq'):
                pos = False
            if pos is None:
                continue
            if neg:
                pos = not pos
            t_, f_ = [fn.bmap[l] for l in t.x['labels']]
            good, bad_ = (t_, f_) if pos else (f_, t_)
            if (good is d.block or fn.dominates(good, d.block)) and not fn.reachable(bad_, d.block, avoid=(b,)):
                guarded = True
        if guarded:
            rep.ok('F5d', fn.name, 'the normaliser 1/sum is computed only behind a test that the sum of joint memberships is positive', loc=fn.loc(d))
        else:
            rep.bad('F5d', fn.name, 'the reciprocal of the sum of joint memberships is taken without testing the sum: with the bounded product max(a+b-1,0) and '
                    'degrees 1/2, 1/2 in both inputs every joint membership is 0, the sum is 0 and kp, ki, kd become NaN', loc=fn.loc(d),
                    key='a_pid_fuzzy_out_: zero normaliser', witness='opr = A_PID_FUZZY_CAP_BOUNDED, three triangular sets on [-1,1], e = ec = 0.5')


def gains_on_every_exit(ctx, mod, fn):
    """F5e: whichever way the scheduler is left - no error set active, no error-change set active, vanishing sum of joint memberships or the
    full computation - the controller receives base gain + offset for all three gains, the offset being 0 on the early ways out.  Otherwise
    the gains of the previous step stay in force when an input leaves the universe of discourse."""
    import stale
    import effects
    rep = ctx.rep
    calls = [i for i in fn.instrs() if i.op == 'call' and effects.callee_name(i) == 'a_pid_set_kpid']
    rets = [b for b in fn.blocks if b.term.op == 'ret']
    loc = fn.loc(fn.entry.term)
    if len(calls) != 1:
        rep.unk('F5e', fn.name, 'expected one call of a_pid_set_kpid, found %d' % len(calls), loc=loc)
        return
    c = calls[0]
    loc = fn.loc(c)
    probs = []
    for rb in rets:
        if not (rb is c.block or fn.dominates(c.block, rb)):
            probs.append('a return (%s) is reached without the gains being handed to the controller: the gains of the previous step stay in force' % fn.loc(rb.term))
    # arguments: base field + offset, offset 0 on the early ways out
    for k, fname in enumerate(('kp', 'ki', 'kd')):
        try:
            fidx = stale.field_index(mod, 'a_pid_fuzzy', fname)
        except Exception:
            fidx = None
        a = c.ops[1 + k] if len(c.ops) > 1 + k else None
        d = fn.defs.get(a.v) if a is not None and a.k == 'reg' else None
        if d is None or d.op != 'fadd':
            probs.append('%s handed to the controller is not base + offset' % fname)
            continue
        base_ok, off = False, None
        for o, other in ((d.ops[0], d.ops[1]), (d.ops[1], d.ops[0])):
            ld = fn.defs.get(o.v) if o.k == 'reg' else None
            g = fn.defs.get(ld.ops[0].v) if ld is not None and ld.op == 'load' and ld.ops[0].k == 'reg' else None
            if g is not None and g.op == 'gep' and len(g.ops) == 3 and g.ops[2].k == 'int' and (fidx is None or g.ops[2].v == fidx):
                base_ok, off = True, other
        if not base_ok:
            probs.append('%s handed to the controller does not start from the base gain ctx->%s' % (fname, fname))
            continue
        od = fn.defs.get(off.v) if off.k == 'reg' else None
        if od is not None and od.op == 'phi':
            consts = [o for o in od.ops if o.k == 'fp']
            if any(float(o.v) != 0.0 for o in consts):
                probs.append('the %s offset on an early way out is %s, expected 0' % (fname, [float(o.v) for o in consts]))
            if not consts:
                probs.append('the %s offset has no zero value for the early ways out' % fname)
    if probs:
        rep.bad('F5e', fn.name, '; '.join(sorted(set(probs))[:2]), loc=loc, key='a_pid_fuzzy_out_: gains on every exit')
    else:
        rep.ok('F5e', fn.name, 'every return is behind a_pid_set_kpid(&pid, kp + dkp, ki + dki, kd + dkd) with offsets 0 on the early ways out (%d returns)' % len(rets), loc=loc)


def same_value(fn, a, b, depth=0):
    """a and b denote the same value through single-incoming (lcssa) phis"""
    if depth > 6:
        return False
    for u, v in ((a, b), (b, a)):
        d = fn.defs.get(u.v)
        if d is not None and d.op == 'phi' and len(d.ops) == 1 and d.ops[0].k == 'reg':
            if d.ops[0].v == v.v or same_value(fn, d.ops[0], v, depth + 1):
                return True
    return False
