"""C06 rule K2 - contents of the string against the abstract byte string on the loop-free paths (symbolic index query, see
props/C04_content.py): appends put exactly the given byte / block behind the old content, removals cut exactly the tail and hand
out exactly the bytes removed."""
import sympy as sp
import fm, lin
from lin import Effect
from symx import Ptr, Unsupported
from props.C04_content import origins, eq_entailed, con, feasible, wit, K

S = lambda n: sp.Symbol(n, integer=True, nonnegative=True)


def ops_of(lf):
    """effects on the character buffer in program order: ('copy', dst, ('st'|'ext', src), n) / ('put', pos, value, 1); plus copies out"""
    ops, outs = [], []
    es = [e for e in lf.calls if isinstance(e, Effect)]
    i = 0
    while i < len(es):
        e = es[i]
        if e.kind == 'store' and e.base == '*ptr_':
            ops.append(('put', sp.sympify(e.off), ('val', getattr(e, 'value', None)), sp.Integer(1)))
            i += 1
            continue
        if e.name in ('a_copy', 'a_move', 'memcpy', 'memmove') and i + 1 < len(es) and es[i + 1].ins is e.ins:
            f = es[i + 1]
            i += 2
            if e.base == '*ptr_':
                src = ('st', sp.sympify(f.off)) if f.base == '*ptr_' else ('ext', (f.base, sp.sympify(f.off)))
                ops.append(('copy', sp.sympify(e.off), src if src[0] == 'st' else ('ext', sp.sympify(f.off)), sp.sympify(e.size)))
                if src[0] == 'ext':
                    ops[-1] = ops[-1] + (f.base,)
            elif f.base == '*ptr_':
                outs.append((e.base, sp.sympify(e.off), sp.sympify(f.off), sp.sympify(e.size)))
            continue
        i += 1
    return ops, outs


def char_of_arg(dom, v):
    """v is (char)c for the int parameter c"""
    import llir
    c = sp.Symbol('arg_c', integer=True)
    try:
        want = dom.cast('trunc', c, llir.I(32), llir.I(8))
        return sp.expand(sp.sympify(v) - sp.sympify(want)) == 0
    except Exception:
        return str(v) == str(c)


def spec_for(name):
    if not name.startswith('a_str_'):
        return None
    n0 = S('num_')
    nb = S('arg_nbyte')
    L = fm.le
    same = dict(final=n0, pieces=[([], ('old', K))], out=None)
    base = name[len('a_str_'):]
    term = not base.endswith('_')
    b = base.rstrip('_')
    if b == 'catc':
        return lambda st: [([], dict(final=n0 + 1, pieces=[([L(K, n0 - 1)], ('old', K)), ([L(n0, K)], ('val', 'arg_c'))], out=None))] if st == 'ok' else [([], same)]
    if b == 'catn':
        return lambda st: [([], dict(final=n0 + nb, pieces=[([L(K, n0 - 1)], ('old', K)), ([L(n0, K)], ('ext', K - n0))], out=None))] if st == 'ok' else [([], same)]
    if b == 'getn':
        def g(st):
            out = []
            for cs, c in (([L(nb, n0)], nb), ([L(n0 + 1, nb)], n0)):
                out.append((cs, dict(final=n0 - c, pieces=[([], ('old', K))], out=(n0 - c, c))))
            return out
        return g
    if b == 'getc':
        return lambda st: [([L(1, n0)], dict(final=n0 - 1, pieces=[([], ('old', K))], out=None)), ([L(n0, 0)], same)]
    return None


def status_of(lf, dom, name):
    r = lf.ret
    b = name[len('a_str_'):].rstrip('_')
    if b in ('getn', 'getc'):
        return 'ok'
    if b == 'catc':
        c = dom.concrete(r) if r is not None else None
        return 'fail' if c is not None and (c & 0xFFFFFFFF) == 0xFFFFFFFF else 'ok'
    c = dom.concrete(r) if r is not None else None
    if c is not None:
        return 'ok' if c == 0 else 'fail'
    return None


def check(fn, name, dom, leaves, facts0, off, rep):
    spec = spec_for(name)
    if spec is None:
        return
    loc = fn.loc(fn.entry.instrs[0])
    probs, unk = [], []
    nq = 0
    for lf in leaves:
        st = status_of(lf, dom, name)
        if st is None:
            unk.append('status of a path is not definite (%s)' % (lf.ret,))
            continue
        ops, outs = ops_of(lf)
        k_ = ('ctx', off['num_'])
        fin = sp.sympify(lf.store[k_][0]) if k_ in lf.store else S('num_')
        try:
            cases = lin.cases_of(dom, lf, facts0)
        except Unsupported as e:
            unk.append(str(e))
            continue
        for cs in cases:
            kenv = cs.kenv
            for sconds, sp_ in spec(st):
                cons = cs.cons + [con(c, kenv) for c in sconds]
                if not feasible(cons):
                    continue
                nq += 1
                if not eq_entailed(cons, fin, sp_['final'], kenv):
                    probs.append(('length', 'length becomes %s, the abstract string has %s bytes' % (fin, sp_['final'])))
                    continue
                for pconds, want in sp_['pieces']:
                    c2 = cons + [con(fm.le(0, K), kenv), con(fm.le(K, sp_['final'] - 1), kenv)] + [con(c, kenv) for c in pconds]
                    if not feasible(c2):
                        continue
                    opsx = [o[:4] for o in ops]
                    for c3, got in origins(K, opsx, c2, kenv):
                        nq += 1
                        if want[0] == 'val':
                            okv = got[0] == 'val' and got[1] is not None and char_of_arg(dom, got[1])
                            if not okv:
                                probs.append(('content', 'byte pos of the result is %s[%s], expected the appended character' % (got[0], got[1])))
                        elif got[0] != want[0] or not eq_entailed(c3, got[1], want[1], kenv):
                            probs.append(('content', 'byte pos of the result is %s[%s], the abstract string has %s[%s] there' % (got[0], got[1], want[0], want[1])))
                if sp_['out'] is not None:
                    start, length = sp_['out']
                    for (obase, ooff, soff, size) in outs:
                        nq += 1
                        if not (eq_entailed(cons, soff, start, kenv) and eq_entailed(cons, size, length, kenv) and sp.expand(ooff) == 0):
                            probs.append(('output', 'copies out %s bytes from position %s to %s+%s, expected the %s removed bytes from position %s' % (size, soff, obase, ooff, length, start)))
    if probs:
        seen = set()
        for kind, msg in probs:
            if kind not in seen:
                seen.add(kind)
                rep.bad('K2', '%s{%s}' % (name, kind), msg, loc=loc, key='%s: %s against the abstract string' % (name, kind))
    elif unk:
        rep.unk('K2', name, '; '.join(sorted(set(unk))[:2])[:300], loc=loc)
    else:
        rep.ok('K2', name, 'length, origin of every byte of the result and the bytes handed out agree with the abstract string operation (%d symbolic queries)' % nq, loc=loc)
