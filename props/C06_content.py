"""C06 rule K2 - contents of the string against the abstract byte string on the loop-free paths (symbolic index query, see
props/C04_content.py): appends put exactly the given byte / block behind the old content, removals cut exactly the tail and hand
out exactly the bytes removed."""
import sympy as sp
import fm, lin, alg
from lin import Effect
from symx import Ptr, Unsupported
from props.C04_content import origins, eq_entailed, con, feasible, wit, K

S = lambda n: sp.Symbol(n, integer=True, nonnegative=True)


def ops_of(lf):
    """effects on the character buffer in program order: ('copy', dst, ('st'|'ext', src), n) / ('put', pos, value, 1); plus copies out"""
    ops, outs = [], []
    es = [e for e in lf.calls if isinstance(e, Effect)]
    i = 0
    while i < len(es):
        e = es[i]
        if e.kind == 'store' and e.base == '*ptr_':
            ops.append(('put', sp.sympify(e.off), ('val', getattr(e, 'value', None)), sp.Integer(1)))
            i += 1
            continue
        if e.name in ('a_copy', 'a_move', 'memcpy', 'memmove') and i + 1 < len(es) and es[i + 1].ins is e.ins:
            f = es[i + 1]
            i += 2
            if e.base == '*ptr_':
                src = ('st', sp.sympify(f.off)) if f.base == '*ptr_' else ('ext', (f.base, sp.sympify(f.off)))
                ops.append(('copy', sp.sympify(e.off), src if src[0] == 'st' else ('ext', sp.sympify(f.off)), sp.sympify(e.size)))
                if src[0] == 'ext':
                    ops[-1] = ops[-1] + (f.base,)
            elif f.base == '*ptr_':
                outs.append((e.base, sp.sympify(e.off), sp.sympify(f.off), sp.sympify(e.size)))
            continue
        i += 1
    return ops, outs


def char_of_arg(dom, v):
    """v is (char)c for the int parameter c"""
    import llir
    c = sp.Symbol('arg_c', integer=True)
    try:
        want = dom.cast('trunc', c, llir.I(32), llir.I(8))
        return sp.expand(sp.sympify(v) - sp.sympify(want)) == 0
    except Exception:
        return str(v) == str(c)


def spec_for(name):
    if not name.startswith('a_str_'):
        return None
    n0 = S('num_')
    nb = S('arg_nbyte')
    L = fm.le
    same = dict(final=n0, pieces=[([], ('old', K))], out=None)
    base = name[len('a_str_'):]
    term = not base.endswith('_')
    b = base.rstrip('_')
    if b == 'catc':
        return lambda st: [([], dict(final=n0 + 1, pieces=[([L(K, n0 - 1)], ('old', K)), ([L(n0, K)], ('val', 'arg_c'))], out=None))] if st == 'ok' else [([], same)]
    if b == 'catn':
        return lambda st: [([], dict(final=n0 + nb, pieces=[([L(K, n0 - 1)], ('old', K)), ([L(n0, K)], ('ext', K - n0))], out=None))] if st == 'ok' else [([], same)]
    if b == 'cat':
        ob = S('obj[8]')
        return lambda st: [([], dict(final=n0 + ob, pieces=[([L(K, n0 - 1)], ('old', K)), ([L(n0, K)], ('ext', K - n0))], out=None, src=('*obj[0]', None)))] if st == 'ok' else [([], same)]
    if b == 'cats':
        return lambda st: [([], dict(final=('strlen', 'src1'), pieces=[([L(K, n0 - 1)], ('old', K)), ([L(n0, K)], ('ext', K - n0))], out=None, src=('src1', None)))] if st == 'ok' else [([], same)]
    if b in ('rtrim', 'ltrim', 'trim'):
        # the result is a contiguous piece of the old content: final <= old length, position pos holds old[pos + s] for the shift s the code uses
        return lambda st: [([], dict(final='substring', pieces=None, out=None))]
    if b == 'getn':
        def g(st):
            out = []
            for cs, c in (([L(nb, n0)], nb), ([L(n0 + 1, nb)], n0)):
                out.append((cs, dict(final=n0 - c, pieces=[([], ('old', K))], out=(n0 - c, c))))
            return out
        return g
    if b == 'getc':
        return lambda st: [([L(1, n0)], dict(final=n0 - 1, pieces=[([], ('old', K))], out=None)), ([L(n0, 0)], same)]
    return None


def status_of(lf, dom, name):
    r = lf.ret
    b = name[len('a_str_'):].rstrip('_')
    if b in ('getn', 'getc', 'rtrim', 'ltrim', 'trim'):
        return 'ok'
    if b == 'catc':
        c = dom.concrete(r) if r is not None else None
        return 'fail' if c is not None and (c & 0xFFFFFFFF) == 0xFFFFFFFF else 'ok'
    c = dom.concrete(r) if r is not None else None
    if c is not None:
        return 'ok' if c == 0 else 'fail'
    return None


def check(fn, name, dom, leaves, facts0, off, rep):
    spec = spec_for(name)
    if spec is None:
        return
    loc = fn.loc(fn.entry.instrs[0])
    probs, unk = [], []
    nq = 0
    for lf in leaves:
        st = status_of(lf, dom, name)
        if st is None:
            unk.append('status of a path is not definite (%s)' % (lf.ret,))
            continue
        ops, outs = ops_of(lf)
        k_ = ('ctx', off['num_'])
        fin = sp.sympify(lf.store[k_][0]) if k_ in lf.store else S('num_')
        try:
            cases = lin.cases_of(dom, lf, facts0)
        except Unsupported as e:
            unk.append(str(e))
            continue
        for cs in cases:
            kenv = cs.kenv
            for sconds, sp_ in spec(st):
                cons = cs.cons + [con(c, kenv) for c in sconds]
                if not feasible(cons):
                    continue
                nq += 1
                if sp_['final'] == 'substring':
                    copies = [o for o in ops if o[0] == 'copy']
                    if len(copies) > 1 or any(o[2][0] != 'st' or sp.expand(o[1]) != 0 for o in copies):
                        probs.append(('content', 'the content is rearranged by %s, expected at most one move of the kept bytes to the front' % (copies,)))
                        continue
                    shift = sp.sympify(copies[0][2][1]) if copies else sp.Integer(0)
                    ok_len = True
                    for goal in (fm.le(0, shift), fm.le(shift + fin, S('num_'))):
                        try:
                            if not fm.entails(cons, con(goal, kenv)):
                                ok_len = False
                        except fm.NonLinear:
                            ok_len = False
                    if not ok_len:
                        probs.append(('length', 'the kept piece [%s, %s + %s) is not inside the old content of %s bytes' % (shift, shift, fin, S('num_'))))
                        continue
                    if copies and not eq_entailed(cons, copies[0][3], fin, kenv):
                        probs.append(('content', 'the move brings %s bytes to the front, the new length is %s' % (copies[0][3], fin)))
                        continue
                    c2 = cons + [con(fm.le(0, K), kenv), con(fm.le(K, fin - 1), kenv)]
                    if feasible(c2):
                        for c3, got in origins(K, [o[:4] for o in ops], c2, kenv):
                            nq += 1
                            if got[0] != 'old' or not eq_entailed(c3, got[1], K + shift, kenv):
                                probs.append(('content', 'byte pos of the result is %s[%s], expected old[pos + %s]' % (got[0], got[1], shift)))
                    continue
                want_final = sp_['final']
                # a path on which the source block / string pointer is null is outside the property (it talks about byte blocks, C
                # strings and source strings with content that exist)
                if any(isinstance(c_, alg.Cond) and (str(c_.a) in ('&src', '&src1') or str(c_.a).startswith('&*obj')) and c_.rel() == '==' and c_.b == 0 for c_ in lf.pc):
                    continue
                if isinstance(want_final, tuple) and want_final[0] == 'strlen':
                    # a path on which the string argument is a null pointer is outside what the property talks about (a C string is a
                    # valid pointer); how the library treats it - crash, or like "" - is its own business
                    if any(isinstance(c_, alg.Cond) and str(c_.a) == '&' + want_final[1] and c_.rel() == '==' and c_.b == 0 for c_ in lf.pc):
                        continue
                    # the length appended is strlen of the string argument
                    lens = [n_ for n_, a_ in getattr(dom, 'strlen_of', {}).items() if isinstance(a_, Ptr) and a_.base == want_final[1] and sp.expand(a_.off) == 0]
                    if len(lens) != 1:
                        probs.append(('length', 'the length of the C string argument is not taken with strlen(str) (%s)' % (getattr(dom, 'strlen_of', {}),)))
                        continue
                    want_final = S('num_') + lens[0]
                if not eq_entailed(cons, fin, want_final, kenv):
                    probs.append(('length', 'length becomes %s, the abstract string has %s bytes' % (fin, want_final)))
                    continue
                if sp_.get('src') is not None:
                    for o in ops:
                        if o[0] == 'copy' and o[2][0] == 'ext' and (len(o) < 5 or o[4] != sp_['src'][0]):
                            probs.append(('content', 'the appended bytes come from %s, expected from %s' % (o[4] if len(o) > 4 else '?', sp_['src'][0])))
                sp_ = dict(sp_, final=want_final)
                for pconds, want in sp_['pieces']:
                    c2 = cons + [con(fm.le(0, K), kenv), con(fm.le(K, sp_['final'] - 1), kenv)] + [con(c, kenv) for c in pconds]
                    if not feasible(c2):
                        continue
                    opsx = [o[:4] for o in ops]
                    for c3, got in origins(K, opsx, c2, kenv):
                        nq += 1
                        if want[0] == 'val':
                            okv = got[0] == 'val' and got[1] is not None and char_of_arg(dom, got[1])
                            if not okv:
                                probs.append(('content', 'byte pos of the result is %s[%s], expected the appended character' % (got[0], got[1])))
                        elif got[0] != want[0] or not eq_entailed(c3, got[1], want[1], kenv):
                            probs.append(('content', 'byte pos of the result is %s[%s], the abstract string has %s[%s] there' % (got[0], got[1], want[0], want[1])))
                if sp_['out'] is not None:
                    start, length = sp_['out']
                    for (obase, ooff, soff, size) in outs:
                        nq += 1
                        if not (eq_entailed(cons, soff, start, kenv) and eq_entailed(cons, size, length, kenv) and sp.expand(ooff) == 0):
                            probs.append(('output', 'copies out %s bytes from position %s to %s+%s, expected the %s removed bytes from position %s' % (size, soff, obase, ooff, length, start)))
    if probs:
        seen = set()
        for kind, msg in probs:
            if kind not in seen:
                seen.add(kind)
                rep.bad('K2', '%s{%s}' % (name, kind), msg, loc=loc, key='%s: %s against the abstract string' % (name, kind))
    elif unk:
        rep.unk('K2', name, '; '.join(sorted(set(unk))[:2])[:300], loc=loc)
    else:
        rep.ok('K2', name, 'length, origin of every byte of the result and the bytes handed out agree with the abstract string operation (%d symbolic queries)' % nq, loc=loc)


# ---------------------------------------------------------------- K3: one arbitrary iteration of the trim loops
def _membership(dom, c):
    """path condition c is a membership test of a content byte: -> (position of the byte, True when the byte is IN the set, kind, test arguments) or None"""
    if not isinstance(c, alg.Cond):
        return None
    loaded = getattr(dom, 'loaded', {})
    a, b = sp.sympify(c.a), sp.sympify(c.b)
    if b != 0 or c.rel() not in ('==', '!='):
        return None
    nonzero = c.rel() == '!='
    name = str(a)
    if a.is_Symbol and name.startswith('&memchr'):
        args = getattr(dom, 'memchr_args', {}).get(name[1:])
        if args is None:
            return None
        byte = sp.sympify(args[1])
        if byte not in loaded or loaded[byte][0] != '*ptr_':
            raise Unsupported('memchr is not applied to a byte of the content (%s)' % (byte,))
        return (sp.sympify(loaded[byte][1]), nonzero, 'memchr', (args[0], args[2]))
    fs = [f for f in a.atoms(sp.Function) if f.func.__name__ == 'i_and']
    if fs and a == fs[0]:
        tab = [x for x in fs[0].args if x in loaded and str(loaded[x][0]).startswith('*ctype_loc')]
        if not tab:
            return None
        idx2 = sp.sympify(loaded[tab[0]][1])          # 2 * byte (table of 16-bit entries)
        byte = sp.expand(idx2 / 2)
        if byte not in loaded or loaded[byte][0] != '*ptr_':
            inner = [x for x in sp.sympify(byte).free_symbols if x in loaded and loaded[x][0] == '*ptr_']
            if inner:
                # a function of a content byte (masked, shifted ...): other byte values are then classified like that one
                return (sp.sympify(loaded[inner[0]][1]), nonzero, 'isspace-of', byte)
            raise Unsupported('the character class test is not applied to a byte of the content (%s)' % (byte,))
        return (sp.sympify(loaded[byte][1]), nonzero, 'isspace', None)
    return None


def trim_steps(fn, name, dom, leaves, loop_leaves, off, rep):
    """rtrim: while the string is not empty and its LAST byte (position length - 1) is in the set, the length drops by exactly one;
    ltrim: while the cursor i is inside the string and the byte AT i is in the set, the cursor advances by exactly one - both with the
    caller-supplied set (s, n) resp. the space class when n is 0.  Together with K2 (the kept piece is old[shift, shift + length)) this makes
    the result the old content without the maximal run of set bytes at that end."""
    loc = fn.loc(fn.entry.instrs[0])
    right = 'rtrim' in name
    numk = ('ctx', off['num_'])
    probs, n = [], 0
    SW = dom.strip_wrap
    for lf in loop_leaves:
        if len([m for m in (_membership(dom, c) for c in lf.pc) if m is not None]) >= 2:
            raise Unsupported('a pass of the trim loop tests several bytes (unrolled?): outside the one-byte-per-pass template')
    for lf in loop_leaves:
        n += 1
        tests = [m for m in (_membership(dom, c) for c in lf.pc) if m is not None]
        if len(tests) != 1 or not tests[0][1]:
            probs.append('an iteration continues after %d membership tests (%s)' % (len(tests), lf.pc))
            continue
        pos, _, kind, targs = tests[0]
        if kind == 'isspace-of':
            probs.append('the space class is tested on %s, not on the byte itself: other byte values are trimmed like the ones they are mapped to' % (targs,))
        if kind == 'memchr':
            sset, cnt = targs
            if not (isinstance(sset, Ptr) and sset.base == 'src1' and sp.expand(sset.off) == 0 and sp.sympify(cnt) == sp.Symbol('arg_n', integer=True, nonnegative=True)):
                probs.append('the set searched is (%s, %s), expected the arguments (s, n)' % (sset, cnt))
        if right:
            # length at the head of the iteration: the value tested against 0
            Ls = [sp.sympify(c.a) for c in lf.pc if isinstance(c, alg.Cond) and c.rel() == '!=' and sp.sympify(c.b) == 0 and _membership(dom, c) is None
                  and not str(c.a).startswith(('arg_', '&'))]
            if len(Ls) != 1:
                probs.append('no test "length != 0" in front of the byte test (%s)' % (lf.pc,))
                continue
            Lh = SW(Ls[0])
            if sp.expand(SW(pos) - (Lh - 1)) != 0:
                probs.append('the byte tested is at position %s, expected the last one (%s)' % (pos, sp.expand(Lh - 1)))
            nv = lf.store.get(numk)
            if nv is None or sp.expand(SW(nv[0]) - (Lh - 1)) != 0:
                probs.append('the length becomes %s, expected %s' % (nv[0] if nv else 'unchanged', sp.expand(Lh - 1)))
        else:
            ints = {k: v for k, v in lf.loop_cur.items() if not isinstance(v, Ptr)}
            ptrs = {k: v for k, v in lf.loop_cur.items() if isinstance(v, Ptr)}
            if len(ints) != 1:
                raise Unsupported('the left trim loop does not carry one counter')
            (ik, iv), = ints.items()
            inside = any(isinstance(c, alg.Cond) and ((c.rel() == '<' and sp.expand(SW(c.a) - SW(iv)) == 0 and sp.sympify(c.b) == S('num_')) or
                                                        (c.rel() == '>' and sp.expand(SW(c.b) - SW(iv)) == 0 and sp.sympify(c.a) == S('num_'))) for c in lf.pc)
            if not inside:
                probs.append('the byte is tested without the test counter < length (%s)' % (lf.pc,))
            if sp.expand(SW(pos) - SW(iv)) != 0:
                probs.append('the byte tested is at position %s, expected the cursor %s' % (pos, iv))
            for pk, pv in ptrs.items():
                if not (pv.base == '*ptr_' and sp.expand(SW(pv.off) - SW(iv)) == 0):
                    probs.append('the byte cursor is at %s while the counter is %s' % (pv, iv))
                nx = lf.loop_next.get(pk)
                if not (isinstance(nx, Ptr) and nx.base == '*ptr_' and sp.expand(SW(nx.off) - SW(iv) - 1) == 0):
                    probs.append('the byte cursor advances to %s, expected one byte on' % (nx,))
            nx = lf.loop_next.get(ik)
            if nx is None or sp.expand(SW(nx) - SW(iv) - 1) != 0:
                probs.append('the counter becomes %s, expected %s + 1' % (nx, iv))
            if numk in lf.store:
                probs.append('the left trim loop changes the length')
    # exits: the loop is left because the bound is reached or because the byte at the SAME position is not in the set
    ne = 0
    for lf in leaves:
        tests = [m for m in (_membership(dom, c) for c in lf.pc) if m is not None]
        for pos, isin, kind, targs in tests:
            ne += 1
            if isin:
                probs.append('a path leaves the function behind a positive membership test')
    if n < 2:
        raise Unsupported('%d iteration paths of trim loops found, expected the set variant and the space variant' % n)
    if probs:
        rep.bad('K3', name, '; '.join(sorted(set(probs))[:3])[:600], loc=loc, key='%s: trim step' % name)
    else:
        rep.ok('K3', name, ('the byte tested is the last one (position length - 1) and the length drops by one per iteration' if right else
                            'the byte tested is the one at the cursor, inside the string, and cursor and counter advance by one per iteration') +
               '; the set is (s, n) resp. the space class; the loop is left only on a negative test or at the bound (%d iteration paths, %d exits with a test)' % (n, ne),
               loc=loc, sample={'fn': name, 'iterations': n, 'exits': ne})
