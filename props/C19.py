"""C19 - integer helpers (DESIGN 4 C19): W1 bit reversal, W2 byte-order accessors (BIT, exact ANF proofs),
W3 integer square root (Newton template + start value per bit length), W4 lcm shape, W5 Euclid template."""
import re
import sympy as sp
import symx, bit, alg, looptx, llir
from bit import BV, ZERO, ONE
from symx import Ptr, Unsupported, TOP

LEVEL = 'proof'


def lookup_in(mods):
    def lk(name):
        for m in mods:
            f = m.functions.get(name)
            if f is not None and not f.error:
                return f
        return None
    return lk


def run(ctx):
    rep = ctx.rep
    rep.explanation = ('bit reversal and byte-order accessors: every output bit is computed in algebraic normal form over the '
                       'input bits (canonical, so the comparison with the specified bit is exact for all 2^w inputs at once); '
                       'isqrt/gcd: the loop body state transformer is compared with the Newton / Euclid template and the Newton '
                       'start value is compared with floor(sqrt(2^L-1)) for every bit length L; lcm: divide-before-multiply shape')
    rep.trusted += ['lib/bit.py GF(2) algebraic normal form', 'lib/alg.py', 'textbook lemmas: Euclid (gcd(a,b)=gcd(b,a mod b), gcd(a,0)=a); '
                    'integer Newton iteration from a start >= floor(sqrt x) decreases monotonically to floor(sqrt x)']
    hdr = ctx.module('hdr_unit')
    lk = lookup_in([hdr])
    # ---------------- W1
    for w in (8, 16, 32, 64):
        name = 'a_u%d_rev' % w
        fn = ctx.fn('hdr_unit', name)
        if fn is None:
            rep.unk('W1', name, 'anchor vanished')
            continue
        try:
            dom = bit.Bit()
            it = symx.Interp(dom, lk)
            x = BV.sym('x', w)
            leaves = it.run(fn, [x])
            if len(leaves) != 1 or not isinstance(leaves[0].ret, BV):
                rep.unk('W1', name, 'not straight-line bit code (%d leaves)' % len(leaves))
                continue
            r = leaves[0].ret
            wrong = [i for i in range(w) if r.bits[i] != x.bits[w - 1 - i]]
            loc = fn.loc(fn.entry.instrs[0])
            if wrong:
                i = wrong[0]
                rep.bad('W1', name, 'output bit %d is %s, expected input bit %d (%d bits wrong)' % (
                    i, bit.fmt_bit(r.bits[i]), w - 1 - i, len(wrong)), loc=loc, key='%s: bit map' % name)
            else:
                rep.ok('W1', name, 'output bit i = input bit %d-i for all i (hence an involution)' % (w - 1), loc=loc,
                       sample={'fn': name, 'bit0': bit.fmt_bit(r.bits[0]), 'bit%d' % (w - 1): bit.fmt_bit(r.bits[w - 1])})
        except Unsupported as e:
            rep.unk('W1', name, str(e))
    # ---------------- W2
    for w in (16, 32, 64):
        nb = w // 8
        for order in 'lb':
            # store
            name = 'a_u%d_set%s' % (w, order)
            fs = ctx.fn('hdr_unit', name)
            name_g = 'a_u%d_get%s' % (w, order)
            fg = ctx.fn('hdr_unit', name_g)
            if fs is None or fg is None:
                rep.unk('W2', name if fs is None else name_g, 'anchor vanished')
                continue
            try:
                dom = bit.Bit()
                it = symx.Interp(dom, lk)
                x = BV.sym('x', w)
                leaves = it.run(fs, [Ptr('buf', 0), x])
                loc = fs.loc(fs.entry.instrs[0])
                if len(leaves) != 1:
                    rep.unk('W2', name, '%d leaves' % len(leaves))
                    continue
                st = leaves[0].store
                probs = []
                for k in range(nb):
                    addr = k if order == 'l' else nb - 1 - k
                    cell = st.get(('buf', addr))
                    want = BV(x.bits[8 * k:8 * k + 8])
                    if cell is None:
                        probs.append('byte at address %d not written' % addr)
                    elif cell[1] != llir.I(8):
                        raise Unsupported('store wider than a byte (host-order dependent access)')
                    elif cell[0] != want:
                        probs.append('address %d holds %s, expected value byte %d' % (addr, cell[0], k))
                extra = [k for k in st if k[0] == 'buf' and (not isinstance(k[1], int) or not 0 <= k[1] < nb)]
                if extra:
                    probs.append('writes outside the %d-byte object: %s' % (nb, extra))
                if probs:
                    rep.bad('W2', name, '; '.join(probs), loc=loc, key='%s: layout' % name)
                else:
                    rep.ok('W2', name, 'value byte k stored at address %s' % ('k' if order == 'l' else '%d-k' % (nb - 1)), loc=loc,
                           sample={'fn': name, 'cells': {str(k[1]): repr(v[0]) for k, v in sorted(st.items(), key=lambda kv: str(kv[0]))[:2]}})
                # load: memory bytes as atoms
                dom = bit.Bit()
                it = symx.Interp(dom, lk)
                leaves = it.run(fg, [Ptr('buf', 0)])
                loc = fg.loc(fg.entry.instrs[0])
                if len(leaves) != 1 or not isinstance(leaves[0].ret, BV):
                    rep.unk('W2', name_g, '%d leaves' % len(leaves))
                    continue
                r = leaves[0].ret
                ent = leaves[0].entry
                probs = []
                for (b_, off, ty), v in ent.items():
                    if b_ == 'buf' and ty != 'i8':
                        raise Unsupported('load wider than a byte (host-order dependent access)')
                    if b_ == 'buf' and not (isinstance(off, int) and 0 <= off < nb):
                        probs.append('reads outside the %d-byte object at %s' % (nb, off))
                for k in range(nb):
                    addr = k if order == 'l' else nb - 1 - k
                    cell = ent.get(('buf', addr, 'i8'))
                    if cell is None:
                        probs.append('byte at address %d is never read' % addr)
                        continue
                    if BV(r.bits[8 * k:8 * k + 8]) != cell:
                        probs.append('value byte %d is %s, expected the byte at address %d' % (k, BV(r.bits[8 * k:8 * k + 8]), addr))
                if probs:
                    rep.bad('W2', name_g, '; '.join(probs), loc=loc, key='%s: layout' % name_g)
                else:
                    rep.ok('W2', name_g, 'value byte k loaded from address %s; with %s this is get(set(x)) = x' % (
                        'k' if order == 'l' else '%d-k' % (nb - 1), name), loc=loc)
            except Unsupported as e:
                rep.unk('W2', name, str(e))
    # ---------------- W3 / W4 / W5 in src/math.c
    for w in (32, 64):
        gcd(ctx, w)
        lcm(ctx, w)
        isqrt(ctx, w)
    rep.floor('W1', 4)
    rep.floor('W2', 12)
    rep.floor('W3', 6)
    rep.floor('W4', 2)
    rep.floor('W5', 2)
    fixtures(ctx)


def int_bind(dom, w):
    def bind(ph, init):
        return dom.sym('s_' + ph.res, integer=True, nonnegative=True)
    return bind


def gcd(ctx, w):
    rep = ctx.rep
    name = 'a_u%d_gcd' % w
    fn = ctx.fn('math', name)
    if fn is None:
        rep.unk('W5', name, 'anchor vanished')
        return
    loc = fn.loc(fn.entry.instrs[0])
    try:
        dom = WidthDom()
        a, b = dom.sym('a', integer=True, nonnegative=True), dom.sym('b', integer=True, nonnegative=True)
        tx = looptx.transformer(fn, lookup_in([fn.module]), [a, b], dom, int_bind(dom, w))
        if len(tx.phis) != 2 or len(tx.backs) != 1:
            raise Unsupported('loop shape differs from the Euclid template (%d phis, %d back paths)' % (len(tx.phis), len(tx.backs)))
        # identify roles by initial values
        pa = [p.res for p in tx.phis if tx.init[p.res] == a]
        pb = [p.res for p in tx.phis if tx.init[p.res] == b]
        if len(pa) != 1 or len(pb) != 1:
            raise Unsupported('loop variables do not start as (a, b)')
        pa, pb = pa[0], pb[0]
        sa, sb = tx.sym[pa], tx.sym[pb]
        s1, nv = tx.backs[0]
        probs = []
        urem = sp.Function('i_urem')
        if nv[pa] != sb:
            probs.append('a <- %s, expected b' % nv[pa])
        if nv[pb] != urem(sa, sb):
            probs.append('b <- %s, expected a mod b' % nv[pb])
        g = s1.pc

        def is_ne0(c, v):
            # v != 0 in either spelling
            return isinstance(c, alg.Cond) and c.rel() == '!=' and ((c.a == v and c.b == 0) or (c.b == v and c.a == 0))

        def is_eq0(c, v):
            return isinstance(c, alg.Cond) and c.rel() == '==' and ((c.a == v and c.b == 0) or (c.b == v and c.a == 0))
        top = len(g) == 1 and is_ne0(g[0], sb)
        # the rotated form  if (b == 0) return a;  do { step } while (b != 0);  tests the NEW b at the bottom; it is the same iteration when
        # the loop is entered under b != 0 only, the b == 0 case returns a, and the exit hands back the new a
        bottom = len(g) == 1 and is_ne0(g[0], nv[pb])
        if top:
            if not tx.finals or len(tx.finals) != 1 or tx.finals[0][1] != sa:
                probs.append('does not return a on exit')
        elif bottom:
            pre_ok = any(is_ne0(c, b) for c in tx.pre.pc)
            early = [(s_, r_) for s_, r_ in getattr(tx, 'pre_rets', []) if any(is_eq0(c, b) for c in s_.pc)]
            if not pre_ok or len(early) != 1 or early[0][1] != a:
                probs.append('the loop tests b at the bottom but is not entered under b != 0 with b == 0 returning a')
            fin = tx.finals or []
            if len(fin) != 1 or fin[0][1] != nv[pa] or not any(is_eq0(c, nv[pb]) for c in fin[0][0].pc):
                probs.append('does not return the new a when the new b is 0')
        else:
            probs.append('loop guard %s, expected b != 0' % g)
        if probs:
            rep.bad('W5', name, '; '.join(probs), loc=loc, key='%s: euclid' % name)
        else:
            rep.ok('W5', name, '(a,b) <- (b, a mod b) while b != 0; returns a  [Euclid template; lemma gives divisibility, maximality, gcd(0,0)=0]',
                   loc=loc, sample={'fn': name, 'a_next': str(nv[pa]), 'b_next': str(nv[pb]), 'guard': str(g)})
    except Unsupported as e:
        rep.unk('W5', name, str(e))


class WidthDom(alg.Alg):
    """integer helpers: a value cut down to fewer bits is a different value (the exact-integer reading of lib/alg.py treats a
    truncation as the identity, which is right for indices known to fit and wrong here)"""
    def cast(self, op, v, fty, tty):
        if op == 'trunc' and fty.is_int and tty.is_int and tty.a < fty.a and tty.a > 1 and self.concrete(v) is None and v is not TOP \
                and not isinstance(v, (alg.Cond, alg.BoolOp, bool)):
            return sp.Function('trunc%d' % tty.a)(v)
        return alg.Alg.cast(self, op, v, fty, tty)


class GcdDom(WidthDom):
    def opaque_call(self, name, args, ins, interp, st):
        if name.endswith('_gcd'):
            return sp.Function(name)(*args)
        return NotImplemented


def lcm(ctx, w):
    rep = ctx.rep
    name = 'a_u%d_lcm' % w
    fn = ctx.fn('math', name)
    if fn is None:
        rep.unk('W4', name, 'anchor vanished')
        return
    loc = fn.loc(fn.entry.instrs[0])
    try:
        dom = GcdDom()
        a, b = dom.sym('a', integer=True, nonnegative=True), dom.sym('b', integer=True, nonnegative=True)
        it = symx.Interp(dom, lambda n: None)
        leaves = it.run(fn, [a, b])
        g = sp.Function('a_u%d_gcd' % w)(a, b)
        g2 = sp.Function('a_u%d_gcd' % w)(b, a)
        udiv = sp.Function('i_udiv')
        probs = []
        seen_nz = seen_z = False
        for lf in leaves:
            c = lf.pc
            if len(c) == 1 and isinstance(c[0], alg.Cond) and c[0].b == 0:
                # the sibling of a smaller width: the arguments are silently truncated on the way in (a wider sibling would be harmless)
                other = [f for f in sp.sympify(c[0].a).atoms(sp.Function) if re.match(r'a_u\d+_gcd$', f.func.__name__) and int(re.match(r'a_u(\d+)_gcd$', f.func.__name__).group(1)) < w]
                if other:
                    probs.append('divides by %s, expected the %d-bit gcd of (a, b)' % (other[0], w))
                    continue
            if len(c) != 1 or not isinstance(c[0], alg.Cond) or c[0].a not in (g, g2) or c[0].b != 0:
                raise Unsupported('lcm path condition %s is not a test of the gcd against zero' % c)
            if c[0].rel() == '!=':
                seen_nz = True
                want = [udiv(a, c[0].a) * b, udiv(b, c[0].a) * a]
                if not any(alg.is_zero(lf.ret - x) for x in want):
                    probs.append('returns %s when gcd != 0, expected (a / gcd) * b' % lf.ret)
            elif c[0].rel() == '==':
                seen_z = True
                if not (lf.ret == 0 or lf.ret in (g, g2)):
                    probs.append('returns %s when gcd == 0, expected 0' % lf.ret)
        if not (seen_nz and seen_z):
            probs.append('gcd == 0 is not separated from the division (division by zero for (0,0))')
        if probs:
            rep.bad('W4', name, '; '.join(probs), loc=loc, key='%s: shape' % name)
        else:
            rep.ok('W4', name, 'gcd != 0: (a / gcd) * b (division first, exact since gcd | a); gcd == 0: 0', loc=loc,
                   sample={'fn': name, 'leaves': [(str(l.pc), str(l.ret)) for l in leaves]})
    except Unsupported as e:
        rep.unk('W4', name, str(e))


class SqrtDom(alg.Alg):
    def call(self, name, args, ins, interp, st, fn):
        if name.startswith('llvm.ctlz'):
            return sp.Function('ctlz')(args[0])
        return alg.Alg.call(self, name, args, ins, interp, st, fn)


def ieval(e, env):
    """evaluate an integer term (ALG int atoms) under a numeric environment"""
    e = sp.sympify(e).subs(env)
    changed = True
    n = 0
    while changed and n < 50:
        n += 1
        changed = False
        for f in list(e.atoms(sp.Function)):
            nm = f.func.__name__
            if all(a.is_number for a in f.args):
                av = [int(a) for a in f.args]
                r = None
                if nm == 'i_lshr':
                    r = av[0] >> av[1]
                elif nm == 'i_shl':
                    r = av[0] << av[1]
                elif nm == 'i_udiv':
                    r = av[0] // av[1] if av[1] else None
                elif nm == 'i_and':
                    r = av[0] & av[1]
                elif nm == 'i_ashr':
                    r = av[0] >> av[1]
                if r is not None:
                    e = e.subs(f, r)
                    changed = True
    return e


def isqrt_py(n):
    import math
    return math.isqrt(n)


def isqrt(ctx, w):
    rep = ctx.rep
    name = 'a_u%d_sqrt' % w
    fn = ctx.fn('math', name)
    if fn is None:
        for r in ('W3',):
            rep.unk(r, name, 'anchor vanished')
        return
    loc = fn.loc(fn.entry.instrs[0])
    try:
        dom = SqrtDom()
        x = dom.sym('x', integer=True, nonnegative=True)
        tx = looptx.transformer(fn, lookup_in([fn.module]), [x], dom, int_bind(dom, w))
        if len(tx.phis) != 1 or len(tx.backs) != 1:
            raise Unsupported('loop shape differs from the Newton template (%d phis, %d back paths): another algorithm?' % (len(tx.phis), len(tx.backs)))
        ph = tx.phis[0].res
        s = tx.sym[ph]
        s1, nv = tx.backs[0]
        lshr, udiv = sp.Function('i_lshr'), sp.Function('i_udiv')
        want = lshr(s + udiv(x, s), 1)
        probs = []
        if not alg.is_zero(nv[ph] - want):
            probs.append('iteration x1 <- %s, expected (x0 + x/x0) >> 1' % nv[ph])
        g = s1.pc
        okg = len(g) == 1 and isinstance(g[0], alg.Cond) and (
            (g[0].rel() == '>' and g[0].a == s and alg.is_zero(g[0].b - want)) or
            (g[0].rel() == '<' and g[0].b == s and alg.is_zero(g[0].a - want)))
        if not okg:
            probs.append('continuation guard %s, expected x0 > x1 (stop at the first non-decrease)' % g)
        # return value: x0 (the value at the start of the last iteration), truncated
        rv = None
        if tx.finals:
            # (several ways out with the same value are fine: an assertion between the loop and the return forks the path)
            rvs = [r_ for s_, r_ in tx.finals]
            bad_ = [r_ for r_ in rvs if r_ is None or not alg.is_zero(sp.sympify(r_) - s)]
            rv = bad_[0] if bad_ else rvs[0]
        if rv is None or not alg.is_zero(sp.sympify(rv) - s):
            probs.append('returns %s, expected x0' % rv)
        if probs:
            rep.bad('W3', name, '; '.join(probs), loc=loc, key='%s: newton' % name)
        else:
            rep.ok('W3', name, 'x1 <- (x0 + x/x0) >> 1 until x0 <= x1; returns x0  [integer Newton template]', loc=loc,
                   sample={'fn': name, 'step': str(nv[ph]), 'guard': str(g)})
        # early exit: x <= 1 returns x
        ok_early = False
        for st_, r in tx.pre_rets:
            c = st_.pc
            if len(c) != 1 or not isinstance(c[0], alg.Cond) or r is None or not alg.is_zero(sp.sympify(r) - x):
                continue
            rel, lhs, rhs = c[0].rel(), c[0].a, c[0].b
            if rhs == x and lhs != x:
                lhs, rhs, rel = rhs, lhs, {'<': '>', '<=': '>=', '>': '<', '>=': '<='}.get(rel, rel)     # 1 >= x is x <= 1
            bound = dom.concrete(rhs) if lhs == x else None
            if (rel == '<=' and bound == 1) or (rel == '<' and bound == 2):
                ok_early = True
        if ok_early:
            rep.ok('W3', name + ':small', 'x <= 1 returns x', loc=loc)
        else:
            rep.bad('W3', name + ':small', 'no early return of x for x <= 1 (x = 0 would divide by zero)', loc=loc, key='%s: small' % name)
        # start value per bit length L (x in [2^(L-1), 2^L-1]), L = 2..w
        start = tx.init[ph]
        ct = sp.Function('ctlz')(x)
        bad_L = []
        ovf_L = []
        rows = []
        for L in range(2, w + 1):
            sv = ieval(start, {ct: w - L})
            if not sv.is_number:
                raise Unsupported('start value %s is not a function of the bit length' % start)
            sv = int(sv)
            hi = (1 << L) - 1
            need = isqrt_py(hi)
            rows.append((L, sv, need))
            if sv < need:
                bad_L.append((L, sv, need))
            if sv == 0 or sv + hi // sv >= (1 << w):
                ovf_L.append((L, sv))
        if bad_L:
            L, sv, need = bad_L[0]
            # smallest concrete witness in that class: the first x in class L whose root exceeds the start
            wit = (sv + 1) ** 2
            rep.bad('W3', name + ':start', 'Newton start 2^%d is below floor(sqrt x) for bit lengths %s (e.g. L=%d: start %d < %d; x=%d gives a result below the root)'
                    % (sv.bit_length() - 1, [b[0] for b in bad_L][:8], L, sv, need, wit), loc=loc, key='%s: start below root' % name,
                    witness={'x': wit, 'start': sv, 'isqrt': isqrt_py(wit)})
        else:
            rep.ok('W3', name + ':start', 'start >= floor(sqrt(2^L-1)) for every bit length L=2..%d' % w, loc=loc,
                   sample={'fn': name, 'start': str(start), 'table(L,start,isqrt(2^L-1))': rows[:6]})
        if ovf_L:
            rep.bad('W3', name + ':overflow', 'x0 + x/x0 can exceed %d bits at the start for bit lengths %s' % (w, ovf_L[:4]), loc=loc,
                    key='%s: overflow' % name)
        else:
            rep.ok('W3', name + ':overflow', 'start + x/start < 2^%d for every bit length (later iterates are smaller)' % w, loc=loc)
    except Unsupported as e:
        rep.unk('W3', name, str(e))


def fixtures(ctx):
    """ANF positive control: a wrong mask in a reversal network must be refuted"""
    d = bit.Bit()
    x = BV.sym('x', 8)
    t8 = llir.I(8)

    def rev(m1):
        s = d.bv_binop('or', d.bv_binop('lshr', x, BV.const(4, 8), 8), d.bv_binop('shl', x, BV.const(4, 8), 8), 8)
        s = d.bv_binop('or', d.bv_binop('lshr', d.bv_binop('and', s, BV.const(m1, 8), 8), BV.const(2, 8), 8),
                       d.bv_binop('shl', d.bv_binop('and', s, BV.const(0x33, 8), 8), BV.const(2, 8), 8), 8)
        s = d.bv_binop('or', d.bv_binop('lshr', d.bv_binop('and', s, BV.const(0xAA, 8), 8), BV.const(1, 8), 8),
                       d.bv_binop('shl', d.bv_binop('and', s, BV.const(0x55, 8), 8), BV.const(1, 8), 8), 8)
        return s
    good = all(rev(0xCC).bits[i] == x.bits[7 - i] for i in range(8))
    badd = all(rev(0xC8).bits[i] == x.bits[7 - i] for i in range(8))
    if good and not badd:
        ctx.rep.ok('FIXTURE', 'bit-anf', 'seeded wrong mask refuted, correct network accepted')
    else:
        ctx.rep.unk('FIXTURE', 'bit-anf', 'positive control failed')
