"""C11 - real helpers (DESIGN 4 C11).  CFG-1' alias table (all/none x f64/f32), R1 atan2 regions, R2 exact-identity branches
of asinh/acosh/atanh/log1p, R3 norms (square-and-sign, ratios <= 1), R4 reductions / element-wise helpers as loop-body
transformers, R5 delay-line push / roll effects, DIV0 integer divisors."""
import json, os, re
import re
import sympy as sp
import symx, alg, looptx, consts, llir, irx, effects, path, counted
from symx import Ptr, Unsupported, TOP

LEVEL = 'other'
ALIAS = json.load(open(os.path.join(os.path.dirname(__file__), '..', 'specs', 'alias_exceptions.json')))
ATAN2 = json.load(open(os.path.join(os.path.dirname(__file__), '..', 'specs', 'atan2.json')))


def lookup_in(mods):
    def lk(name):
        for m in mods:
            f = m.functions.get(name)
            if f is not None and not f.error:
                return f
        return None
    return lk


class RDom(alg.Alg):
    def __init__(self, table=None):
        alg.Alg.__init__(self, consts=table or {})

    def call(self, name, args, ins, interp, st, fn):
        b = name[:-1] if name.endswith('f') and name[:-1] in ('atan', 'log1p', 'hypot', 'atan2', 'acosh', 'asinh', 'atanh') else name
        if b in ('log1p',):
            return sp.log(1 + args[0])
        if b in ('hypot',) and len(args) == 2:
            return sp.sqrt(args[0] ** 2 + args[1] ** 2)
        if b in ('atan2',):
            return sp.Function('atan2')(*args)
        if name in ('a_move', 'a_copy', 'a_zero', 'a_fill') or name.startswith('llvm.mem'):
            st.calls.append((name, args))
            return args[0] if args else None
        return alg.Alg.call(self, name, args, ins, interp, st, fn)

    def nonnull(self, base):
        return True


sqrt_zero = alg.sqrt_zero


def run(ctx):
    rep = ctx.rep
    rep.explanation = ('alias macros probed through generated functions whose callee clang resolves; fallback bodies interpreted over '
                       'exact real terms: atan2 compared region by region with ISO C, the non-asymptotic branches of asinh/acosh/atanh/'
                       'log1p compared with the defining logarithmic forms modulo the square-root relations, norms by squaring; '
                       'reductions and element-wise helpers as one-iteration loop transformers; block moves by their arguments')
    rep.trusted += ['lib/symx.py, lib/alg.py, lib/looptx.py', 'sympy polynomial remainder for square-root relations']
    rep.assumptions += ['IEEE operations read as exact real operations: accuracy in ulps of the rounded evaluation is NOT decided (R2b / R2c bound the '
                        'truncation error of the approximating branches at the ends of their intervals resp. on a grid)', 'source/destination arrays do not overlap unless the helper is a shift']
    res, table = consts.check(ctx.scr, ctx.cfg('all', 8))
    for name, ok, lit, closed, detail in res:
        if name in ('A_PI', 'A_PI_2', 'A_LN2', 'A_RAD2DEG', 'A_DEG2RAD'):
            (rep.ok if ok else rep.bad)('M0', name, '%s vs %s (%s)' % (lit, closed, detail), **({} if ok else {'key': '%s: value' % name}))
    aliases(ctx)
    atan2(ctx, table)
    invhyp(ctx, table)
    expm1_rule(ctx, table)
    norms(ctx, table)
    reductions(ctx, table)
    shifts(ctx, table)
    block_contents(ctx, table)
    rep.floor('R5c', 4)
    div0(ctx)
    conversions(ctx, table)
    conversions2(ctx, table)
    rep.floor('CFG-1a', 4 * 50)
    rep.floor('R1', 6)
    rep.floor('R2', 8)
    rep.floor('R2b', 3)
    rep.floor('R2c', 1)
    rep.floor('R3', 4)
    rep.floor('R3d', 4)
    rep.floor('R4', 14)
    rep.floor('R5', 6)


# ---------------------------------------------------------------- CFG-1'
def aliases(ctx):
    rep = ctx.rep
    mac = irx.macros(ctx.scr, ctx.cfg('all', 8), 'a/math.h')
    names = sorted(n[7:] for n, (params, body) in mac.items() if n.startswith('a_real_') and params is None and re.fullmatch(r'A_REAL_F\(\w+\)|a_real_\w+', body.strip()))
    sw = {k: v for k, v in ALIAS['switched'].items() if not k.startswith('_')}
    names = sorted(set(names) | set(sw))
    for have in ('all', 'none'):
        for real, suf in ((8, ''), (4, 'f')):
            cfgname = '%s/f%d' % (have, real * 8)
            probe = ctx.scr.path('c11_alias_%s_%d.c' % (have, real))
            body = ['#include "a/math.h"']
            for n in names:
                body.append('void *verif_alias_%s(void) { return (void *)(a_real_%s); }' % (n, n))
            open(probe, 'w').write('\n'.join(body) + '\n')
            try:
                ll = irx.compile_ir(ctx.scr, probe, ctx.cfg(have, real), 'al_%s%d' % (have, real))
                pm = llir.parse_module(ll)
            except irx.ToolError as e:
                rep.unk('CFG-1a', cfgname, 'alias probe does not compile: %s' % str(e)[-300:])
                continue
            for n in names:
                f = pm.functions.get('verif_alias_%s' % n)
                sym = 'a_real_%s[%s]' % (n, cfgname)
                if f is None or f.error:
                    rep.unk('CFG-1a', sym, 'probe vanished')
                    continue
                t = f.blocks[-1].term
                v = t.ops[0] if t.ops else None
                callee = None
                if v is not None and v.k == 'cexpr' and v.args and v.args[0].k == 'global':
                    callee = v.args[0].v
                elif v is not None and v.k == 'global':
                    callee = v.v
                base = ALIAS['renames'].get(n, n)
                if n in sw and have == 'none':
                    want = 'a_real_norm2' if n == 'hypot' else 'a_real_%s' % n
                else:
                    want = base + suf
                if callee == want:
                    rep.ok('CFG-1a', sym, 'binds to %s' % want, sample={'macro': 'a_real_' + n, 'config': cfgname, 'callee': callee})
                else:
                    rep.bad('CFG-1a', sym, 'binds to %s, expected %s' % (callee, want), key='a_real_%s: binding' % n)


# ---------------------------------------------------------------- R1
def atan2(ctx, table):
    rep = ctx.rep
    fn = ctx.fn('math', 'a_real_atan2')
    if fn is None:
        rep.unk('R1', 'a_real_atan2', 'anchor vanished')
        return
    loc = fn.loc(fn.entry.instrs[0])
    try:
        dom = RDom(table)
        x, y = dom.sym('x', real=True), dom.sym('y', real=True)
        lv = symx.Interp(dom, lookup_in([fn.module])).run(fn, [y, x])
    except Unsupported as e:
        rep.unk('R1', 'a_real_atan2', str(e))
        return
    px, py = sp.Symbol('px', positive=True), sp.Symbol('py', positive=True)
    for reg in ATAN2['regions']:
        cases = []
        xs = {'>0': [px], '<0': [-px], '=0': [sp.Integer(0)]}[reg['x']]
        ys = {'any': [py, -py, sp.Integer(0)], '>=0': [py, sp.Integer(0)], '<0': [-py], '>0': [py], '=0': [sp.Integer(0)]}[reg['y']]
        sym = 'a_real_atan2[x%s,y%s]' % (reg['x'], reg['y'])
        probs = []
        for xv in xs:
            for yv in ys:
                sub = {x: xv, y: yv}
                hit = []
                def holds(c):
                    if isinstance(c, alg.BoolOp):
                        vals = [holds(a_) for a_ in c.args]
                        return all(vals) if c.op == 'and' else any(vals)
                    d = sp.sympify(c.a - c.b).subs(sub)
                    s = 1 if d.is_positive else (-1 if d.is_negative else (0 if d == 0 else None))
                    if s is None:
                        raise Unsupported('cannot decide %s' % c)
                    r = c.rel()
                    return {'<': s < 0, '<=': s <= 0, '>': s > 0, '>=': s >= 0, '==': s == 0, '!=': s != 0}[r]
                for lf in lv:
                    ok = True
                    for c in lf.pc:
                        if not holds(c):
                            ok = False
                            break
                    if ok:
                        hit.append(lf)
                if len(hit) != 1:
                    probs.append('%d paths for x=%s y=%s' % (len(hit), xv, yv))
                    continue
                want = sp.sympify(reg['value'], locals={'x': xv, 'y': yv, 'atan': sp.atan, 'pi': sp.pi})
                got = sp.sympify(hit[0].ret).subs(sub)
                if not alg.is_zero(sp.simplify(got - want)):
                    probs.append('returns %s, ISO C requires %s' % (got, want))
        if probs:
            rep.bad('R1', sym, '; '.join(sorted(set(probs))[:2]), loc=loc, key='a_real_atan2: region x%s y%s' % (reg['x'], reg['y']))
        else:
            rep.ok('R1', sym, 'returns %s' % reg['value'], loc=loc, sample={'region': reg})


# ---------------------------------------------------------------- R2
def invhyp(ctx, table):
    rep = ctx.rep
    x = sp.Symbol('x', real=True)
    a = sp.Abs(x)
    specs = {
        'a_real_asinh': lambda A: A + sp.sqrt(A ** 2 + 1),
        'a_real_acosh': lambda A: A + sp.sqrt(A ** 2 - 1),
        'a_real_atanh': lambda A: (1 + A) / (1 - A),
        'a_real_log1p': lambda A: 1 + A,
    }
    for name, inner in specs.items():
        fn = ctx.fn('math', name)
        if fn is None:
            rep.unk('R2', name, 'anchor vanished')
            continue
        loc = fn.loc(fn.entry.instrs[0])
        try:
            dom = RDom(table)
            dom.syms['x'] = x
            lv = symx.Interp(dom, lookup_in([fn.module])).run(fn, [x])
        except Unsupported as e:
            rep.unk('R2', name, str(e))
            continue
        nexact = 0
        probs = []
        approx = []
        for lf in lv:
            r = sp.sympify(lf.ret) if lf.ret is not None and lf.ret is not TOP else None
            if r is None:
                continue
            logs = list(r.atoms(sp.log))
            if len(logs) != 1 or r.has(sp.log(2)) or any(table.get(k) == sp.log(2) and False for k in ()):
                # asymptotic / trivial branch: decided by rule R2b below
                if name != 'a_real_log1p':
                    approx.append(lf)
                continue
            L = logs[0]
            coef = sp.simplify(r / L)
            if name == 'a_real_log1p':
                # y = log(a) - ((a - 1) - x)/a with a = x + 1: compensation vanishes in real arithmetic
                if not sqrt_zero(sp.simplify(r - sp.log(1 + x))):
                    probs.append('returns %s, expected log(1+x)' % r)
                nexact += 1
                continue
            if not coef.is_number and not coef.has(sp.Piecewise):
                pass
            arg = L.args[0]
            # argument of the log in terms of A = |x| (acosh: x itself)
            A = x if name == 'a_real_acosh' else a
            want = inner(A)
            if not sqrt_zero(arg - want):
                probs.append('logarithm of %s, defining form needs %s' % (arg, want))
            # prefactor: sign (asinh), +-1/2 (atanh), 1 (acosh) -- read from the path: s = x<0 ? -c : c
            c = sp.Abs(coef) if coef.is_number else None
            wantc = {'a_real_asinh': 1, 'a_real_acosh': 1, 'a_real_atanh': sp.Rational(1, 2)}[name]
            if c is None or c != wantc:
                probs.append('prefactor %s, expected +-%s' % (coef, wantc))
            else:
                neg = any(isinstance(cc, alg.Cond) and cc.rel() == '<' and sp.sympify(cc.a) == x and sp.sympify(cc.b) == 0 for cc in lf.pc)
                pos = any(isinstance(cc, alg.Cond) and cc.rel() == '>=' and sp.sympify(cc.a) == x and sp.sympify(cc.b) == 0 for cc in lf.pc)
                if name != 'a_real_acosh':
                    if neg or pos:
                        if (coef < 0) != neg:
                            probs.append('sign of the result does not follow the sign of x on path %s' % (lf.pc,))
                    elif not alg.is_zero(sp.simplify(r.subs(x, -x) + r)):
                        # no branch on the sign of x: the expression itself must be odd
                        probs.append('the branch value %s is not an odd function of x (the sign of x is lost)' % r)
            nexact += 1
        if probs:
            rep.bad('R2', name, '; '.join(sorted(set(probs))[:2])[:500], loc=loc, key='%s: exact branch' % name)
        elif nexact == 0:
            rep.unk('R2', name, 'no exact-identity branch recognised', loc=loc)
        else:
            rep.ok('R2', name, '%d non-asymptotic branches equal the defining logarithmic form (modulo sqrt relations), sign by symmetry' % nexact, loc=loc,
                   sample={'fn': name, 'branches': nexact, 'paths': len(lv)})
            rep.ok('R2', name + ':paths', '%d paths analysed; the %d asymptotic / tiny / special-value branches are decided by R2b' % (len(lv), len(approx)), loc=loc)
        if name != 'a_real_log1p':
            approx_branches(rep, name, approx, x, loc)


def expm1_rule(ctx, table):
    """R2c: a_real_expm1.  Outside [-1/2, 1/2] the value is exp(x) - 1 exactly; inside it is the rational form 2r/(Q(x^2) - r), r = x P(x^2),
    with the coefficient tables read from the unit's constant initialisers as exact binary rationals.  The extracted closed form is compared
    with expm1 on a grid of 513 points of [-1/2, 1/2] (both ends included) in 60-digit arithmetic: a relative error above 4 eps anywhere on
    the grid - a mistyped coefficient, a lost factor 2, a swapped table - is a violation.  (A grid, not a bound over the whole interval: the
    error curve of a degree (2,3) rational approximation has at most a handful of extrema.)"""
    import struct
    import mpmath as mp
    rep = ctx.rep
    name = 'a_real_expm1'
    fn = ctx.fn('math', name)
    if fn is None:
        rep.unk('R2c', name, 'anchor vanished')
        return
    loc = fn.loc(fn.entry.instrs[0])
    x = sp.Symbol('x', real=True)
    try:
        dom = RDom(table)
        dom.syms['x'] = x
        lv = symx.Interp(dom, lookup_in([fn.module])).run(fn, [x])
    except Unsupported as e:
        rep.unk('R2c', name, str(e), loc=loc)
        return
    # constant tables of the unit: @name = constant [n x double] [double 0x..., double 1.0e+00 ...]
    vals = {}
    for g, text in fn.module.globals.items():
        m_ = re.search(r'\[(\d+) x double\] \[(.*?)\]', text)
        if not m_:
            continue
        for k, item in enumerate(m_.group(2).split(',')):
            tok = item.strip().split()[-1]
            try:
                if tok.startswith('0x'):
                    v = struct.unpack('>d', bytes.fromhex(tok[2:].rjust(16, '0')))[0]
                else:
                    v = float(tok)
            except Exception:
                continue
            vals['@%s[%d]' % (g, 8 * k)] = sp.Rational(*float(v).as_integer_ratio())
    mp.mp.dps = 60
    EPS = mp.mpf(2) ** -52
    probs, n, nb = [], 0, 0
    for lf in lv:
        if lf.ret is None or lf.ret is TOP:
            continue
        r = sp.sympify(lf.ret)
        sub = {sy: vals[str(sy)] for sy in r.free_symbols if str(sy) in vals}
        r = r.subs(sub)
        if r.free_symbols - {x}:
            probs.append('the branch value depends on %s' % sorted(map(str, r.free_symbols - {x})))
            continue
        txt = str(lf.pc)
        inner = any(isinstance(c, alg.BoolOp) and c.op == 'and' for c in lf.pc)
        outer = any(isinstance(c, alg.BoolOp) and c.op == 'or' for c in lf.pc)
        if r == x and not inner and not outer:
            continue           # the NaN path hands its argument back
        nb += 1
        if outer:
            if not alg.is_zero(sp.simplify(r - (sp.exp(x) - 1))):
                probs.append('outside [-1/2, 1/2] the value is %s, expected exp(x) - 1' % r)
            continue
        if not inner:
            continue
        f = sp.lambdify(x, r, 'mpmath')
        worst = (mp.mpf(0), None)
        G = 4096 if ctx.tier == 'thorough' else 256
        for k in range(-G, G + 1):
            xv = mp.mpf(k) / (2 * G)
            if k == 0:
                continue
            n += 1
            try:
                gv = f(xv)
            except Exception:
                probs.append('the rational form cannot be evaluated at x = %s' % mp.nstr(xv, 6))
                break
            wv = mp.expm1(xv)
            e = abs(gv - wv) / abs(wv)
            if e > worst[0]:
                worst = (e, xv)
        if worst[0] > 4 * EPS:
            probs.append('at x = %s the rational form differs from expm1 by %s relative (4 eps = %s)' % (mp.nstr(worst[1], 6), mp.nstr(worst[0], 3), mp.nstr(4 * EPS, 3)))
    if probs:
        rep.bad('R2c', name, '; '.join(sorted(set(probs))[:2])[:500], loc=loc, key='a_real_expm1: approximation')
    elif n == 0:
        rep.unk('R2c', name, 'the rational branch was not found (%d branches)' % nb, loc=loc)
    else:
        rep.ok('R2c', name, 'exp(x) - 1 outside [-1/2, 1/2]; inside, the rational form with the unit\'s coefficient tables agrees with expm1 to 4 eps on a %d-point grid' % n, loc=loc,
               sample={'fn': name, 'grid': n})


def approx_branches(rep, name, leaves, x, loc):
    """R2b: the branches that do not use the defining logarithm - log(a) + ln 2 for huge arguments, x itself for tiny ones, the special
    values at the ends of the domain.  For each such path the interval of |x| it covers is read from its comparisons with the (exact binary)
    thresholds; the branch value, a closed form in x, is compared with the function at both ends of that interval and at points in between,
    in 60-digit arithmetic: the truncation error of an asymptotic / Taylor branch is monotone in |x|, so the ends carry its maximum.  Decides
    that the thresholds and the approximations fit each other (a branch used too early, a dropped ln 2, a wrong special value)."""
    import mpmath as mp
    mp.mp.dps = 60
    exact = {'a_real_asinh': mp.asinh, 'a_real_acosh': mp.acosh, 'a_real_atanh': mp.atanh}[name]
    EPS = mp.mpf(2) ** -52
    probs, n = [], 0
    for lf in leaves:
        r = sp.sympify(lf.ret)
        lo, hi, lo_open, hi_open = mp.mpf(0) if name != 'a_real_acosh' else -mp.inf, mp.inf, False, False
        sign = 0
        point = None
        excluded = []
        ok_pc = True
        for c in lf.pc:
            if not isinstance(c, alg.Cond):
                ok_pc = False
                break
            a_, b_ = sp.sympify(c.a), sp.sympify(c.b)
            rel = c.rel()
            if b_.has(x) and not a_.has(x):
                a_, b_, rel = b_, a_, {'<': '>', '<=': '>=', '>': '<', '>=': '<='}.get(rel, rel)
            if not b_.is_number:
                ok_pc = False
                break
            bv = mp.mpf(sp.Float(b_, 60).num) if not b_.is_Rational else mp.mpf(int(b_.p)) / mp.mpf(int(b_.q))
            key = a_
            if key == x and name != 'a_real_acosh' and bv == 0:
                if rel in ('<',):
                    sign = -1
                elif rel in ('>=', '>'):
                    sign = sign or 1
                continue
            if key not in (sp.Abs(x), x):
                ok_pc = False
                break
            if rel == '>':
                if bv >= lo:
                    lo, lo_open = bv, True
            elif rel == '>=':
                if bv > lo:
                    lo, lo_open = bv, False
            elif rel == '<':
                if bv <= hi:
                    hi, hi_open = bv, True
            elif rel == '<=':
                if bv < hi:
                    hi, hi_open = bv, False
            elif rel == '==':
                point = bv
            elif rel == '!=':
                excluded.append(bv)
        for bv in excluded:
            if bv == hi:
                hi_open = True
            if bv == lo:
                lo_open = True
        if not ok_pc:
            probs.append('path %s is not a set of comparisons of x with constants' % (str(lf.pc)[:120],))
            continue
        if point is not None:
            pts = [point]
        else:
            if lo > hi:
                continue
            a0 = lo * (1 + mp.mpf(10) ** -25) + (mp.mpf(10) ** -320 if lo == 0 else 0) if lo_open else lo
            if hi == mp.inf:
                base = a0 if a0 > 0 else mp.mpf(1)
                pts = [a0, base * 4, base * 1000, base ** 2 if base > 1 else base * 10 ** 6, mp.mpf(10) ** 300]
            else:
                a1 = hi * (1 - mp.mpf(10) ** -25) if hi_open else hi
                if lo == -mp.inf:
                    pts = [a1, a1 - 1, a1 - 1000]
                else:
                    mid = mp.sqrt(a0 * a1) if a0 > 0 else a1 / 1000
                    pts = [a0, mid, (a0 + a1) / 2, a1]
        signs = [sign] if sign else ([1, -1] if name != 'a_real_acosh' else [1])
        for sg in signs:
            for pv in pts:
                xv = pv * sg if name != 'a_real_acosh' else pv
                n += 1
                try:
                    got = r.subs(x, sp.Float(str(xv), 60)) if not r.is_number else r
                    if got.has(sp.nan) or got is sp.nan:
                        gv = 'nan'
                    elif got in (sp.oo, -sp.oo):
                        gv = mp.inf if got == sp.oo else -mp.inf
                    else:
                        gv = mp.mpf(str(sp.N(got, 60)))
                except Exception as e:
                    probs.append('branch value %s cannot be evaluated at x = %s' % (r, mp.nstr(xv, 8)))
                    continue
                try:
                    wv = exact(xv)
                    if isinstance(wv, mp.mpc) and wv.imag != 0:
                        wv = 'nan'
                    elif isinstance(wv, mp.mpc):
                        wv = wv.real
                except Exception:
                    wv = 'nan'
                if wv == 'nan' or gv == 'nan':
                    if wv != gv:
                        probs.append('at x = %s the branch gives %s, the function is %s' % (mp.nstr(xv, 8), gv, wv))
                    continue
                if mp.isinf(wv) or mp.isinf(gv):
                    if wv != gv:
                        probs.append('at x = %s the branch gives %s, the function is %s' % (mp.nstr(xv, 8), gv, wv))
                    continue
                err = abs(gv - wv)
                tol = 4 * EPS * max(abs(wv), mp.mpf(10) ** -300)
                if err > tol:
                    probs.append('at x = %s (an end of the interval the branch covers) the branch value %s differs from the function by %s relative' % (
                        mp.nstr(xv, 8), str(r)[:60], mp.nstr(err / max(abs(wv), mp.mpf(10) ** -300), 3)))
    if probs:
        rep.bad('R2b', name, '; '.join(sorted(set(probs))[:2])[:600], loc=loc, key='%s: approximating branch' % name)
    elif n == 0:
        rep.unk('R2b', name, 'no approximating branch found', loc=loc)
    else:
        rep.ok('R2b', name, '%d approximating / special-value branches agree with the function to 4 eps at the ends of the intervals they cover (%d evaluations in 60-digit arithmetic)' % (len(leaves), n),
               loc=loc, sample={'fn': name, 'branches': len(leaves), 'evaluations': n})


# ---------------------------------------------------------------- R3
def norms(ctx, table):
    rep = ctx.rep
    for name, nargs in (('a_real_norm2', 2), ('a_real_norm3', 3)):
        fn = ctx.fn('math', name)
        if fn is None:
            rep.unk('R3', name, 'anchor vanished')
            continue
        loc = fn.loc(fn.entry.instrs[0])
        try:
            dom = RDom(table)
            vs = [dom.sym(n, real=True) for n in 'xyz'[:nargs]]
            lv = symx.Interp(dom, lookup_in([fn.module])).run(fn, vs)
            probs = []
            nfin = 0
            for lf in lv:
                r = sp.sympify(lf.ret)
                if r == sp.oo:
                    continue
                if r == 0:
                    # all components are zero on this path: the maximum is 0
                    continue
                nfin += 1
                want2 = sum(v ** 2 for v in vs)
                if not alg.is_zero(sp.simplify(r ** 2 - want2)):
                    probs.append('result^2 = %s, expected %s' % (sp.simplify(r ** 2), want2))
                # ratios are <= 1: the divisor is the largest magnitude on this path
                for d in [q for q in r.atoms(sp.Pow) if q.exp.is_negative]:
                    den = d.base
                    if den in vs:
                        den = sp.Abs(den)      # |v|^2 is printed as v^2: the divisor is the magnitude
                    for v in vs:
                        num = sp.Abs(v)
                        if num == den:
                            continue
                        ok = any(isinstance(c, alg.Cond) and ((c.rel() in ('<=', '<') and sp.sympify(c.a) == num and sp.sympify(c.b) == den) or
                                                              (c.rel() in ('>=', '>') and sp.sympify(c.b) == num and sp.sympify(c.a) == den)) for c in lf.pc)
                        chain = False
                        if not ok:
                            # transitivity through the third component
                            for w in vs:
                                mid = sp.Abs(w)
                                if mid in (num, den):
                                    continue
                                def le(p, q):
                                    return any(isinstance(c, alg.Cond) and ((c.rel() in ('<=', '<') and sp.sympify(c.a) == p and sp.sympify(c.b) == q) or
                                                                            (c.rel() in ('>=', '>') and sp.sympify(c.b) == p and sp.sympify(c.a) == q)) for c in lf.pc)
                                if le(num, mid) and le(mid, den):
                                    chain = True
                        if not ok and not chain and r.has(v):
                            probs.append('path %s does not establish %s <= %s (the squared ratio may overflow)' % (lf.pc, num, den))
            if probs:
                rep.bad('R3', name, '; '.join(sorted(set(probs))[:2])[:500], loc=loc, key='%s: norm' % name)
            else:
                rep.ok('R3', name, 'result^2 = sum of squares and every squared ratio is <= 1 on all %d finite paths; inf/zero early exits' % nfin, loc=loc,
                       sample={'fn': name, 'paths': len(lv)})
        except Unsupported as e:
            rep.unk('R3', name, str(e))
    for name in ('a_real_norm', 'a_real_norm_'):
        norm_loops(ctx, name, table)
    norm_divisions(ctx)


def norm_divisions(ctx):
    """R3d: "norms do not overflow or underflow when the true result is representable" rests on every quotient formed being a
    component over the largest magnitude (<= 1).  A division whose dividend is a constant - the reciprocal 1 / w of the scale, to
    multiply by afterwards - overflows for a subnormal scale although the norm itself is representable: def-use rule on the IR"""
    rep = ctx.rep
    for name in ('a_real_norm2', 'a_real_norm3', 'a_real_norm', 'a_real_norm_'):
        fn = ctx.fn('math', name)
        if fn is None:
            rep.unk('R3d', name, 'anchor vanished')
            continue
        divs = [i for i in fn.instrs() if i.op == 'fdiv']
        if not divs:
            rep.unk('R3d', name, 'no division found: the scaling of the components is not recognised')
            continue
        bad = []
        for i in divs:
            num = i.ops[0]
            src = fn.defs.get(num.v) if num.k == 'reg' else None
            seen = 0
            # look through the conversions / negations / fabs between a component and the division
            while src is not None and seen < 6 and (src.op in ('fpext', 'fptrunc', 'fneg', 'bitcast') or
                                                   (src.op == 'call' and str(effects.callee_name(src) or '').startswith(('llvm.fabs', 'fabs')))):
                o = src.ops[0]
                src = fn.defs.get(o.v) if o.k == 'reg' else None
                num = o
                seen += 1
            if num.k in ('fp', 'int'):
                bad.append((i, 'the constant %s is divided by a computed value (a reciprocal of the scale overflows when the scale is subnormal)' % (num.v,)))
            elif src is not None and src.op in ('fdiv',):
                bad.append((i, 'a quotient is divided again'))
        if bad:
            rep.bad('R3d', name, '; '.join(sorted(set(b[1] for b in bad))), loc=fn.loc(bad[0][0]), key='%s: reciprocal of the scale' % name)
        else:
            rep.ok('R3d', name, '%d division(s), each of a component (parameter / loaded element, possibly through fabs) by the scale' % len(divs), loc=fn.loc(divs[0]))


def norm_loops(ctx, name, table):
    rep = ctx.rep
    fn = ctx.fn('math', name)
    if fn is None:
        rep.unk('R3', name, 'anchor vanished')
        return
    loc = fn.loc(fn.entry.instrs[0])
    try:
        strided = name.endswith('_')
        nest = looptx.nesting(fn)
        if len(nest) != 2:
            raise Unsupported('expected two loops, found %d' % len(nest))
        l1, l2 = nest
        if fn.dominates(l2[0], l1[0]):
            l1, l2 = l2, l1
        dom = RDom(table)
        n = dom.sym('n', integer=True, nonnegative=True)
        c = dom.sym('c', integer=True, positive=True)
        args = [n, Ptr('p', 0)] + ([c] if strided else [])
        roles = {}

        def bind1(ph, init):
            if ph.ty.is_fp:
                if 'w' in roles:
                    raise Unsupported('the first loop carries a second floating-point value (a NaN tracker?): outside the running-maximum template')
                roles['w'] = ph.res
                return dom.sym('W', real=True, nonnegative=True)
            if ph.ty.is_ptr:
                # cursor form: for (k = n, q = p; k; --k, ++q) ... *q
                roles['q'] = ph.res
                return Ptr('p', 8 * dom.sym('i', integer=True, nonnegative=True))
            roles['i'] = ph.res
            return dom.sym('k' if any(x.ty.is_ptr for x in ph.block.instrs if x.op == 'phi') else 'i', integer=True, nonnegative=True)
        tx = looptx.transformer(fn, lookup_in([fn.module]), args, dom, bind1, loop=(l1[0], l1[1], l1[2]))
        i, W = tx.sym[roles['i']], tx.sym[roles['w']]
        el = sp.Abs(dom.sym('p[8*i]', real=True))
        probs = []
        step = c if strided else 1

        def advance(tx_, roles_, nv_, idx, what):
            out = []
            if 'q' in roles_:
                q2 = nv_[roles_['q']]
                if not (isinstance(q2, Ptr) and q2.base == 'p' and alg.is_zero(sp.sympify(q2.off) - 8 * idx - 8 * step)):
                    out.append('%s cursor advances to %r' % (what, q2))
                kk = tx_.sym[roles_['i']]
                if not alg.is_zero(nv_[roles_['i']] - kk + 1):
                    out.append('%s count becomes %s' % (what, nv_[roles_['i']]))
                q0 = tx_.init[roles_['q']]
                if not (isinstance(q0, Ptr) and q0.base == 'p' and alg.is_zero(sp.sympify(q0.off))):
                    out.append('%s cursor starts at %r' % (what, q0))
                if not alg.is_zero(sp.sympify(tx_.init[roles_['i']]) - (n if not strided else tx_.init[roles_['i']])):
                    out.append('%s count starts at %s' % (what, tx_.init[roles_['i']]))
            else:
                if not alg.is_zero(nv_[roles_['i']] - idx - step):
                    out.append('%s index advances by %s' % (what, sp.expand(nv_[roles_['i']] - idx)))
                if not alg.is_zero(sp.sympify(tx_.init[roles_['i']])):
                    out.append('%s index starts at %s' % (what, tx_.init[roles_['i']]))
            return out

        def guarded(pc, roles_, tx_, idx, what):
            # the iteration runs under idx < n*step (or !=), cursor form under count != 0; either spelling
            bound = n * step
            for cc in pc:
                if not isinstance(cc, alg.Cond):
                    continue
                d = sp.expand(sp.sympify(cc.a) - sp.sympify(cc.b))
                r = cc.rel()
                if 'q' in roles_:
                    kk = tx_.sym[roles_['i']]
                    if (alg.is_zero(d - kk) and r in ('!=', '>')) or (alg.is_zero(d + kk) and r in ('!=', '<')):
                        return []
                elif (alg.is_zero(d - (idx - bound)) and r in ('<', '!=')) or (alg.is_zero(d - (bound - idx)) and r in ('>', '!=')):
                    return []
            return ['%s loop is not guarded by %s' % (what, 'count != 0' if 'q' in roles_ else 'index < %s' % bound)]
        saw_update = saw_keep = False
        for s1, nv in tx.backs:
            probs += advance(tx, roles, nv, dom.sym('i', integer=True, nonnegative=True), 'first')
            probs += guarded(s1.pc, roles, tx, dom.sym('i', integer=True, nonnegative=True), 'first')
            w2 = sp.sympify(nv[roles['w']])
            if w2 == el:
                saw_update = True
                if not any(isinstance(cc, alg.Cond) and cc.rel() == '>' and sp.sympify(cc.a) == el and sp.sympify(cc.b) == W for cc in s1.pc):
                    probs.append('maximum replaced without the test |p[i]| > w')
            elif w2 == W:
                saw_keep = True
            else:
                probs.append('running maximum becomes %s' % w2)
        if not (saw_update and saw_keep):
            probs.append('the first loop is not a running maximum of |p[i]|')
        # second loop: s += (p[i]/w)^2
        roles2 = {}
        if len(tx.exits) < 1:
            raise Unsupported('first loop has no exit')

        def bind2(ph, init):
            if ph.ty.is_fp:
                roles2['s'] = ph.res
                return dom.sym('Sacc', real=True)
            if ph.ty.is_ptr:
                roles2['q'] = ph.res
                return Ptr('p', 8 * dom.sym('j', integer=True, nonnegative=True))
            roles2['i'] = ph.res
            return dom.sym('k' if any(x.ty.is_ptr for x in ph.block.instrs if x.op == 'phi') else 'j', integer=True, nonnegative=True)
        # start behind loop 1 on the exit that continues to loop 2 (w > 0)
        done = False
        for s_ex, b_ex, p_ex in tx.exits:
            try:
                env = dict(s_ex.env)
                tx2 = looptx.transformer(fn, lookup_in([fn.module]), args, dom, bind2, loop=(l2[0], l2[1], l2[2]), pre_env=env, from_block=b_ex,
                                         from_prev=p_ex, pre_state=symx.State())
                done = True
                break
            except Unsupported:
                continue
        if not done:
            raise Unsupported('could not enter the second loop')
        j, S = dom.sym('j', integer=True, nonnegative=True), tx2.sym[roles2['s']]
        if len(tx2.backs) != 1:
            raise Unsupported('second loop has %d back paths' % len(tx2.backs))
        s2, nv2 = tx2.backs[0]
        pj = dom.sym('p[8*j]', real=True)
        if not alg.is_zero(sp.simplify(nv2[roles2['s']] - (S + (pj / W) ** 2))):
            probs.append('sum update %s, expected s + (p[j]/w)^2' % nv2[roles2['s']])
        probs += advance(tx2, roles2, nv2, j, 'second')
        probs += guarded(s2.pc, roles2, tx2, j, 'second')
        fin = tx2.finals or []
        if not any(r is not None and alg.is_zero(sp.simplify(sp.sympify(r) - sp.sqrt(S) * W)) for s_, r in fin):
            probs.append('does not return sqrt(s)*w')
        if probs:
            rep.bad('R3', name, '; '.join(sorted(set(probs))[:3]), loc=loc, key='%s: norm loops' % name)
        else:
            rep.ok('R3', name, 'w = max|p[i]| (running maximum), s = sum (p[i]/w)^2 with every ratio <= 1, returns sqrt(s)*w', loc=loc)
    except Unsupported as e:
        rep.unk('R3', name, str(e))


# ---------------------------------------------------------------- R4
def _elements(cn, dom, e, bases, strides):
    """the entry cells an expression reads -> {cell symbol: canonical element symbol}; cells are read at step t iff
    their offset is 8 * stride * t under the induction"""
    out = {}
    seen = {}
    for s in sp.sympify(e).free_symbols:
        bo = dom.entry_off.get(s.name)
        if bo is None or bo[0] not in bases:
            continue
        b = bo[0]
        if b in seen:
            raise Unsupported('two cells of %s per step' % b)
        seen[b] = s
        want = 8 * strides[bases.index(b)] * cn.t
        got = cn.at(bo[1])
        if not alg.is_zero(got - want):
            return None, 'step t reads %s at byte offset %s, expected %s' % (b, got.subs(cn.t, sp.Symbol('t')), want.subs(cn.t, sp.Symbol('t')))
        out[s] = sp.Symbol('E_' + b, real=True)
    return out, None


def reductions(ctx, table):
    rep = ctx.rep
    # name -> (pointer params, stride params, term builder)
    T = {
        'a_real_sum': (1, False, lambda e, aux: e[0]), 'a_real_sum_': (1, True, lambda e, aux: e[0]),
        'a_real_sum1': (1, False, lambda e, aux: sp.Abs(e[0])), 'a_real_sum1_': (1, True, lambda e, aux: sp.Abs(e[0])),
        'a_real_sum2': (1, False, lambda e, aux: e[0] ** 2), 'a_real_sum2_': (1, True, lambda e, aux: e[0] ** 2),
        'a_real_mean': (1, False, lambda e, aux: e[0] / aux), 'a_real_mean_': (1, True, lambda e, aux: e[0] / aux),
        'a_real_dot': (2, False, lambda e, aux: e[0] * e[1]), 'a_real_dot_': (2, True, lambda e, aux: e[0] * e[1]),
    }
    for name, (np_, strided, term) in sorted(T.items()):
        fn = ctx.fn('math', name)
        if fn is None:
            rep.unk('R4', name, 'anchor vanished')
            continue
        loc = fn.loc(fn.entry.instrs[0])
        try:
            dom = RDom(table)
            n = dom.sym('n', integer=True, nonnegative=True)
            bases = ['P', 'Q'][:np_]
            strides = [dom.sym('c%d' % k, integer=True, positive=True) if strided else sp.Integer(1) for k in range(np_)]
            if name in ('a_real_sum_', 'a_real_sum1_', 'a_real_sum2_', 'a_real_mean_'):
                args = [n, Ptr('P', 0), strides[0]]
            elif name == 'a_real_dot_':
                args = [n, Ptr('P', 0), strides[0], Ptr('Q', 0), strides[1]]
            elif np_ == 2:
                args = [n, Ptr('P', 0), Ptr('Q', 0)]
            else:
                args = [n, Ptr('P', 0)]
            cnt = [0]

            def bind(ph, init, dom=dom, cnt=cnt):
                cnt[0] += 1
                if ph.ty.is_ptr:
                    if not isinstance(init, Ptr):
                        raise Unsupported('pointer loop variable without a base')
                    return Ptr(init.base, dom.sym('o%d' % cnt[0], integer=True))
                if ph.ty.is_fp:
                    return dom.sym('Racc', real=True)
                return dom.sym('k%d' % cnt[0], integer=True)
            tx = looptx.transformer(fn, lookup_in([fn.module]), args, dom, bind)
            cn, acc = counted.from_alg(tx, n)
            if acc is None:
                raise Unsupported('no accumulator')
            if tx.finals is None or not tx.finals:
                raise Unsupported('no path from the loop to the return')
            if cn.lo not in (0, 1):
                raise Unsupported('the loop is reached for n >= %d only' % cn.lo)
            Racc = tx.sym[acc]
            E = [sp.Symbol('E_' + b, real=True) for b in bases]
            want_term = term(E, n)
            probs = []

            def added(st, got, what):
                """how many terms the path adds to the accumulator: 0, 1 or None (reported)"""
                got = sp.sympify(got)
                diff = sp.expand(got - Racc)
                if Racc in diff.free_symbols:
                    probs.append('%s: accumulator <- %s' % (what, got))
                    return None
                if alg.is_zero(diff):
                    return 0
                m, why = _elements(cn, dom, diff, bases, strides)
                if m is None:
                    probs.append(why)
                    return None
                if len(m) != len(bases):
                    probs.append('%s: adds %s, expected %s' % (what, diff, want_term))
                    return None
                dd = diff.subs(m, simultaneous=True)
                ok_ = alg.is_zero(sp.simplify(dd - want_term))
                if not ok_ and isinstance(want_term, sp.Abs):
                    sgn = None
                    for cc in st.pc:
                        if isinstance(cc, alg.Cond) and cc.kind == 'fcmp':
                            a_, b_ = sp.sympify(cc.a).subs(m, simultaneous=True), sp.sympify(cc.b).subs(m, simultaneous=True)
                            r_ = cc.rel()
                            if b_ == E[0] and a_ == 0:
                                a_, b_, r_ = b_, a_, {'<': '>', '>': '<', '<=': '>=', '>=': '<='}.get(r_, r_)
                            if a_ == E[0] and b_ == 0:
                                sgn = {'<': -1, '<=': -1, '>': 1, '>=': 1}.get(r_)
                    ok_ = sgn is not None and alg.is_zero(dd - sgn * E[0])
                if not ok_:
                    probs.append('%s: adds %s, expected %s' % (what, dd, want_term))
                    return None
                return 1
            probs += cn.verdicts([(counted.alg_conds(s1.pc, cn.psyms), added(s1, nv[acc], 'repeating pass')) for s1, nv in tx.backs],
                                 [(counted.alg_conds(s_.pc, cn.psyms), added(s_, r, 'leaving pass')) for s_, r in tx.finals])
            if not alg.is_zero(sp.sympify(tx.init[acc])):
                probs.append('accumulator starts at %s' % tx.init[acc])
            for s_, r in tx.pre_rets:
                if not alg.is_zero(sp.sympify(r)):
                    probs.append('returns %s for n < %d' % (r, cn.lo))
            if probs:
                rep.bad('R4', name, '; '.join(sorted(set(probs))[:3]), loc=loc, key='%s: reduction' % name)
            else:
                rep.ok('R4', name, 'r += %s over exactly n elements%s (induction on the loop variables, guard decided on the remaining count); returns r'
                       % (term([sp.Symbol('p[i]'), sp.Symbol('q[i]')], sp.Symbol('n')), ' with the given strides' if strided else ''),
                       loc=loc, sample={'fn': name})
        except Unsupported as e:
            rep.unk('R4', name, str(e))
    # the contiguous copy is one block copy of n elements
    fn = ctx.fn('math', 'a_real_copy')
    if fn is None:
        rep.unk('R4', 'a_real_copy', 'anchor vanished')
    else:
        loc = fn.loc(fn.entry.instrs[0])
        try:
            dom = RDom(table)
            n = dom.sym('n', integer=True, nonnegative=True)
            lv = symx.Interp(dom, lambda nm: None).run(fn, [n, Ptr('D', 0), Ptr('S', 0)])
            probs = []
            for lf in lv:
                cl = [c for c in lf.calls if isinstance(c, tuple) and c[0] in ('a_copy', 'a_move') or (isinstance(c, tuple) and str(c[0]).startswith('llvm.memcpy'))]
                if len(cl) != 1:
                    probs.append('%d block copies' % len(cl))
                    continue
                a = cl[0][1]
                if not (isinstance(a[0], Ptr) and a[0] == Ptr('D', 0) and isinstance(a[1], Ptr) and a[1] == Ptr('S', 0) and alg.is_zero(sp.sympify(a[2]) - 8 * n)):
                    probs.append('copies (%s, %s, %s), expected (dst, src, %d * n)' % (a[0], a[1], a[2], 8))
            if probs or not lv:
                rep.bad('R4', 'a_real_copy', '; '.join(sorted(set(probs))) or 'no path', loc=loc, key='a_real_copy: block copy')
            else:
                rep.ok('R4', 'a_real_copy', 'one block copy of sizeof(a_real) * n bytes from src to dst', loc=loc)
        except Unsupported as e:
            rep.unk('R4', 'a_real_copy', str(e))
    # element-wise helpers
    E = {'a_real_copy_': 'copy', 'a_real_swap': 'swap', 'a_real_swap_': 'swap', 'a_real_fill': 'fill', 'a_real_zero': 'zero'}
    for name, kind in sorted(E.items()):
        fn = ctx.fn('math', name)
        if fn is None:
            rep.unk('R4', name, 'anchor vanished')
            continue
        loc = fn.loc(fn.entry.instrs[0])
        try:
            dom = RDom(table)
            n = dom.sym('n', integer=True, nonnegative=True)
            v = dom.sym('v', real=True)
            strided = name in ('a_real_copy_', 'a_real_swap_')
            c1 = dom.sym('c1', integer=True, positive=True) if strided else sp.Integer(1)
            c2 = dom.sym('c2', integer=True, positive=True) if strided else sp.Integer(1)
            args = {'a_real_copy_': [n, Ptr('D', 0), c1, Ptr('S', 0), c2], 'a_real_swap': [n, Ptr('D', 0), Ptr('S', 0)],
                    'a_real_swap_': [n, Ptr('D', 0), c1, Ptr('S', 0), c2], 'a_real_fill': [n, Ptr('D', 0), v], 'a_real_zero': [n, Ptr('D', 0)]}[name]
            cnt = [0]

            def bind(ph, init, dom=dom, cnt=cnt):
                cnt[0] += 1
                if ph.ty.is_ptr:
                    if not isinstance(init, Ptr):
                        raise Unsupported('pointer loop variable without a base')
                    return Ptr(init.base, dom.sym('o%d' % cnt[0], integer=True))
                if ph.ty.is_fp:
                    raise Unsupported('floating-point loop variable')
                return dom.sym('k%d' % cnt[0], integer=True)
            tx = looptx.transformer(fn, lookup_in([fn.module]), args, dom, bind)
            cn, _acc = counted.from_alg(tx, n)
            if tx.finals is None or not tx.finals:
                raise Unsupported('no path from the loop to the return')
            if cn.lo not in (0, 1):
                raise Unsupported('the loop is reached for n >= %d only' % cn.lo)
            probs = []
            stride = {'D': c1, 'S': c2}

            def cell_of(val, base):
                """is val the entry content of base at step t?"""
                if not isinstance(val, sp.Symbol):
                    return False
                bo = dom.entry_off.get(val.name)
                return bo is not None and bo[0] == base and alg.is_zero(cn.at(bo[1]) - 8 * stride[base] * cn.t)

            def effect(st, what):
                """how many elements the path handles: 0, 1 or None (reported)"""
                W = {k: val for k, val in st.store.items() if k[0] in ('D', 'S') and tx.pre.store.get(k) != val}
                if not W:
                    return 0
                seen = {}
                for k, (val, ty) in W.items():
                    if k[0] in seen:
                        raise Unsupported('two cells of %s written per step' % k[0])
                    seen[k[0]] = val
                    got = cn.at(st.offs[k])
                    if not alg.is_zero(got - 8 * stride[k[0]] * cn.t):
                        probs.append('step t writes %s at byte offset %s, expected %s' % (k[0], got.subs(cn.t, sp.Symbol('t')), 8 * stride[k[0]] * sp.Symbol('t')))
                        return None
                if 'D' not in seen:
                    probs.append('%s: the destination is not written' % what)
                    return None
                if kind == 'copy':
                    if 'S' in seen:
                        probs.append('copy writes the source')
                        return None
                    if not cell_of(seen['D'], 'S'):
                        probs.append('destination cell receives %s' % (seen['D'],))
                        return None
                elif kind == 'swap':
                    if not cell_of(seen['D'], 'S'):
                        probs.append('left cell receives %s' % (seen['D'],))
                        return None
                    if 'S' not in seen or not cell_of(seen['S'], 'D'):
                        probs.append('right cell receives %s' % (seen.get('S'),))
                        return None
                else:
                    want = v if kind == 'fill' else 0
                    if not alg.is_zero(sp.sympify(seen['D']) - want):
                        probs.append('cell receives %s, expected %s' % (seen['D'], want))
                        return None
                return 1
            probs += cn.verdicts([(counted.alg_conds(s1.pc, cn.psyms), effect(s1, 'repeating pass')) for s1, nv in tx.backs],
                                 [(counted.alg_conds(s_.pc, cn.psyms), effect(s_, 'leaving pass')) for s_, r in tx.finals])
            for s_, r in tx.pre_rets:
                if any(k[0] in ('D', 'S') for k in s_.store):
                    probs.append('writes for n < %d' % cn.lo)
            if probs:
                rep.bad('R4', name, '; '.join(sorted(set(probs))[:3]), loc=loc, key='%s: element-wise' % name)
            else:
                rep.ok('R4', name, '%s of exactly n elements, one cell per step (induction on the loop variables, guard decided on the remaining count)' % kind, loc=loc)
        except Unsupported as e:
            rep.unk('R4', name, str(e))


# ---------------------------------------------------------------- R5
def shifts(ctx, table):
    rep = ctx.rep
    n = sp.Symbol('n', integer=True, nonnegative=True)
    x = sp.Symbol('x', real=True)
    # (function, args, expected non-empty effects: list of ('move', dst_off, src_off, bytes) / ('store', off, value))
    specs = {
        'a_real_push_fore': ([Ptr('p', 0), n, x], [('move', 8, 0, 8 * (n - 1)), ('store', 0, x)]),
        'a_real_push_back': ([Ptr('p', 0), n, x], [('move', 0, 8, 8 * (n - 1)), ('store', 8 * (n - 1), x)]),
        'a_real_roll_fore': ([Ptr('p', 0), n], [('move', 0, 8, 8 * (n - 1)), ('store', 8 * (n - 1), sp.Symbol('p[0]', real=True))]),
        'a_real_roll_back': ([Ptr('p', 0), n], [('move', 8, 0, 8 * (n - 1)), ('store', 0, sp.Symbol('p[8*n - 8]', real=True))]),
    }
    for name, (args, want) in sorted(specs.items()):
        fn = ctx.fn('math', name)
        if fn is None:
            rep.unk('R5', name, 'anchor vanished')
            continue
        loc = fn.loc(fn.entry.instrs[0])
        try:
            dom = RDom(table)
            dom.syms['n'] = n
            dom.syms['x'] = x
            lv = symx.Interp(dom, lookup_in([fn.module])).run(fn, args)
            probs = []
            seen = set()
            for lf in lv:
                c = [cc for cc in lf.pc if isinstance(cc, alg.Cond)]
                if len(c) == 1 and c[0].rel() == '==' and sp.sympify(c[0].a) == n:
                    seen.add('empty')
                    if lf.calls or any(k[0] == 'p' for k in lf.store):
                        probs.append('n == 0 has effects')
                    continue
                seen.add('nonempty')
                mv = [cl for cl in lf.calls if cl[0] == 'a_move']
                wm = [w for w in want if w[0] == 'move'][0]
                if not (len(mv) == 1 and isinstance(mv[0][1][0], Ptr) and alg.is_zero(sp.sympify(mv[0][1][0].off) - wm[1])
                        and alg.is_zero(sp.sympify(mv[0][1][1].off) - wm[2]) and alg.is_zero(sp.sympify(mv[0][1][2]) - wm[3])):
                    probs.append('block move %s, expected a_move(p+%s, p+%s, %s)' % (mv, wm[1], wm[2], wm[3]))
                ws = [w for w in want if w[0] == 'store'][0]
                st = [(lf.offs.get(k, k[1]), v[0]) for k, v in lf.store.items() if k[0] == 'p']
                okst = len(st) == 1 and alg.is_zero(sp.sympify(st[0][0] if not isinstance(st[0][0], str) else sp.sympify(st[0][0])) - ws[1]) and \
                    (st[0][1] == ws[2] or str(st[0][1]) == str(ws[2]) or (not isinstance(st[0][1], symx.Top) and alg.is_zero(sp.sympify(st[0][1]) - ws[2])))
                if not okst:
                    probs.append('stores %s, expected p[%s] = %s' % (st, ws[1], ws[2]))
            if seen != {'empty', 'nonempty'}:
                probs.append('paths: %s' % sorted(seen))
            if probs:
                rep.bad('R5', name, '; '.join(sorted(set(probs))[:3])[:500], loc=loc, key='%s: shift' % name)
            else:
                rep.ok('R5', name, 'one block move of n-1 cells and one store; no effect for n == 0', loc=loc)
        except Unsupported as e:
            rep.unk('R5', name, str(e))
    # block forms: extents inside [0, block_n)
    for name in ('a_real_push_fore_', 'a_real_push_back_', 'a_real_roll_fore_', 'a_real_roll_back_'):
        fn = ctx.fn('math', name)
        if fn is None:
            rep.unk('R5', name, 'anchor vanished')
            continue
        loc = fn.loc(fn.entry.instrs[0])
        try:
            dom = RDom(table)
            bn = dom.sym('bn', integer=True, nonnegative=True)
            cn = dom.sym('cn', integer=True, nonnegative=True)
            lv = symx.Interp(dom, lookup_in([fn.module])).run(fn, [Ptr('B', 0), bn, Ptr('C', 0), cn])
            probs = []
            for lf in lv:
                total = sp.Integer(0)
                for cname, a in lf.calls:
                    if cname in ('a_move', 'a_copy'):
                        d, s, sz = a
                        if isinstance(d, Ptr) and d.base == 'B':
                            # destination extent inside the block: off + size <= 8*bn, established symbolically when m = bn - n
                            end = sp.expand(sp.sympify(d.off) + sp.sympify(sz))
                            if not end.has(sp.Function('i_urem')) and sp.simplify(end - 8 * bn).is_positive:
                                probs.append('%s writes up to byte %s of a block of 8*bn' % (cname, end))
            if probs:
                rep.bad('R5', name, '; '.join(sorted(set(probs))[:2]), loc=loc, key='%s: extent' % name)
            else:
                rep.ok('R5', name, '%d paths; every block write ends at or before 8*block_n (symbolic extents)' % len(lv), loc=loc)
        except Unsupported as e:
            rep.unk('R5', name, str(e))


# ---------------------------------------------------------------- DIV0
def div0(ctx):
    """integer divisions in src/math.c: the divisor must be non-zero on every path (guarded, or a non-zero constant)"""
    rep = ctx.rep
    m = ctx.module('math')
    for fname, fn in sorted(m.functions.items()):
        if fn.error or not fname.startswith('a_real_'):
            continue
        for i in fn.instrs():
            if i.op not in ('udiv', 'urem', 'sdiv', 'srem'):
                continue
            d = i.ops[1]
            sym = '%s@%s' % (fname, fn.line(i))
            loc = fn.loc(i)
            if d.k == 'int':
                if d.v == 0:
                    rep.bad('DIV0', sym, 'division by the constant 0', loc=loc, key='%s: div0' % fname)
                else:
                    rep.ok('DIV0', sym, 'constant non-zero divisor', loc=loc)
                continue
            if d.k != 'reg':
                rep.unk('DIV0', sym, 'divisor form', loc=loc)
                continue
            q = ('atom', 'zero', d.v)
            edges = path.edges_entailing(fn, q)
            guarded = path.all_paths_cross(fn, fn.entry, i.block, edges) and i.block is not fn.entry
            if guarded:
                rep.ok('DIV0', sym, 'every path to the division crosses an edge that establishes divisor != 0', loc=loc)
                continue
            # loop guard on the same register: the division sits in a loop whose condition is `while (b)`
            is_param = any(pn == d.v for t, pn in fn.params)
            if is_param:
                rep.bad('DIV0', sym, 'the divisor is the unconstrained parameter %s: a zero length divides by zero' % d.v, loc=loc, key='%s: divisor %s may be zero' % (fname, d.v))
            else:
                # phi of a loop whose continuation guard tests it (Euclid): entering the body implies non-zero
                dd = fn.defs.get(d.v)
                if dd is not None and dd.op == 'phi':
                    ed = path.edges_entailing(fn, q)
                    if any(e[1] is i.block or fn.dominates(e[1], i.block) for e in ed):
                        rep.ok('DIV0', sym, 'loop guard establishes divisor != 0 on entry to the body', loc=loc)
                        continue
                rep.unk('DIV0', sym, 'divisor %s not shown non-zero' % d.v, loc=loc)


def conversions(ctx, table):
    """polar/spherical conversions are compositions of hypot/atan2/sin/cos in the documented roles"""
    rep = ctx.rep
    fn = ctx.fn('math', 'a_real_cart2pol')
    f2 = ctx.fn('math', 'a_real_pol2cart')
    for f, args, want in ((fn, ['x', 'y'], None), (f2, ['rho', 'theta'], None)):
        if f is None:
            rep.unk('R6', 'cart2pol/pol2cart', 'anchor vanished')
            return
    try:
        dom = RDom(table)
        x, y = dom.sym('x', real=True), dom.sym('y', real=True)
        lv = symx.Interp(dom, lambda n: None, inline=lambda n: False).run(fn, [x, y, Ptr('rho', 0), Ptr('theta', 0)])
        st = lv[0].store
        r = st.get(('rho', 0))
        t = st.get(('theta', 0))
        okc = r is not None and t is not None and alg.is_zero(sp.sympify(r[0]) ** 2 - x ** 2 - y ** 2) and t[0] == sp.Function('atan2')(y, x)
        (rep.ok if okc else rep.bad)('R6', 'a_real_cart2pol', 'rho = hypot(x,y), theta = atan2(y,x)' if okc else 'stores (%s, %s)' % (r, t),
                                     **({} if okc else {'key': 'a_real_cart2pol: formula'}))
        dom = RDom(table)
        rho, th = dom.sym('rho', real=True), dom.sym('theta', real=True)
        lv = symx.Interp(dom, lambda n: None).run(f2, [rho, th, Ptr('x', 0), Ptr('y', 0)])
        st = lv[0].store
        okp = alg.is_zero(sp.sympify(st[('x', 0)][0]) - rho * sp.cos(th)) and alg.is_zero(sp.sympify(st[('y', 0)][0]) - rho * sp.sin(th))
        (rep.ok if okp else rep.bad)('R6', 'a_real_pol2cart', 'x = rho cos(theta), y = rho sin(theta)' if okp else 'formula differs',
                                     **({} if okp else {'key': 'a_real_pol2cart: formula'}))
    except (Unsupported, KeyError) as e:
        rep.unk('R6', 'cart2pol/pol2cart', str(e))


# ---------------------------------------------------------------- R5c: contents of the block forms (symbolic index query over several arrays)
def block_contents(ctx, table):
    """push_fore_/push_back_ put the last min(cache_n, block_n) cache elements, in order, in front of / behind the shifted block;
    roll_fore_/roll_back_ rotate the block by shift_n mod block_n through the shift buffer.  Decided for a fresh position of the
    result by walking the block effects backwards (Fourier-Motzkin case splits); the block sizes are symbols."""
    import fm, lin
    rep = ctx.rep
    bn = sp.Symbol('bn', integer=True, nonnegative=True)
    cn = sp.Symbol('cn', integer=True, nonnegative=True)
    pos = sp.Symbol('pos', integer=True, nonnegative=True)
    L = fm.le

    def spec(name, s):
        """[(case conds, [(piece conds, (array, index))])]; s = shift_n mod block_n for the rolls"""
        if name == 'a_real_push_back_':
            out = []
            for cs, n_ in (([L(cn, bn)], cn), ([L(bn + 1, cn)], bn)):
                out.append((cs, [([L(pos, bn - n_ - 1)], ('B', pos + n_)), ([L(bn - n_, pos)], ('C', cn - bn + pos))]))
            return out
        if name == 'a_real_push_fore_':
            out = []
            for cs, n_ in (([L(cn, bn)], cn), ([L(bn + 1, cn)], bn)):
                out.append((cs, [([L(pos, n_ - 1)], ('C', cn - n_ + pos)), ([L(n_, pos)], ('B', pos - n_))]))
            return out
        if name == 'a_real_roll_fore_':
            return [([], [([L(pos, bn - s - 1)], ('B', pos + s)), ([L(bn - s, pos)], ('B', pos - (bn - s)))])]
        if name == 'a_real_roll_back_':
            return [([], [([L(pos, s - 1)], ('B', pos + (bn - s))), ([L(s, pos)], ('B', pos - s))])]
    for name in ('a_real_push_fore_', 'a_real_push_back_', 'a_real_roll_fore_', 'a_real_roll_back_'):
        fn = ctx.fn('math', name)
        if fn is None:
            rep.unk('R5c', name, 'anchor vanished')
            continue
        loc = fn.loc(fn.entry.instrs[0])
        try:
            dom = RDom(table)
            dom.syms['bn'], dom.syms['cn'] = bn, cn
            second = 'C' if 'push' in name else 'T'
            lv = symx.Interp(dom, lookup_in([fn.module])).run(fn, [Ptr('B', 0), bn, Ptr(second, 0), cn])
            probs, nq = [], 0
            for lf in lv:
                cons0 = [L(0, bn), L(0, cn)]
                okc = True
                later = []
                for c in lf.pc:
                    cc = lin.cond_constraints(c)
                    if cc is None:
                        okc = False      # not linear (e.g. on the remainder): go on without it
                        continue
                    if len(cc) != 1:
                        later.append(cc)
                        continue
                    cons0 += cc[0]
                for cc in later:
                    # a disequality: keep the side that is possible at all (n != 0 with n >= 0 is n >= 1)
                    feas = [a_ for a_ in cc if not fm.unsat(cons0 + a_)]
                    if len(feas) == 1:
                        cons0 += feas[0]
                    else:
                        okc = False
                if not okc:
                    # a path condition that is not linear (e.g. on the remainder): keep going without it
                    pass
                ops = []
                s_sym = None
                for cname, a in lf.calls:
                    if cname not in ('a_move', 'a_copy'):
                        continue
                    d, s_, sz = a
                    n_el = sp.expand(sp.sympify(sz) / 8)
                    ops.append(((d.base, sp.expand(sp.sympify(d.off) / 8)), (s_.base, sp.expand(sp.sympify(s_.off) / 8)), n_el))
                # the remainder shift_n % block_n is an uninterpreted term: name it and bound it
                rems = set()
                for o in ops:
                    for e in (o[0][1], o[1][1], o[2]):
                        rems |= set(f_ for f_ in e.atoms(sp.Function) if 'urem' in str(f_.func))
                if len(rems) > 1:
                    raise Unsupported('several remainders')
                sub = {}
                if rems:
                    s_sym = sp.Symbol('s', integer=True, nonnegative=True)
                    sub = {list(rems)[0]: s_sym}
                    cons0 += [L(s_sym, bn - 1), L(1, bn)]
                ops = [((d[0], d[1].subs(sub)), (s_[0], s_[1].subs(sub)), n_.subs(sub)) for d, s_, n_ in ops]
                if not ops:
                    # no effect: the result is the old block
                    ops = []
                for cconds, pieces in spec(name, s_sym if s_sym is not None else sp.Integer(0)):
                    cons = cons0 + cconds
                    if fm.unsat(cons):
                        continue
                    for pconds, want in pieces:
                        c2 = cons + [L(0, pos), L(pos, bn - 1)] + pconds
                        if fm.unsat(c2):
                            continue
                        # walk backwards
                        alts = [(c2, ('B', pos))]
                        for (darr, a_), (sarr, b_), n_ in reversed(ops):
                            nxt = []
                            for cs_, (arr, x_) in alts:
                                if arr != darr:
                                    nxt.append((cs_, (arr, x_)))
                                    continue
                                ins = cs_ + [L(a_, x_), L(x_, a_ + n_ - 1)]
                                if not fm.unsat(ins):
                                    nxt.append((ins, (sarr, sp.expand(x_ - a_ + b_))))
                                lo = cs_ + [L(x_, a_ - 1)]
                                if not fm.unsat(lo):
                                    nxt.append((lo, (arr, x_)))
                                hi = cs_ + [L(a_ + n_, x_)]
                                if not fm.unsat(hi):
                                    nxt.append((hi, (arr, x_)))
                            alts = nxt
                        for cs_, (arr, x_) in alts:
                            nq += 1
                            same = arr == want[0] and fm.entails(cs_, L(x_, want[1])) and fm.entails(cs_, L(want[1], x_))
                            if not same:
                                probs.append('position pos of the block ends up with %s[%s], expected %s[%s]' % (arr, x_, want[0], sp.expand(want[1])))
            if probs:
                rep.bad('R5c', name, '; '.join(sorted(set(probs))[:2]), loc=loc, key='%s: contents' % name)
            else:
                rep.ok('R5c', name, 'every position of the block receives the element the definition prescribes (%d symbolic queries, sizes symbolic)' % nq, loc=loc)
        except (Unsupported, fm.NonLinear) as e:
            rep.unk('R5c', name, str(e), loc=loc)


def conversions2(ctx, table):
    """R6 (continued): spherical pair and the degree/radian scalings"""
    rep = ctx.rep
    at2 = sp.Function('atan2')
    for name in ('a_real_cart2sph', 'a_real_sph2cart', 'a_real_rad2deg', 'a_real_deg2rad'):
        fn = ctx.fn('math', name)
        if fn is None:
            rep.unk('R6', name, 'anchor vanished')
            continue
        loc = fn.loc(fn.entry.instrs[0])
        try:
            dom = RDom(table)
            if name == 'a_real_cart2sph':
                x, y, z = dom.sym('x', real=True), dom.sym('y', real=True), dom.sym('z', real=True)
                lv = symx.Interp(dom, lambda n: None, inline=lambda n: False).run(fn, [x, y, z, Ptr('rho', 0), Ptr('theta', 0), Ptr('alpha', 0)])
                st = lv[0].store
                rho, th, al = [sp.sympify(st[(k, 0)][0]) for k in ('rho', 'theta', 'alpha')]
                r = sp.sqrt(x ** 2 + y ** 2)
                ok = len(lv) == 1 and alg.is_zero(rho ** 2 - x ** 2 - y ** 2 - z ** 2) and th == at2(y, x) and \
                    al.func == at2 and al.args[0] == z and alg.is_zero(sp.sympify(al.args[1]) ** 2 - r ** 2)
                msg = 'rho = hypot(hypot(x,y),z), theta = atan2(y,x), alpha = atan2(z, hypot(x,y))'
                got = '(%s, %s, %s)' % (rho, th, al)
            elif name == 'a_real_sph2cart':
                rho, th, al = dom.sym('rho', real=True), dom.sym('theta', real=True), dom.sym('alpha', real=True)
                lv = symx.Interp(dom, lambda n: None).run(fn, [rho, th, al, Ptr('x', 0), Ptr('y', 0), Ptr('z', 0)])
                st = lv[0].store
                x, y, z = [sp.sympify(st[(k, 0)][0]) for k in ('x', 'y', 'z')]
                ok = len(lv) == 1 and alg.is_zero(x - rho * sp.cos(al) * sp.cos(th)) and alg.is_zero(y - rho * sp.cos(al) * sp.sin(th)) and alg.is_zero(z - rho * sp.sin(al))
                msg = 'x = rho cos(alpha) cos(theta), y = rho cos(alpha) sin(theta), z = rho sin(alpha)'
                got = '(%s, %s, %s)' % (x, y, z)
            else:
                x = dom.sym('x', real=True)
                lv = symx.Interp(dom, lambda n: None).run(fn, [x])
                r = sp.sympify(lv[0].ret)
                want = x * 180 / sp.pi if name == 'a_real_rad2deg' else x * sp.pi / 180
                ok = len(lv) == 1 and alg.is_zero(sp.simplify(r - want))
                msg = 'x * 180/pi' if name == 'a_real_rad2deg' else 'x * pi/180'
                got = str(r)
            (rep.ok if ok else rep.bad)('R6', name, msg if ok else 'computes %s, expected %s' % (got, msg), loc=loc, **({} if ok else {'key': '%s: formula' % name}))
        except (Unsupported, KeyError, IndexError) as e:
            rep.unk('R6', name, str(e), loc=loc)
