"""C10 - complex arithmetic and functions (DESIGN 4 C10).
M0 constant table, CFG-0/1 switch locality and libm binding (both widths), CX-1 elementary fallbacks = defining
exponential forms, CX-2 field arithmetic, CX-4 compositions on the entry value (incl. in-place update hazards),
CX-6 principal square root signs."""
import json, os, re
import sympy as sp
import symx, alg, consts, llir, irx, effects
from symx import Ptr, Unsupported, TOP
from sympy.core.function import AppliedUndef

LEVEL = 'other'
SPEC = json.load(open(os.path.join(os.path.dirname(__file__), '..', 'specs', 'complex_defs.json')))
X, Y = sp.Symbol('x', real=True), sp.Symbol('y', real=True)
U, V = sp.Symbol('u', real=True), sp.Symbol('v', real=True)
R = sp.Symbol('r', real=True)
I = sp.I

SWITCHED = dict((k, v) for k, v in SPEC['binding']['switch_to_function'].items())
# the source undefines this switch unconditionally (src/complex.c: "#undef A_HAVE_CATANH"): always the fallback
ALWAYS_FALLBACK = {'CATANH': 'src/complex.c undefines A_HAVE_CATANH before a_complex_atanh_ unconditionally'}


def lookup_in(mods):
    def lk(name):
        for m in mods:
            f = m.functions.get(name)
            if f is not None and not f.error:
                return f
        return None
    return lk


def F2(name, *args):
    return (sp.Function(name + '.re')(*args), sp.Function(name + '.im')(*args))


def flat(args):
    out = []
    for a in args:
        if isinstance(a, (tuple, list)):
            out.extend(flat(a))
        else:
            out.append(a)
    return out


class CDom(alg.Alg):
    """in-place complex functions that are not inlined become uninterpreted pairs applied to the CURRENT value of *ctx"""

    def __init__(self, table=None, opaque_fns=()):
        alg.Alg.__init__(self, consts=table or {})
        self.opaque_fns = set(opaque_fns)
        self.applied = []

    def call(self, name, args, ins, interp, st, fn):
        base = name
        if base in ('hypot', 'hypotf', 'a_real_norm2') and len(args) == 2:
            return sp.sqrt(args[0] ** 2 + args[1] ** 2)
        if base in ('a_complex_abs',) and len(args) == 2 and base in self.opaque_fns:
            return sp.sqrt(args[0] ** 2 + args[1] ** 2)
        if base in ('atan2', 'atan2f', 'a_real_atan2') and len(args) == 2:
            return sp.Function('atan2')(args[0], args[1])
        if base in ('log1p', 'log1pf', 'a_real_log1p'):
            return sp.log(1 + args[0])
        if base in ('asinh', 'acosh', 'atanh', 'asinhf', 'acoshf', 'atanhf', 'a_real_asinh', 'a_real_acosh', 'a_real_atanh', 'a_real_expm1', 'expm1', 'expm1f'):
            return sp.Function(base.replace('a_real_', '').rstrip('f') if not base.startswith('a_real_') else base.replace('a_real_', ''))(args[0])
        return alg.Alg.call(self, name, args, ins, interp, st, fn)

    def opaque_call(self, name, args, ins, interp, st):
        fa = flat(args)
        m = re.fullmatch(r'c(sqrt|pow|exp|log|sin|cos|tan|sinh|cosh|tanh|asin|acos|atan|asinh|acosh|atanh)(f|l)?', name)
        if m:
            return F2(name, *fa)
        if name.startswith('a_complex_') and args and isinstance(args[0], Ptr):
            p = args[0]
            ty = llir.DOUBLE
            re_ = interp.load(Ptr(p.base, p.off), ty, st)
            im_ = interp.load(Ptr(p.base, p.off + 8), ty, st)
            rest = flat(args[1:])
            if name.endswith('_real') and not name.endswith('_'):
                # a_complex_F_real(ctx, x): writes *ctx from the scalar only
                r, i = F2(name, *rest)
            else:
                r, i = F2(name, re_, im_, *rest)
            self.applied.append((name, re_, im_, rest))
            interp.store(Ptr(p.base, p.off), r, ty, st)
            interp.store(Ptr(p.base, p.off + 8), i, ty, st)
            return None
        if name.startswith('a_complex_'):
            return sp.Function(name)(*fa)
        return NotImplemented


# ---------------------------------------------------------------- normal forms
class _TO(Exception):
    pass


def timed(fn, secs, default):
    """run fn() under a wall-clock limit (sympy simplification of a *failing* identity can take minutes)"""
    import signal

    def h(sig, frm):
        raise _TO()
    old = signal.signal(signal.SIGALRM, h)
    signal.alarm(secs)
    try:
        return fn()
    except _TO:
        return default
    finally:
        signal.alarm(0)
        signal.signal(signal.SIGALRM, old)


def show(e):
    return str(timed(lambda: sp.simplify(e), 4, e))[:300]


def canon(e):
    """canonicalise the arguments of uninterpreted atoms bottom-up so that equal arguments become identical"""
    e = sp.sympify(e)
    if not e.args:
        return e
    args = [canon(a) for a in e.args]
    if isinstance(e, AppliedUndef):
        args = [sp.simplify(a) for a in args]
    return e.func(*args)


def zero(e):
    e = timed(lambda: canon(e), 10, e)
    if alg.is_zero(e):
        return True
    try:
        return timed(lambda: sp.simplify(e) == 0, 10, False)
    except Exception:
        return False


def enf_zero(e, assume_pos=()):
    """exponential normal form: rewrite sin/cos/sinh/cosh/tanh/exp of Z-linear forms into Laurent polynomials in independent
    symbols; then the rational function must cancel to 0"""
    e = sp.sympify(e).rewrite(sp.exp)
    e = sp.expand(e, power_exp=True)
    e = sp.powsimp(e)
    syms = {}

    def repl(ex):
        arg = sp.expand(ex.args[0])
        # decompose arg = sum c_k * t_k  with t_k in {x, y, I*x, I*y}
        out = sp.Integer(1)
        for term in sp.Add.make_args(arg):
            c, rest = term.as_coeff_Mul()
            if not (c.is_Rational):
                return None
            key = sp.srepr(rest)
            if key not in syms:
                syms[key] = sp.Symbol('E%d' % len(syms), positive=True)
            if c.is_Integer:
                out *= syms[key] ** c
            else:
                # half-integers: introduce the root
                den = c.q
                k2 = key + '/%d' % den
                if k2 not in syms:
                    syms[k2] = sp.Symbol('E%d' % len(syms), positive=True)
                out *= syms[k2] ** c.p
        return out
    changed = True
    guard = 0
    while changed and guard < 5:
        guard += 1
        changed = False
        for ex in list(e.atoms(sp.exp)):
            r = repl(ex)
            if r is None:
                return False
            e = e.subs(ex, r)
            changed = True
    # relations between E(t) and E(t/d) are not tracked: only integer multiples are used in this code base
    t = sp.cancel(sp.together(e))
    return sp.expand(sp.numer(t)) == 0


def re_im(z):
    z = sp.expand_complex(z)
    return sp.re(z), sp.im(z)


# ---------------------------------------------------------------- rules
def run(ctx):
    rep = ctx.rep
    rep.explanation = ('constants compared with their closed forms at the precision of the real type; libm binding decided on the IR of the '
                       'all-switches-on build (callee identity, argument/result flow) for both widths; fallback bodies (all-switches-off '
                       'build) abstractly interpreted over exact terms with exp/sin/cos/sinh/cosh atoms and compared with the defining '
                       'exponential forms in exponential normal form; derived functions interpreted with their base functions as '
                       'uninterpreted pairs applied to the current value of *ctx, so the composition AND the value it is applied to are '
                       'compared with the documented composition on the entry value; principal square root by sign analysis per branch')
    rep.trusted += ['lib/symx.py, lib/alg.py', 'sympy (expand_complex, cancel, simplify for argument canonicalisation)']
    rep.assumptions += ['IEEE operations read as exact real operations: accuracy in ulps, values on branch cuts and the piecewise '
                        'GSL-style bodies of asin/acos/atan are NOT decided', 'each #if region mentions only its own switch (rule CFG-0), so '
                        'all-on and all-off cover every configuration per function']
    m0(ctx)
    cfg0(ctx)
    binding(ctx)
    field(ctx)
    scalar_saturation(ctx)
    polar(ctx)
    fallbacks(ctx)
    compositions(ctx)
    principal_sqrt(ctx)
    scale_safety(ctx)
    logabs_rule(ctx)
    arg_rule(ctx)
    eq_rule(ctx)
    out_of_place(ctx)
    inverse_fallbacks(ctx)
    rep.floor('CX-12', 3)
    rep.floor('CX-11', 40)
    rep.floor('CX-10', 2)
    rep.floor('CX-9', 1)
    rep.floor('CX-8', 1)
    rep.floor('CX-7', 2)
    rep.floor('M0', 21)
    rep.floor('CFG-1', 30)
    rep.floor('CX-1', 7)
    rep.floor('CX-2', 17)
    rep.floor('CX-4', 20)
    rep.floor('CX-6', 4)


def m0(ctx):
    rep = ctx.rep
    res, table = consts.check(ctx.scr, ctx.cfg('all', 8))
    ctx.ctab = table
    for name, ok, lit, closed, detail in res:
        if ok:
            rep.ok('M0', name, '%s = %s' % (lit, closed), sample={'macro': name, 'literal': lit, 'closed_form': closed})
        elif ok is None:
            rep.unk('M0', name, detail)
        else:
            rep.bad('M0', name, 'literal %s is not %s (%s)' % (lit, closed, detail), loc='include/a/math.h', key='%s: value' % name)


def cfg0(ctx):
    """switch locality: every preprocessor conditional of complex.c that mentions an A_HAVE_C* switch mentions only one"""
    rep = ctx.rep
    src = open(os.path.join(irx.REPO, 'src/complex.c')).read()
    bad = []
    n = 0
    for ln, line in enumerate(src.split('\n'), 1):
        if re.match(r'\s*#\s*(if|elif|ifdef|ifndef)', line):
            sw = set(re.findall(r'A_HAVE_C[A-Z0-9]+', line))
            if sw:
                n += 1
                if len(sw) > 1:
                    bad.append('line %d mentions %s' % (ln, sorted(sw)))
    if bad:
        rep.unk('CFG-0', 'src/complex.c', 'switch regions are not local: %s (all-on/all-off no longer cover every configuration)' % bad[:2])
    else:
        rep.ok('CFG-0', 'src/complex.c', '%d conditionals, each mentions a single A_HAVE_C* switch' % n)


def binding(ctx):
    rep = ctx.rep
    for real, suf in ((8, ''), (4, 'f')):
        try:
            m = ctx.module('complex', have='all', real=real)
        except Exception as e:
            rep.unk('CFG-1', 'complex[real=%d]' % real, str(e)[:200])
            continue
        for sw, fname in sorted(SWITCHED.items()):
            name = 'a_complex_%s_' % fname
            sym = '%s[f%d]' % (name, real * 8)
            fn = m.functions.get(name)
            if fn is None or fn.error:
                rep.unk('CFG-1', sym, 'anchor vanished')
                continue
            ctx.rep.functions.add(name)
            loc = fn.loc(fn.entry.instrs[0])
            calls = [(effects.callee_name(i), i) for i in fn.instrs() if i.op == 'call' and not (effects.callee_name(i) or '').startswith('llvm.')]
            want = 'c' + fname + suf
            if sw in ALWAYS_FALLBACK:
                if any(c == want for c, _ in calls):
                    rep.bad('CFG-1', sym, 'calls %s although the switch is documented as always off' % want, loc=loc, key='%s: binding' % name)
                else:
                    rep.ok('CFG-1', sym, 'always the fallback: %s' % ALWAYS_FALLBACK[sw], loc=loc)
                continue
            try:
                dom = CDom()
                it = symx.Interp(dom, lambda n: None)
                lv = it.run(fn, [Ptr('ctx', 0)] + [dom.sym('a%d' % k, real=True) if not t.k == 'vec' else (dom.sym('a_re', real=True), dom.sym('a_im', real=True))
                                                  for k, (t, pn) in enumerate(fn.params[1:])])
                if len(lv) != 1:
                    raise Unsupported('%d paths' % len(lv))
                esz = real
                x = dom.sym('ctx[0]', real=True)
                y = dom.sym('ctx[%d]' % esz, real=True)
                extra = flat([a for a in []])
                args = [x, y]
                if fname == 'pow':
                    if real == 8:
                        args += [dom.sym('a0', real=True), dom.sym('a1', real=True)]
                    else:
                        args += [dom.sym('a_re', real=True), dom.sym('a_im', real=True)]
                wr, wi = F2(want, *args)
                st = lv[0].store
                gr = st.get(('ctx', 0))
                gi = st.get(('ctx', esz))
                ok = gr is not None and gi is not None and gr[0] == wr and gi[0] == wi and len(calls) == 1 and calls[0][0] == want
                if ok:
                    rep.ok('CFG-1', sym, '*ctx = %s(*ctx%s): one call, arguments and results in order' % (want, ', a' if fname == 'pow' else ''), loc=loc,
                           sample={'fn': name, 'callee': want})
                else:
                    rep.bad('CFG-1', sym, 'body is not a single %s on *ctx: calls %s, stores (%s, %s)' % (want, [c for c, _ in calls], gr and gr[0], gi and gi[0]),
                            loc=loc, key='%s: binding' % name)
            except Unsupported as e:
                rep.unk('CFG-1', sym, str(e))


def run_inplace(ctx, unit, name, have, opaque, extra_args=(), inline=None, table=None):
    fn = ctx.fn(unit, name, have=have)
    if fn is None:
        return None, None, None
    mods = [ctx.module('complex', have=have), ctx.module('hdr_unit', have=have)]
    lk0 = lookup_in(mods)
    dom = CDom(table if table is not None else getattr(ctx, 'ctab', {}), opaque)
    dom.syms['ctx[0]'] = X
    dom.syms['ctx[8]'] = Y
    it = symx.Interp(dom, lk0, inline=(lambda n: n not in opaque) if inline is None else inline)
    lv = it.run(fn, [Ptr('ctx', 0)] + list(extra_args))
    return fn, dom, lv


def out(leaf):
    r = leaf.store.get(('ctx', 0))
    i = leaf.store.get(('ctx', 8))
    return (r[0] if r else X), (i[0] if i else Y)


def scalar_saturation(ctx):
    """CX-13: the real / imaginary scalar forms over sign / magnitude classes (lib/mag.py).  CX-2 shows that they equal the field
    operation over the reals; a form that is equal there (x * (1/r) for x / r) can still overflow in an intermediate result.  For every
    class of (re, im, r) the stored components are compared with the classes of the component-wise operation: a component that is
    definitely NaN or infinite where the operation itself is definitely finite is a violation for every argument of the class."""
    import itertools
    import mag
    rep = ctx.rep
    E = (-1074, -1040, -1022, -600, -1, 0, 1, 600, 1000, 1022, 1023)
    if ctx.tier == 'thorough':
        E = tuple(sorted(set(range(-1074, 1024, 96)) | set(E)))
    nz = [mag.binade(e, s_) for e in E for s_ in (1, -1)]
    comp = nz + [mag.Z]
    REF = {'a_complex_mul_real_': lambda a, b, r: (mag.mul(a, r), mag.mul(b, r)),
           'a_complex_div_real_': lambda a, b, r: (mag.div(a, r), mag.div(b, r)),
           'a_complex_mul_imag_': lambda a, b, r: (mag.neg(mag.mul(b, r)), mag.mul(a, r)),
           'a_complex_div_imag_': lambda a, b, r: (mag.div(b, r), mag.neg(mag.div(a, r)))}
    for name, ref in sorted([(n_, r_) for n_, r_ in REF.items()] + [(n_[:-1], r_) for n_, r_ in REF.items()]):
        fn = ctx.fn('hdr_unit', name)
        if fn is None:
            rep.unk('CX-13', name, 'anchor vanished')
            continue
        loc = fn.loc(fn.entry.instrs[0])
        inplace = name.endswith('_')
        probe = {('ctx', 0): mag.binade(0), ('ctx', 1): mag.binade(0)}
        # in place: (ctx, scalar); out of place: (ctx, z by value as two doubles, scalar)
        mk = (lambda a, b, r: [('ptr', 'ctx'), r]) if inplace else (lambda a, b, r: [('ptr', 'ctx'), a, b, r])
        if len(fn.params) != (2 if inplace else 4) or mag.run(fn, mk(mag.binade(0), mag.binade(0), mag.binade(0)), None, 0, probe) is None:
            rep.unk('CX-13', name, 'not straight-line arithmetic over the operand and the scalar', loc=loc)
            continue
        worst, total, decided = [], 0, 0
        for a, b, r in itertools.product(comp, comp, nz):
            mem = {('ctx', 0): a, ('ctx', 1): b} if inplace else {}
            mag.run(fn, mk(a, b, r), None, 0, mem)
            mem.setdefault(('ctx', 0), mag.TOP)
            mem.setdefault(('ctx', 1), mag.TOP)
            want = ref(a, b, r)
            total += 1
            got = (mem[('ctx', 0)], mem[('ctx', 1)])
            if mag.TOP not in got:
                decided += 1
            for k in (0, 1):
                if (got[k] == mag.NAN or got[k][0] == 'inf') and want[k][0] in ('m', 'z'):
                    worst.append((a, b, r, k, got[k], want[k]))
                    break
        if worst:
            a, b, r, k, g, w = worst[0]
            rep.bad('CX-13', name, 'for every %s, %s and scalar in %s the %s part becomes %s; the operation itself gives %s (%d of %d sign / magnitude classes)' % (
                mag.show_class('re', a), mag.show_class('im', b), mag.show(r), ('real', 'imaginary')[k], mag.show(g), mag.show(w), len(worst), total),
                loc=loc, key='%s: saturation' % name)
        else:
            rep.ok('CX-13', name, 'no sign / magnitude class of (re, im, scalar) turns a finite result into NaN or an infinity (%d classes, %d decided)' % (total, decided),
                   loc=loc, sample={'fn': name, 'classes': total, 'decided': decided})
    rep.floor('CX-13', 8)
    # ---- the complex product: the four-product form against whatever the code does (a three-product form adds components first and
    # overflows for finite products)
    fn = ctx.fn('complex', 'a_complex_mul_')
    if fn is None:
        rep.unk('CX-13', 'a_complex_mul_', 'anchor vanished')
        return
    loc = fn.loc(fn.entry.instrs[0])
    E4 = (-1074, -600, -10, -2, 0, 600, 1023)
    if ctx.tier == 'thorough':
        E4 = (-1074, -1022, -600, -10, -2, 0, 2, 600, 1023)
    c4 = [mag.binade(e, s_) for e in E4 for s_ in (1, -1)] + [mag.Z]
    probe = {('ctx', 0): mag.binade(0), ('ctx', 1): mag.binade(0)}
    if len(fn.params) != 3 or mag.run(fn, [('ptr', 'ctx'), mag.binade(0), mag.binade(0)], None, 0, probe) is None:
        rep.unk('CX-13', 'a_complex_mul_', 'not straight-line arithmetic over *ctx and the factor', loc=loc)
        return
    worst, total, decided = [], 0, 0
    for a, b, c, d in itertools.product(c4, c4, c4, c4):
        mem = {('ctx', 0): a, ('ctx', 1): b}
        mag.run(fn, [('ptr', 'ctx'), c, d], None, 0, mem)
        want = (mag.sub(mag.mul(a, c), mag.mul(b, d)), mag.add(mag.mul(a, d), mag.mul(b, c)))
        got = (mem[('ctx', 0)], mem[('ctx', 1)])
        total += 1
        decided += mag.TOP not in got
        for k in (0, 1):
            if (got[k] == mag.NAN or got[k][0] == 'inf') and want[k][0] in ('m', 'z'):
                worst.append((a, b, c, d, k, got[k], want[k]))
                break
    if worst:
        a, b, c, d, k, g, w = worst[0]
        rep.bad('CX-13', 'a_complex_mul_', 'for every (%s, %s) times (%s, %s) the %s part becomes %s; ac - bd / ad + bc itself gives %s (%d of %d sign / magnitude classes)' % (
            mag.show(a), mag.show(b), mag.show(c), mag.show(d), ('real', 'imaginary')[k], mag.show(g), mag.show(w), len(worst), total), loc=loc, key='a_complex_mul_: saturation')
    else:
        rep.ok('CX-13', 'a_complex_mul_', 'no sign / magnitude class of the two factors turns a finite component of the product into NaN or an infinity (%d classes, %d decided)' % (total, decided),
               loc=loc, sample={'fn': 'a_complex_mul_', 'classes': total, 'decided': decided})


def field(ctx):
    rep = ctx.rep
    z, w = X + I * Y, U + I * V
    forms = {
        'a_complex_add_': ([U, V], z + w), 'a_complex_sub_': ([U, V], z - w), 'a_complex_mul_': ([U, V], z * w), 'a_complex_div_': ([U, V], z / w),
        'a_complex_inv_': ([], 1 / z), 'a_complex_neg_': ([], -z), 'a_complex_conj_': ([], sp.conjugate(z)),
        'a_complex_add_real_': ([R], z + R), 'a_complex_sub_real_': ([R], z - R), 'a_complex_mul_real_': ([R], z * R), 'a_complex_div_real_': ([R], z / R),
        'a_complex_add_imag_': ([R], z + I * R), 'a_complex_sub_imag_': ([R], z - I * R), 'a_complex_mul_imag_': ([R], z * (I * R)),
        'a_complex_div_imag_': ([R], z / (I * R)),
    }
    for name, (args, want) in sorted(forms.items()):
        unit = 'complex' if name in ('a_complex_mul_', 'a_complex_div_', 'a_complex_inv_') else 'hdr_unit'
        try:
            fn, dom, lv = run_inplace(ctx, unit, name, 'all', opaque={'a_complex_abs'}, extra_args=args, inline=lambda n: n != 'a_complex_abs')
            if fn is None:
                rep.unk('CX-2', name, 'anchor vanished')
                continue
            loc = fn.loc(fn.entry.instrs[0])
            if len(lv) != 1:
                raise Unsupported('%d paths' % len(lv))
            gr, gi = out(lv[0])
            wr, wi = re_im(want)
            if zero(gr - wr) and zero(gi - wi):
                rep.ok('CX-2', name, '= %s' % SPEC['field'].get(name, want), loc=loc, sample={'fn': name, 're': show(gr), 'im': show(gi)})
            else:
                rep.bad('CX-2', name, 'computes (%s, %s), field operation gives (%s, %s)' % (show(gr), show(gi), show(wr), show(wi)),
                        loc=loc, key='%s: field op' % name)
        except Unsupported as e:
            rep.unk('CX-2', name, str(e))
    # abs2 / abs / polar
    for name, unit, args, want in (('a_complex_abs2', 'complex', [X, Y], X ** 2 + Y ** 2), ('a_complex_abs', 'complex', [X, Y], sp.sqrt(X ** 2 + Y ** 2))):
        fn = ctx.fn(unit, name)
        if fn is None:
            rep.unk('CX-2', name, 'anchor vanished')
            continue
        try:
            dom = CDom(getattr(ctx, 'ctab', {}))
            lv = symx.Interp(dom, lookup_in([ctx.module('complex')])).run(fn, args)
            if len(lv) == 1 and zero(lv[0].ret - want):
                rep.ok('CX-2', name, '= %s' % want, loc=fn.loc(fn.entry.instrs[0]))
            else:
                rep.bad('CX-2', name, 'returns %s, expected %s' % (lv[0].ret, want), loc=fn.loc(fn.entry.instrs[0]), key='%s: value' % name)
        except Unsupported as e:
            rep.unk('CX-2', name, str(e))


def polar(ctx):
    """polar construction: (rho cos theta, rho sin theta)"""
    rep = ctx.rep
    name = 'a_complex_polar'
    fn = ctx.fn('complex', name)
    if fn is None:
        rep.unk('CX-2', name, 'anchor vanished')
        return
    loc = fn.loc(fn.entry.instrs[0])
    try:
        dom = CDom(getattr(ctx, 'ctab', {}))
        rho, th = dom.sym('rho', real=True), dom.sym('theta', real=True)
        lv = symx.Interp(dom, lookup_in([ctx.module('complex')])).run(fn, [Ptr('ctx', 0), rho, th])
        ok = len(lv) == 1
        if ok:
            gr, gi = lv[0].store.get(('ctx', 0)), lv[0].store.get(('ctx', 8))
            ok = gr is not None and gi is not None and zero(sp.sympify(gr[0]) - rho * sp.cos(th)) and zero(sp.sympify(gi[0]) - rho * sp.sin(th))
        if ok:
            rep.ok('CX-2', name, '*ctx = (rho cos theta, rho sin theta)', loc=loc)
        else:
            rep.bad('CX-2', name, 'stores (%s, %s), expected (rho cos theta, rho sin theta)' % (gr and gr[0], gi and gi[0]) if len(lv) == 1 else '%d paths' % len(lv),
                    loc=loc, key='%s: value' % name)
    except Unsupported as e:
        rep.unk('CX-2', name, str(e))


def fallbacks(ctx):
    rep = ctx.rep
    z = X + I * Y
    defs = {
        'a_complex_exp_': sp.exp(z),
        'a_complex_sin_': (sp.exp(I * z) - sp.exp(-I * z)) / (2 * I),
        'a_complex_cos_': (sp.exp(I * z) + sp.exp(-I * z)) / 2,
        'a_complex_tan_': (sp.exp(I * z) - sp.exp(-I * z)) / (I * (sp.exp(I * z) + sp.exp(-I * z))),
        'a_complex_sinh_': (sp.exp(z) - sp.exp(-z)) / 2,
        'a_complex_cosh_': (sp.exp(z) + sp.exp(-z)) / 2,
        'a_complex_tanh_': (sp.exp(z) - sp.exp(-z)) / (sp.exp(z) + sp.exp(-z)),
    }
    for name, d in sorted(defs.items()):
        try:
            fn, dom, lv = run_inplace(ctx, 'complex', name, 'none', opaque=set(), inline=lambda n: True)
            if fn is None:
                rep.unk('CX-1', name, 'anchor vanished')
                continue
            loc = fn.loc(fn.entry.instrs[0])
            probs = []
            for lf in lv:
                gr, gi = out(lf)
                dd = d
                # equalities on the path (imag == 0) are substituted into the definition
                sub = {}
                for c in lf.pc:
                    if isinstance(c, alg.Cond) and c.rel() == '==' and sp.sympify(c.b) == 0 and sp.sympify(c.a) in (X, Y):
                        sub[sp.sympify(c.a)] = 0
                wr, wi = re_im(dd.subs(sub))
                gr, gi = sp.sympify(gr).subs(sub), sp.sympify(gi).subs(sub)
                if not (enf_zero(gr - wr) and enf_zero(gi - wi)):
                    probs.append('on path %s the result (%s, %s) is not %s' % (lf.pc, gr, gi, SPEC['elementary_fallbacks'][name]))
            if probs:
                rep.bad('CX-1', name, '; '.join(probs[:2])[:600], loc=loc, key='%s: fallback formula' % name)
            else:
                rep.ok('CX-1', name, 'fallback = %s on all %d paths (exponential normal form)' % (SPEC['elementary_fallbacks'][name], len(lv)), loc=loc,
                       sample={'fn': name, 'paths': len(lv)})
        except Unsupported as e:
            rep.unk('CX-1', name, str(e))


BASE = ['sqrt', 'exp', 'log', 'sin', 'cos', 'tan', 'sinh', 'cosh', 'tanh', 'asin', 'acos', 'atan', 'asinh', 'acosh', 'atanh', 'pow']


def cmul(a, b):
    return (a[0] * b[0] - a[1] * b[1], a[0] * b[1] + a[1] * b[0])


def cinv(a):
    d = a[0] ** 2 + a[1] ** 2
    return (a[0] / d, -a[1] / d)


def compositions(ctx):
    rep = ctx.rep
    tab = getattr(ctx, 'ctab', {})
    Z = (X, Y)
    lnab = sp.Function('a_complex_logabs')(X, Y)
    th = sp.Function('a_complex_arg')(X, Y)

    def base(f, z):
        return F2('a_complex_%s_' % f, z[0], z[1])
    ar, ai = sp.Symbol('ar', real=True), sp.Symbol('ai', real=True)
    a_ = sp.Symbol('a', real=True)
    specs = [
        # name, config, opaque set, extra args, expected per path: function(leaf) -> (re, im) or list by case
        ('a_complex_log_', 'none', {'a_complex_logabs', 'a_complex_arg'}, [], lambda lf: (lnab, th)),
        ('a_complex_log2_', 'all', {'a_complex_log_'}, [], lambda lf: tuple(c / sp.log(2) for c in base('log', Z))),
        ('a_complex_log10_', 'all', {'a_complex_log_'}, [], lambda lf: tuple(c / sp.log(10) for c in base('log', Z))),
        ('a_complex_logb_', 'all', {'a_complex_log_', 'a_complex_abs'}, [U, V], None),
        ('a_complex_pow_', 'none', {'a_complex_logabs', 'a_complex_arg'}, [ar, ai], 'pow'),
        ('a_complex_pow_real_', 'all', {'a_complex_logabs', 'a_complex_arg'}, [a_], 'powr'),
        ('a_complex_sec_', 'all', {'a_complex_cos_', 'a_complex_abs'}, [], lambda lf: cinv(base('cos', Z))),
        ('a_complex_csc_', 'all', {'a_complex_sin_', 'a_complex_abs'}, [], lambda lf: cinv(base('sin', Z))),
        ('a_complex_cot_', 'all', {'a_complex_tan_', 'a_complex_abs'}, [], lambda lf: cinv(base('tan', Z))),
        ('a_complex_sech_', 'all', {'a_complex_cosh_', 'a_complex_abs'}, [], lambda lf: cinv(base('cosh', Z))),
        ('a_complex_csch_', 'all', {'a_complex_sinh_', 'a_complex_abs'}, [], lambda lf: cinv(base('sinh', Z))),
        ('a_complex_coth_', 'all', {'a_complex_tanh_', 'a_complex_abs'}, [], lambda lf: cinv(base('tanh', Z))),
        ('a_complex_asec_', 'all', {'a_complex_acos_', 'a_complex_abs'}, [], lambda lf: base('acos', cinv(Z))),
        ('a_complex_acsc_', 'all', {'a_complex_asin_', 'a_complex_abs'}, [], lambda lf: base('asin', cinv(Z))),
        ('a_complex_acot_', 'all', {'a_complex_atan_', 'a_complex_abs'}, [], 'acot'),
        ('a_complex_asech_', 'all', {'a_complex_acosh_', 'a_complex_abs'}, [], lambda lf: base('acosh', cinv(Z))),
        ('a_complex_acsch_', 'all', {'a_complex_asinh_', 'a_complex_abs'}, [], lambda lf: base('asinh', cinv(Z))),
        ('a_complex_acoth_', 'all', {'a_complex_atanh_', 'a_complex_abs'}, [], lambda lf: base('atanh', cinv(Z))),
        ('a_complex_asinh_', 'none', {'a_complex_asin_'}, [], lambda lf: (lambda w: (w[1], -w[0]))(base('asin', (-Y, X)))),
        ('a_complex_atanh_', 'none', {'a_complex_atan_', 'a_complex_atanh_real'}, [], 'atanh'),
        ('a_complex_acosh_', 'none', {'a_complex_acos_', 'a_complex_acsc_', 'a_complex_asin_'}, [], 'acosh'),
    ]
    for name, have, opaque, args, want in specs:
        try:
            fn, dom, lv = run_inplace(ctx, 'complex', name, have, opaque=set(opaque), extra_args=args)
            if fn is None:
                rep.unk('CX-4', name, 'anchor vanished')
                continue
            loc = fn.loc(fn.entry.instrs[0])
            probs = []
            for lf in lv:
                gr, gi = out(lf)
                if name == 'a_complex_logb_':
                    L1 = base('log', Z)
                    L2 = base('log', (U, V))
                    w = cmul(L1, cinv(L2))
                elif want == 'pow' or want == 'powr':
                    zero_branch = any(isinstance(c, (alg.Cond, alg.BoolOp)) and 'ctx' not in str(c) and False for c in lf.pc)
                    nonzero = not (sp.sympify(gr).is_number)
                    if want == 'pow':
                        rho = sp.exp(lnab * ar - th * ai)
                        beta = th * ar + lnab * ai
                    else:
                        rho = sp.exp(lnab * a_)
                        beta = th * a_
                    if nonzero:
                        w = (rho * sp.cos(beta), rho * sp.sin(beta))
                    else:
                        # z == 0: 1 if a == 0 else 0, imaginary part untouched - and this branch is for z == 0 only
                        others = sign_models(lf.pc, X, Y) - {(0, 0)}
                        if others:
                            probs.append('the z = 0 branch is also taken for (sign x, sign y) in %s' % sorted(others))
                            continue
                        if sp.sympify(gr) in (0, 1) and sp.sympify(gi) == Y:
                            continue
                        probs.append('z = 0 branch stores (%s, %s)' % (gr, gi))
                        continue
                elif want == 'acot':
                    if sp.sympify(gr).has(AppliedUndef):
                        w = base('atan', cinv(Z))
                    else:
                        others = sign_models(lf.pc, X, Y) - {(0, 0)}
                        if others:
                            probs.append('the z = 0 branch is also taken for (sign x, sign y) in %s' % sorted(others))
                            continue
                        if zero(gr - sp.pi / 2) and sp.sympify(gi) == Y:
                            continue
                        probs.append('z = 0 branch stores (%s, %s), expected pi/2' % (gr, gi))
                        continue
                elif want == 'atanh':
                    if any(str(a[0]) == 'a_complex_atanh_real' for a in dom.applied) and not sp.sympify(gr).has(sp.Function('a_complex_atan_.re')) and 'atan_.' not in str(gr):
                        w = F2('a_complex_atanh_real', X)
                    else:
                        t = base('atan', (-Y, X))
                        w = (t[1], -t[0])
                elif want == 'acosh':
                    p, q = base('acos', Z)
                    # s = -1 if Im(acos z) > 0 else +1 ; result = acos(z) * (i s)
                    pos = any(isinstance(c, alg.Cond) and c.rel() == '>' and 'acos' in str(c.a) for c in lf.pc)
                    s = -1 if pos else 1
                    w = (-q * s, p * s)
                    used = set(a[0] for a in dom.applied)
                    if 'a_complex_acos_' not in used:
                        probs.append('is built on %s, documented on a_complex_acos_ (+-i*acos z)' % sorted(used))
                        continue
                else:
                    w = want(lf)
                if not (zero(sp.sympify(gr) - w[0]) and zero(sp.sympify(gi) - w[1])):
                    probs.append('stores (%s, %s), documented composition gives (%s, %s)' % (show(gr), show(gi), show(w[0]), show(w[1])))
            if probs:
                rep.bad('CX-4', name, '; '.join(sorted(set(probs))[:2])[:700], loc=loc, key='%s: composition' % name)
            else:
                rep.ok('CX-4', name, 'equals the documented composition %s on the entry value (%d paths)' % (SPEC['compositions'].get(name, ''), len(lv)), loc=loc,
                       sample={'fn': name, 'paths': len(lv)})
        except Unsupported as e:
            rep.unk('CX-4', name, str(e))


def sign_models(pc, x, y):
    """the sign patterns (sign x, sign y) in {-1,0,1}^2 that are consistent with the comparisons of x and y against 0 in a path
    condition (conjunctions / disjunctions included; conditions about anything else do not restrict)"""
    def ev(c, sx, sy):
        if isinstance(c, alg.BoolOp):
            vals = [ev(a, sx, sy) for a in c.args]
            return all(vals) if c.op == 'and' else any(vals) if c.op == 'or' else True
        if not isinstance(c, alg.Cond):
            return True
        a, b = sp.sympify(c.a), sp.sympify(c.b)
        rel = c.rel()
        if b in (x, y) and a == 0:
            a, b = b, a
            rel = {'<': '>', '<=': '>=', '>': '<', '>=': '<='}.get(rel, rel)
        if b != 0 or a not in (x, y):
            return True
        v = sx if a == x else sy
        return {'<': v < 0, '<=': v <= 0, '>': v > 0, '>=': v >= 0, '==': v == 0, '!=': v != 0}[rel]
    out = set()
    for sx in (-1, 0, 1):
        for sy in (-1, 0, 1):
            if all(ev(c, sx, sy) for c in pc):
                out.add((sx, sy))
    return out


def inverse_fallbacks(ctx):
    """CX-12: the piecewise bodies of the asin / acos / atan fallbacks (the other inverse functions are compositions of these, rule CX-4).
    Each body is interpreted once with (x, y) symbolic; every path yields a region (comparisons of closed-form terms with the crossover
    constants) and a pair of closed forms.  Identity test: on a grid of points covering the four quadrants, both axes (off the branch cuts),
    magnitudes 1e-8 .. 1e8 and both sides of every crossover, the region each point falls into is selected by evaluating the path conditions
    and the pair is compared with the principal value in 60-digit arithmetic.  The closed forms are exact identities, so agreement is demanded
    to 1e-30 relative - a wrong sign, a swapped branch, a changed crossover formula or a dropped term cannot survive that."""
    import mpmath as mp
    rep = ctx.rep
    mp.mp.dps = 60
    mags = ['1e-8', '1e-3', '0.3', '0.6', '0.7', '0.9', '1', '1.1', '1.4', '1.6', '2', '10', '1e3', '1e8']
    if ctx.tier == 'thorough':
        # a denser grid: more magnitudes, and points hugging the crossovers and the unit circle from both sides
        mags += ['1e-30', '1e-5', '0.05', '0.5', '0.64', '0.6417', '0.65', '0.99', '1.01', '1.49', '1.5', '1.51', '3', '7', '100', '1e5', '1e30']
        mp.mp.dps = 160      # 1 + 1e-60 must not round to 1 when a path subtracts nearly equal terms
    axis = [mp.mpf(0)] + [mp.mpf(m) for m in mags] + [-mp.mpf(m) for m in mags]
    table = {
        'a_complex_asin_': (mp.asin, lambda xv, yv: yv == 0 and abs(xv) > 1),
        'a_complex_acos_': (mp.acos, lambda xv, yv: yv == 0 and abs(xv) > 1),
        'a_complex_atan_': (mp.atan, lambda xv, yv: xv == 0 and abs(yv) >= 1),
    }
    mods = [{'atan2': mp.atan2, 'Abs': abs, 'log1p': mp.log1p, 'hypot': mp.hypot}, 'mpmath']
    for name, (exact, on_cut) in table.items():
        try:
            fn, dom, lv = run_inplace(ctx, 'complex', name, 'none', opaque=set(), inline=lambda n: True)
        except Unsupported as e:
            rep.unk('CX-12', name, str(e))
            continue
        if fn is None:
            rep.unk('CX-12', name, 'anchor vanished')
            continue
        loc = fn.loc(fn.entry.instrs[0])
        try:
            compiled = []
            for lf in lv:
                gr, gi = out(lf)
                conds = []
                for c in lf.pc:
                    atoms_ = [c] if isinstance(c, alg.Cond) else None
                    if atoms_ is None:
                        raise Unsupported('path condition %r' % (c,))
                    d = sp.sympify(c.a) - sp.sympify(c.b)
                    conds.append((sp.lambdify((X, Y), d, modules=mods), c.rel()))
                compiled.append((conds, sp.lambdify((X, Y), sp.sympify(gr), modules=mods), sp.lambdify((X, Y), sp.sympify(gi), modules=mods), lf))
            probs, n, hitset = [], 0, set()
            for xv in axis:
                for yv in axis:
                    if on_cut(xv, yv):
                        continue
                    hit = []
                    for k, (conds, fr, fi, lf) in enumerate(compiled):
                        ok = True
                        for f, rel in conds:
                            try:
                                dv = f(xv, yv)
                            except ZeroDivisionError:
                                ok = False
                                break
                            dv = dv.real if isinstance(dv, mp.mpc) else dv
                            if not {'<': dv < 0, '<=': dv <= 0, '>': dv > 0, '>=': dv >= 0, '==': dv == 0, '!=': dv != 0}[rel]:
                                ok = False
                                break
                        if ok:
                            hit.append(k)
                    if len(hit) != 1:
                        probs.append('%d paths cover z = (%s, %s)' % (len(hit), mp.nstr(xv, 4), mp.nstr(yv, 4)))
                        continue
                    hitset.add(hit[0])
                    conds, fr, fi, lf = compiled[hit[0]]
                    n += 1
                    try:
                        g = mp.mpc(fr(xv, yv), fi(xv, yv))
                    except Exception as e:
                        probs.append('the path for z = (%s, %s) cannot be evaluated (%s)' % (mp.nstr(xv, 4), mp.nstr(yv, 4), type(e).__name__))
                        continue
                    w = exact(mp.mpc(xv, yv))
                    tol = mp.mpf(10) ** -30
                    if abs(g.real - w.real) > tol * max(abs(w.real), abs(w), mp.mpf(10) ** -40) or abs(g.imag - w.imag) > tol * max(abs(w.imag), abs(w), mp.mpf(10) ** -40):
                        probs.append('at z = (%s, %s) the path gives (%s, %s), the principal value is (%s, %s)' % (
                            mp.nstr(xv, 4), mp.nstr(yv, 4), mp.nstr(g.real, 10), mp.nstr(g.imag, 10), mp.nstr(w.real, 10), mp.nstr(w.imag, 10)))
            if probs:
                rep.bad('CX-12', name, '; '.join(probs[:2])[:500], loc=loc, key='%s: piecewise body' % name)
            else:
                rep.ok('CX-12', name, 'the closed forms of %d of the %d paths, selected by their own conditions, equal the principal value at all %d grid points (1e-30 relative)' % (
                    len(hitset), len(lv), n), loc=loc, sample={'fn': name, 'paths': len(lv), 'paths hit': len(hitset), 'points': n})
        except Unsupported as e:
            rep.unk('CX-12', name, str(e), loc=loc)


def out_of_place(ctx):
    """CX-11: every operation exists twice - a_complex_F_(ctx, args) working in place and a_complex_F(ctx, z, args) writing F(z) to *ctx.
    The second form must be the first one applied to z: both are interpreted with everything below them uninterpreted (the second
    form with its in-place sibling followed when it calls it) and must produce the same pair on the same path."""
    rep = ctx.rep
    try:
        hm = ctx.module('hdr_unit', have='all')
        cm = ctx.module('complex', have='all')
    except Exception as e:
        rep.unk('CX-11', 'complex.h', 'unit not readable: %s' % e)
        return
    allf = {}
    for m_ in (cm, hm):
        for n_, f_ in m_.functions.items():
            if not f_.error and n_ not in allf:
                allf[n_] = f_
    pairs = []
    for n_, f_ in sorted(allf.items()):
        if re.fullmatch(r'a_complex_[a-z0-9_]*[a-z0-9]', n_) and (n_ + '_') in allf and f_.params and f_.params[0][0].is_ptr:
            pairs.append((f_, allf[n_ + '_']))
    for F, S in pairs:
        name = F.name
        loc = F.loc(F.entry.instrs[0])
        try:
            nF = [t for t, _ in F.params[1:]]
            nS = [t for t, _ in S.params[1:]]
            if not all(t.k == 'double' for t in nF + nS) or len(nF) != len(nS) + 2:
                raise Unsupported('parameters of %s / %s are not (ctx, z, args) / (ctx, args)' % (F.name, S.name))
            rest = [sp.Symbol('r%d' % k, real=True) for k in range(len(nS))]

            def run(fn, args, follow):
                dom = CDom(getattr(ctx, 'ctab', {}), set())
                dom.syms['ctx[0]'] = X
                dom.syms['ctx[8]'] = Y
                it = symx.Interp(dom, lambda n: allf.get(n) if n in follow else None)
                return dom, it.run(fn, args)
            dS, lvS = run(S, [Ptr('ctx', 0)] + rest, set())
            dF, lvF = run(F, [Ptr('ctx', 0), X, Y] + rest, {S.name})
            ctx.rep.functions.add(name)
            probs = []
            byS = {}
            for lf in lvS:
                byS[str(lf.pc)] = out(lf)
            if len(lvF) != len(lvS):
                probs.append('%d paths, the in-place form has %d' % (len(lvF), len(lvS)))
            for lf in lvF:
                g = lf.store.get(('ctx', 0)), lf.store.get(('ctx', 8))
                if g[0] is None or g[1] is None:
                    probs.append('does not store both components of the result')
                    continue
                w = byS.get(str(lf.pc))
                if w is None:
                    probs.append('path %s has no counterpart in %s' % (str(lf.pc)[:80], S.name))
                    continue
                if not (zero(sp.sympify(g[0][0]) - sp.sympify(w[0])) and zero(sp.sympify(g[1][0]) - sp.sympify(w[1]))):
                    probs.append('stores (%s, %s), %s applied to z gives (%s, %s)' % (show(g[0][0]), show(g[1][0]), S.name, show(w[0]), show(w[1])))
            if probs:
                rep.bad('CX-11', name, '; '.join(sorted(set(probs))[:2])[:500], loc=loc, key='%s: out-of-place form' % name)
            else:
                rep.ok('CX-11', name, '*ctx = %s applied to z (%d path(s))' % (S.name, len(lvF)), loc=loc, sample={'fn': name, 'sibling': S.name})
        except Unsupported as e:
            rep.unk('CX-11', name, str(e), loc=loc)


def principal_sqrt(ctx):
    rep = ctx.rep
    name = 'a_complex_sqrt_'
    try:
        fn, dom, lv = run_inplace(ctx, 'complex', name, 'none', opaque=set(), inline=lambda n: True)
    except Unsupported as e:
        rep.unk('CX-6', name, str(e))
        return
    if fn is None:
        rep.unk('CX-6', name, 'anchor vanished')
        return
    loc = fn.loc(fn.entry.instrs[0])
    n = 0
    for lf in lv:
        gr, gi = out(lf)
        # sign facts from the path: x >= 0 / x < 0 ; y < 0 / y >= 0
        sx = sy = None
        for c in lf.pc:
            for cc in (c.args if isinstance(c, alg.BoolOp) else [c]):
                if not isinstance(cc, alg.Cond):
                    continue
                if sp.sympify(cc.a) == X and sp.sympify(cc.b) == 0 and cc.rel() in ('>=', '<', '>', '<='):
                    sx = cc.rel()
                if sp.sympify(cc.a) == Y and sp.sympify(cc.b) == 0 and cc.rel() in ('>=', '<', '>', '<='):
                    sy = cc.rel()
        if sp.sympify(gr) == X and sp.sympify(gi) == Y:
            continue   # z == 0 untouched
        if sy is None:
            # the imaginary sign only matters (is tested) on the x < 0 branch
            sy_cases = ['>=', '<'] if sx in ('<',) else [None]
        else:
            sy_cases = [sy]
        for syc in sy_cases:
            sub = {}
            px, py = sp.Symbol('px', positive=True), sp.Symbol('py', positive=True)
            if sx == '<':
                sub[X] = -px
            elif sx in ('>=', '>'):
                sub[X] = sp.Symbol('nx', nonnegative=True)
            if syc == '<':
                sub[Y] = -py
            elif syc == '>=':
                sub[Y] = sp.Symbol('ny', nonnegative=True)
            r = sp.sympify(gr).subs(sub)
            i = sp.sympify(gi).subs(sub)
            # square roots and absolute values are non-negative; the scaled magnitude w is positive for z != 0
            for a in sorted(r.atoms(sp.Pow) | i.atoms(sp.Pow) | r.atoms(sp.Abs) | i.atoms(sp.Abs), key=lambda t: -len(str(t))):
                if isinstance(a, sp.Abs) or (isinstance(a, sp.Pow) and a.exp == sp.Rational(1, 2)):
                    w = sp.Symbol('w%d' % (abs(hash(a)) % 10 ** 6), positive=True)
                    r = r.subs(a, w)
                    i = i.subs(a, w)
            n += 1
            sym = '%s[x%s0,y%s0]' % (name, sx or '?', syc or '?')
            rs = sp.simplify(r)
            is_ = sp.simplify(i)
            probs = []
            if not (rs.is_nonnegative):
                probs.append('real part %s is %s' % (rs, 'negative' if rs.is_negative else 'not provably >= 0'))
            want_neg = (syc == '<')
            if syc is not None:
                if want_neg and not is_.is_negative and not is_.is_nonpositive:
                    probs.append('imaginary part %s does not carry the sign of the input imaginary part' % is_)
                if not want_neg and not is_.is_nonnegative:
                    probs.append('imaginary part %s does not carry the sign of the input imaginary part' % is_)
            if probs and all('negative' in p and 'real part' in p for p in probs) and rs.is_negative:
                rep.bad('CX-6', sym, '; '.join(probs), loc=loc, key='a_complex_sqrt_: principal value')
            elif probs:
                if any(('is negative' in p) for p in probs) or any('does not carry' in p and (is_.is_negative or is_.is_positive) for p in probs):
                    rep.bad('CX-6', sym, '; '.join(probs), loc=loc, key='a_complex_sqrt_: principal value')
                else:
                    rep.unk('CX-6', sym, '; '.join(probs), loc=loc)
            else:
                rep.ok('CX-6', sym, 'real part >= 0 and the imaginary part carries the sign of y', loc=loc, sample={'re': str(rs), 'im': str(is_)})
    if n == 0:
        rep.unk('CX-6', name, 'no non-trivial path')


def degree(e, group):
    """homogeneous degree of e under scaling of the symbols in `group` by a positive factor; None if not homogeneous"""
    lam = sp.Symbol('lam', positive=True)
    e = sp.sympify(e)
    if not (e.free_symbols & set(group)):
        return 0
    el = e.subs({g: lam * g for g in group}, simultaneous=True)
    q = timed(lambda: sp.simplify(el / e), 8, None)
    if q is None:
        return None
    q = sp.powsimp(sp.powdenest(q, force=True))
    if q == 1:
        return 0
    if q == lam:
        return 1
    b, ex = q.as_base_exp()
    if b == lam and ex.is_number:
        return ex
    return None


def scale_safety(ctx):
    """CX-7: reciprocal and quotient must not form intermediates whose magnitude is quadratic in the scale of an operand
    (|z|^2 overflows/underflows although 1/z is representable): every floating intermediate is homogeneous of degree
    at most max(1, |degree of the result|) in each operand"""
    rep = ctx.rep
    for name, args, groups in (('a_complex_inv_', [], [[X, Y]]), ('a_complex_div_', [U, V], [[X, Y], [U, V]])):
        try:
            fn, dom, lv = run_inplace(ctx, 'complex', name, 'all', opaque={'a_complex_abs'}, extra_args=args, inline=lambda n: n != 'a_complex_abs')
            if fn is None:
                rep.unk('CX-7', name, 'anchor vanished')
                continue
            loc = fn.loc(fn.entry.instrs[0])
            probs = []
            nvals = 0
            for lf in lv:
                gr, gi = out(lf)
                for gi_, group in enumerate(groups):
                    dres = [degree(gr, group), degree(gi, group)]
                    lim = max([1] + [abs(d) for d in dres if d is not None])
                    for reg, v in sorted(lf.env.items()):
                        if isinstance(v, (Ptr, tuple, list, bool)) or v is TOP or v is None:
                            continue
                        try:
                            e = sp.sympify(v)
                        except Exception:
                            continue
                        if not e.free_symbols:
                            continue
                        d = degree(e, group)
                        nvals += 1
                        if d is not None and abs(d) > lim:
                            probs.append('%%%s = %s has degree %s in the scale of operand %d (result: %s)' % (reg, show(e), d, gi_ + 1, dres))
            if probs:
                rep.bad('CX-7', name, 'unscaled intermediate: ' + '; '.join(sorted(set(probs))[:2]), loc=loc, key='%s: scale safety' % name)
            else:
                rep.ok('CX-7', name, 'all %d floating intermediates stay within degree 1 of the operand scale (the squared modulus is never formed)' % nvals, loc=loc)
        except Unsupported as e:
            rep.unk('CX-7', name, str(e))


def logabs_rule(ctx):
    """CX-8: a_complex_logabs = log(r) + log1p((q/r)^2)/2 with r the LARGER and q the smaller of |re|, |im| on every path:
    equal to log|z| in exact arithmetic, the ratio never exceeds one (no overflow of its square) and the divisor is zero only
    for z = 0.  A version that scales by the smaller component is the same function in exact arithmetic but returns
    log(0) + log1p(inf) = NaN on the axes."""
    rep = ctx.rep
    name = 'a_complex_logabs'
    fn = ctx.fn('complex', name, have='none')
    if fn is None:
        rep.unk('CX-8', name, 'anchor vanished')
        return
    loc = fn.loc(fn.entry.instrs[0])
    try:
        dom = CDom(getattr(ctx, 'ctab', {}), set())
        args = []
        syms = [X, Y]
        k = 0
        for t, n in fn.params:
            if t.is_fp:
                args.append(syms[k])
                k += 1
            else:
                raise Unsupported('parameter passing of a_complex by value is not two reals (%r)' % t)
        lv = symx.Interp(dom, lookup_in([ctx.module('complex', have='none'), ctx.module('hdr_unit', have='none')])).run(fn, args)
    except Unsupported as e:
        rep.unk('CX-8', name, str(e))
        return
    probs = []
    n = 0
    ax, ay = sp.Abs(X), sp.Abs(Y)
    for lf in lv:
        n += 1
        ret = sp.sympify(lf.ret)
        cand = None
        for r, q in ((ax, ay), (ay, ax)):
            want = sp.log(r) + sp.log(1 + (q / r) ** 2) / 2
            try:
                if sp.simplify(ret - want) == 0:
                    cand = (r, q)
            except Exception:
                pass
        if cand is None:
            probs.append('path %s returns %s, not log(r) + log1p((q/r)^2)/2' % (lf.pc, show(ret)))
            continue
        r, q = cand
        # the path condition must say r >= q
        okp = False
        for c in lf.pc:
            if isinstance(c, alg.Cond):
                a_, b_ = sp.sympify(c.a), sp.sympify(c.b)
                rel = c.rel()
                if rel in ('>=', '>') and a_ == r and b_ == q:
                    okp = True
                if rel in ('<=', '<') and a_ == q and b_ == r:
                    okp = True
        if not okp:
            probs.append('on the path %s the result is scaled by %s, which is not known to be the larger component: the ratio %s/%s can exceed one and the divisor '
                         'can vanish for z != 0 (NaN on the axes)' % (lf.pc, r, q, r))
    if probs:
        rep.bad('CX-8', name, '; '.join(probs[:2]), loc=loc, key='%s: scaling by the larger component' % name)
    else:
        rep.ok('CX-8', name, '%d paths: log(r) + log1p((q/r)^2)/2 with r >= q on each (= log|z|, ratio <= 1)' % n, loc=loc)


def arg_rule(ctx):
    """CX-9: a_complex_arg(z) = atan2(imag, real) for every z != 0 (both axes included) and 0 only for z = 0: the base function
    that log, pow and pow_real take their angle from."""
    rep = ctx.rep
    name = 'a_complex_arg'
    fn = ctx.fn('complex', name, have='none')
    if fn is None:
        rep.unk('CX-9', name, 'anchor vanished')
        return
    loc = fn.loc(fn.entry.instrs[0])
    try:
        dom = CDom(getattr(ctx, 'ctab', {}), {'a_real_atan2', 'atan2'})
        if [t.is_fp for t, n in fn.params] != [True, True]:
            raise Unsupported('parameter passing of a_complex by value is not two reals')
        lv = symx.Interp(dom, lookup_in([ctx.module('complex', have='none'), ctx.module('hdr_unit', have='none')]),
                         inline=lambda n: n not in ('a_real_atan2',)).run(fn, [X, Y])
    except Unsupported as e:
        rep.unk('CX-9', name, str(e))
        return
    probs = []
    for lf in lv:
        ret = sp.sympify(lf.ret)
        conds = [c for c in lf.pc if isinstance(c, alg.Cond)]
        if ret == 0:
            # only for z = 0: the path condition must force both components to zero
            zero = {str(sp.sympify(c.a)) for c in conds if c.rel() == '==' and sp.sympify(c.b) == 0}
            if not {'x', 'y'} <= zero:
                probs.append('returns 0 on the path %s, which does not force both components to be zero (e.g. a purely %s argument)' % (
                    lf.pc, 'imaginary' if 'y' not in zero else 'real'))
        else:
            f = [t for t in ret.atoms(sp.Function) if 'atan2' in str(t.func)]
            if len(f) != 1 or sp.simplify(ret - f[0]) != 0 or list(f[0].args) != [Y, X]:
                probs.append('returns %s on the path %s, expected atan2(imag, real)' % (show(ret), lf.pc))
    if probs:
        rep.bad('CX-9', name, '; '.join(probs[:2]), loc=loc, key='%s: principal argument' % name)
    else:
        rep.ok('CX-9', name, '%d paths: atan2(imag, real) unless both components are zero' % len(lv), loc=loc)


def eq_rule(ctx):
    """CX-10: a_complex_eq is true exactly when both components are equal, a_complex_ne is its negation"""
    rep = ctx.rep
    for name, want_true in (('a_complex_eq', True), ('a_complex_ne', False)):
        fn = ctx.fn('complex', name, have='none')
        if fn is None:
            rep.unk('CX-10', name, 'anchor vanished')
            continue
        loc = fn.loc(fn.entry.instrs[0])
        try:
            dom = CDom(getattr(ctx, 'ctab', {}), set())
            if [t.is_fp for t, n in fn.params] != [True] * 4:
                raise Unsupported('parameters are not four reals')
            lv = symx.Interp(dom, lambda n: None).run(fn, [X, Y, U, V])
            probs = []
            for lf in lv:
                r = dom.concrete(lf.ret) if not isinstance(lf.ret, (alg.Cond, alg.BoolOp)) else None
                eqs = set()
                nes = set()
                for c in lf.pc:
                    if isinstance(c, alg.Cond) and c.rel() in ('==', '!='):
                        pair = frozenset((str(sp.sympify(c.a)), str(sp.sympify(c.b))))
                        (eqs if c.rel() == '==' else nes).add(pair)
                both = {frozenset(('x', 'u')), frozenset(('y', 'v'))}
                if r is None:
                    # the result is the last comparison itself: fine when the path already fixed the other component
                    res = lf.ret
                    if isinstance(res, alg.Cond):
                        pair = frozenset((str(sp.sympify(res.a)), str(sp.sympify(res.b))))
                        rel = res.rel()
                        if want_true and not (rel == '==' and (eqs | {pair}) == both):
                            probs.append('returns %s on the path %s' % (res, lf.pc))
                        if not want_true and not (rel == '!=' and (eqs | {pair}) == both):
                            probs.append('returns %s on the path %s' % (res, lf.pc))
                    else:
                        probs.append('result %s is not a definite truth value' % (res,))
                    continue
                is_equal_path = eqs == both
                differs_path = bool(nes & both)
                if want_true and ((r != 0) != is_equal_path) and (is_equal_path or differs_path):
                    probs.append('returns %s on the path %s' % (r, lf.pc))
                if not want_true and ((r != 0) != differs_path) and (is_equal_path or differs_path):
                    probs.append('returns %s on the path %s' % (r, lf.pc))
            if probs:
                rep.bad('CX-10', name, '; '.join(probs[:2]), loc=loc, key='%s: component-wise comparison' % name)
            else:
                rep.ok('CX-10', name, '%d paths: %s exactly when both components are equal' % (len(lv), 'true' if want_true else 'false'), loc=loc)
        except Unsupported as e:
            rep.unk('CX-10', name, str(e), loc=loc)
