"""C08 - LU / LDL^T / Cholesky factorizations and the routines derived from them (DESIGN 4 C08).

AFF statement trees (lib/scev.py) with a symbolic order n are compared (lib/afftree.py) with the reference algorithms written
below: in-place Doolittle elimination with partial pivoting (arg-max fold, failure guard, permutation/sign/row swap in one
conditional, multiplier division by the pivot), LDL^T and Cholesky-Banachiewicz with their failure guards before the
division / square root, forward and backward substitution in plain and strided form, the solve / inverse compositions, and
the determinant / log-determinant / sign folds over the diagonal.
Decided: the code IS the reference algorithm for every n (loop bounds, index maps, operand roles, guards, order of
dependent statements).  Not decided: anything about rounding (residual bounds, growth, conditioning)."""
import struct, sys
import sympy as sp
import scev, afftree, irx, fm
from scev import Cmp, sel
from afftree import Spec, fold, Diff
from symx import Unsupported

LEVEL = 'other'
AFF_PASSES = 'sroa,mem2reg,instsimplify,simplifycfg,loop-simplify,lcssa'
n = sp.Symbol('n', integer=True, positive=True)
SIGN = sp.Symbol('sign', integer=True, positive=True)


def rmin(real):
    if real == 8:
        return sp.Rational(repr(sys.float_info.min))
    return sp.Rational(repr(struct.unpack('<f', struct.pack('<I', 0x00800000))[0]))


def below(measure, MIN):
    c = Cmp('lt', measure, MIN)
    c.threshold = True
    return c


# ---------------------------------------------------------------- reference algorithms
def forward(S, L, y, ymap, unit, start=0, first=0):
    """rows r = start..n-1:  y_r -= sum_{first <= c < r} L_rc y_c ; y_r /= L_rr unless unit"""
    with S.loop('r', start, n) as r:
        with S.loop('c', first, r) as c:
            S.set(y, ymap(r), S.L(y, ymap(r)) - S.L(L, n * r + c) * S.L(y, ymap(c)))
        if not unit:
            S.set(y, ymap(r), S.L(y, ymap(r)) / S.L(L, n * r + r))


def backward_U(S, U, x, xmap):
    """rows r = n-1..0:  x_r -= sum_{c > r} U_rc x_c ; x_r /= U_rr"""
    with S.loop('r', 0, n, 'desc') as r:
        with S.loop('c', r + 1, n) as c:
            S.set(x, xmap(r), S.L(x, xmap(r)) - S.L(U, n * r + c) * S.L(x, xmap(c)))
        S.set(x, xmap(r), S.L(x, xmap(r)) / S.L(U, n * r + r))


def backward_LT(S, L, x, xmap, d_first):
    """L^T x = y (d_first: D L^T x = y): columns c = n-1..0"""
    with S.loop('c', 0, n, 'desc') as c:
        if d_first:
            S.set(x, xmap(c), S.L(x, xmap(c)) / S.L(L, (n + 1) * c))
        with S.loop('r', c + 1, n) as r:
            S.set(x, xmap(c), S.L(x, xmap(c)) - S.L(L, n * r + c) * S.L(x, xmap(r)))
        if not d_first:
            S.set(x, xmap(c), S.L(x, xmap(c)) / S.L(L, (n + 1) * c))


plain = lambda k: k
strided = lambda k: n * k


def s_plu(S, MIN):
    S.tie_free = True      # which of several rows with the same largest magnitude becomes the pivot is not part of the property
    S.set('sign', 0, sp.Integer(1))
    with S.loop('i', 0, n) as i:
        S.set('p', i, i)
    with S.loop('i', 0, n) as i:
        Fa, Fx, Fi = fold('abs'), fold('max'), fold('idx')
        piv0 = S.L('A', n * i + i)

        folds = {}
        lp = S.loop('r', i + 1, n, 'asc', folds)
        with lp as r:
            cand = S.L('A', n * r + i)
            better = lambda new, old: scev.mksel('gt', sp.Abs(cand), Fa, new, old)
            folds[Fa] = (sp.Abs(piv0), better(sp.Abs(cand), Fa))
            folds[Fx] = (piv0, better(cand, Fx))
            folds[Fi] = (i, better(r, Fi))
        S.exitif(below(Fa, MIN), 1)
        with S.cond(Cmp('ne', Fi, i)):
            t0, t1 = S.L('p', Fi), S.L('p', i)   # both permutation entries are read before either is written
            S.set('p', i, t0)
            S.set('p', Fi, t1)
            S.set('sign', 0, -S.L('sign', 0))
            S.call('a_real_swap', n, S.ptr('A', n * i), S.ptr('A', n * Fi))
        with S.loop('r', i + 1, n) as r:
            x = S.L('A', n * r + i) / Fx
            with S.loop('c', i + 1, n) as c:
                S.set('A', n * r + c, S.L('A', n * r + c) - S.L('A', n * i + c) * x)
            S.set('A', n * r + i, x)
    S.ret(0)


def s_ldl(S, MIN):
    with S.loop('c', 0, n) as c:
        with S.loop('i', 0, c) as i:
            S.set('A', n * c + c, S.L('A', n * c + c) - S.L('A', n * c + i) ** 2 * S.L('A', n * i + i))
        S.exitif(below(sp.Abs(S.L('A', n * c + c)), MIN), 1)
        with S.loop('r', c + 1, n) as r:
            with S.loop('i', 0, c) as i:
                S.set('A', n * r + c, S.L('A', n * r + c) - S.L('A', n * r + i) * S.L('A', n * c + i) * S.L('A', n * i + i))
            S.set('A', n * r + c, S.L('A', n * r + c) / S.L('A', n * c + c))
    S.ret(0)


def s_llt(S, MIN):
    with S.loop('r', 0, n) as r:
        with S.loop('c', 0, r) as c:
            with S.loop('i', 0, c) as i:
                S.set('A', n * r + c, S.L('A', n * r + c) - S.L('A', n * r + i) * S.L('A', n * c + i))
            S.set('A', n * r + c, S.L('A', n * r + c) / S.L('A', n * c + c))
        with S.loop('i', 0, r) as i:
            S.set('A', n * r + r, S.L('A', n * r + r) - S.L('A', n * r + i) ** 2)
        S.exitif(below(S.L('A', n * r + r), MIN), 1)
        S.set('A', n * r + r, sp.sqrt(S.L('A', n * r + r)))
    S.ret(0)


def s_P(S, MIN, by_rows):
    with S.loop('r', 0, n) as r:
        with S.loop('c', 0, n) as c:
            S.set('P', n * r + c, sp.KroneckerDelta(c, S.L('p', r)) if by_rows else sp.KroneckerDelta(S.L('p', c), r))


def s_apply(S, MIN):
    with S.loop('i', 0, n) as i:
        S.set('Pb', i, S.L('b', S.L('p', i)))


def s_calls(*calls):
    def f(S, MIN):
        for name, args in calls:
            S.call(name, *[a(S) if callable(a) else a for a in args])
    return f


A_, b_, x_, p_, I_, L_, U_, d_ = [sp.Symbol(k, real=True) for k in ('A', 'b', 'x', 'p', 'I', 'L', 'U', 'd')]


def s_plu_inv(S, MIN):
    S.call('a_real_plu_P', n, p_, I_)
    with S.loop('c', 0, n) as c:
        with S.loop('r', 0, n) as r:
            S.set('b', r, S.L('I', n * r + c))
        S.call('a_real_plu_lower', n, A_, b_)
        S.call('a_real_plu_upper', n, A_, b_)
        with S.loop('r', 0, n) as r:
            S.set('I', n * r + c, S.L('b', r))


def s_plu_inv_(S, MIN):
    S.call('a_real_plu_P', n, p_, I_)
    with S.loop('i', 0, n) as i:
        S.call('a_real_plu_lower_', n, A_, S.ptr('I', i))
        S.call('a_real_plu_upper_', n, A_, S.ptr('I', i))


def s_sym_inv(upper, unit):
    """column i of the inverse: e_i has zeros above row i, so the forward sweep starts at row/column i"""
    def f(S, MIN):
        with S.loop('i', 0, n) as i:
            with S.loop('r', 0, n) as r:
                S.set('b', r, sp.Integer(0))
            S.set('b', i, sp.Integer(1))
            with S.loop('r', i, n) as r:
                with S.loop('c', i, r) as c:
                    S.set('b', r, S.L('b', r) - S.L('A', n * r + c) * S.L('b', c))
                if not unit:
                    S.set('b', r, S.L('b', r) / S.L('A', n * r + r))
            S.call(upper, n, A_, b_)
            with S.loop('r', 0, n) as r:
                S.set('I', n * r + i, S.L('b', r))
    return f


def s_sym_inv_(upper, unit):
    def f(S, MIN):
        with S.loop('i', 0, n) as i:
            with S.loop('r', 0, n) as r:
                S.set('I', n * r + i, sp.KroneckerDelta(r, i))
            with S.loop('r', i, n) as r:
                with S.loop('c', i, r) as c:
                    S.set('I', n * r + i, S.L('I', n * r + i) - S.L('A', n * r + c) * S.L('I', n * c + i))
                if not unit:
                    S.set('I', n * r + i, S.L('I', n * r + i) / S.L('A', n * r + r))
            S.call(upper, n, A_, S.ptr('I', i))
    return f


def s_diag_fold(init, step, result):
    def f(S, MIN):
        F = fold('acc')
        folds = {}
        with S.loop('i', 0, n, 'asc', folds) as i:
            folds[F] = (init, step(F, S.L('A', (n + 1) * i)))
        S.ret(result(F))
    return f


def s_sgndet(init):
    def f(S, MIN):
        F = fold('sgn')
        folds = {}
        with S.loop('i', 0, n, 'asc', folds) as i:
            d = S.L('A', (n + 1) * i)
            folds[F] = (init, scev.mksel('lt', d, 0, -F, F))
            top = S.stack[-1]
            top[2].append(('if', Cmp('lt', d, 0), [], [('exitif', Cmp('eq', d, 0), [('ret', 0, None)], None)], None))
            top[1] += 1
        S.ret(F)
    return f


SPECS = {
    'linalg_plu': {
        'a_real_plu': ('F', s_plu),
        'a_real_plu_P': ('D', lambda S, M: s_P(S, M, True)),
        'a_real_plu_P_': ('D', lambda S, M: s_P(S, M, False)),
        'a_real_plu_L': ('D', s_calls(('a_real_triL1', (n, A_, L_)))),
        'a_real_plu_U': ('D', s_calls(('a_real_triU', (n, A_, U_)))),
        'a_real_plu_apply': ('D', s_apply),
        'a_real_plu_lower': ('S', lambda S, M: forward(S, 'L', 'y', plain, True)),
        'a_real_plu_lower_': ('S', lambda S, M: forward(S, 'L', 'y', strided, True)),
        'a_real_plu_upper': ('S', lambda S, M: backward_U(S, 'U', 'x', plain)),
        'a_real_plu_upper_': ('S', lambda S, M: backward_U(S, 'U', 'x', strided)),
        'a_real_plu_solve': ('D', s_calls(('a_real_plu_apply', (n, p_, b_, x_)), ('a_real_plu_lower', (n, A_, x_)), ('a_real_plu_upper', (n, A_, x_)))),
        'a_real_plu_inv': ('D', s_plu_inv),
        'a_real_plu_inv_': ('D', s_plu_inv_),
        'a_real_plu_det': ('D', s_diag_fold(SIGN, lambda F, d: F * d, lambda F: F)),
        'a_real_plu_lndet': ('D', s_diag_fold(0, lambda F, d: F + sp.log(sp.Abs(d)), lambda F: F)),
        'a_real_plu_sgndet': ('D', s_sgndet(SIGN)),
    },
    'linalg_ldl': {
        'a_real_ldl': ('F', s_ldl),
        'a_real_ldl_L': ('D', s_calls(('a_real_triL1', (n, A_, L_)))),
        'a_real_ldl_D': ('D', s_calls(('a_real_diag1', (n, A_, d_)))),
        'a_real_ldl_lower': ('S', lambda S, M: forward(S, 'L', 'y', plain, True)),
        'a_real_ldl_lower_': ('S', lambda S, M: forward(S, 'L', 'y', strided, True)),
        'a_real_ldl_upper': ('S', lambda S, M: backward_LT(S, 'L', 'x', plain, True)),
        'a_real_ldl_upper_': ('S', lambda S, M: backward_LT(S, 'L', 'x', strided, True)),
        'a_real_ldl_solve': ('D', s_calls(('a_real_ldl_lower', (n, A_, x_)), ('a_real_ldl_upper', (n, A_, x_)))),
        'a_real_ldl_inv': ('D', s_sym_inv('a_real_ldl_upper', True)),
        'a_real_ldl_inv_': ('D', s_sym_inv_('a_real_ldl_upper_', True)),
        'a_real_ldl_det': ('D', s_diag_fold(1, lambda F, d: F * d, lambda F: F)),
        'a_real_ldl_lndet': ('D', s_diag_fold(0, lambda F, d: F + sp.log(sp.Abs(d)), lambda F: F)),
        'a_real_ldl_sgndet': ('D', s_sgndet(1)),
    },
    'linalg_llt': {
        'a_real_llt': ('F', s_llt),
        'a_real_llt_L': ('D', s_calls(('a_real_triL', (n, A_, L_)))),
        'a_real_llt_lower': ('S', lambda S, M: forward(S, 'L', 'y', plain, False)),
        'a_real_llt_lower_': ('S', lambda S, M: forward(S, 'L', 'y', strided, False)),
        'a_real_llt_upper': ('S', lambda S, M: backward_LT(S, 'L', 'x', plain, False)),
        'a_real_llt_upper_': ('S', lambda S, M: backward_LT(S, 'L', 'x', strided, False)),
        'a_real_llt_solve': ('D', s_calls(('a_real_llt_lower', (n, A_, x_)), ('a_real_llt_upper', (n, A_, x_)))),
        'a_real_llt_inv': ('D', s_sym_inv('a_real_llt_upper', False)),
        'a_real_llt_inv_': ('D', s_sym_inv_('a_real_llt_upper_', False)),
        'a_real_llt_det': ('D', s_diag_fold(1, lambda F, d: F * d, lambda F: F ** 2)),
        'a_real_llt_lndet': ('D', s_diag_fold(0, lambda F, d: F + sp.log(d), lambda F: 2 * F)),
    },
}


def run(ctx):
    rep = ctx.rep
    rep.explanation = ('statement trees with symbolic order n (induction-variable closed forms, trip counts, index polynomials, early exits, '
                       'conditionals, data-dependent folds) compared with the reference algorithms: pivoted Doolittle, LDL^T, Cholesky, the '
                       'substitution sweeps, their compositions and the diagonal folds')
    rep.rule_text = ('F factorization = reference (pivot arg-max fold, failure guard before the division/sqrt, swap/sign/permutation in one '
                     'conditional); S substitution sweeps (plain and strided); D derived routines (P, apply, solve, inverse, det, lndet, sgndet)')
    rep.trusted += ['lib/scev.py, lib/afftree.py, lib/fm.py', 'the reference algorithms in props/C08.py are the textbook ones (Golub & Van Loan alg. 3.4.1, 4.1.2, 4.2.1)']
    rep.assumptions += ['integer index arithmetic does not wrap', 'arrays passed as different parameters do not overlap',
                        'IEEE operations read as exact real operations: residual bounds, growth and conditioning are NOT decided',
                        'a_real_swap, a_real_triL/triL1/triU, a_real_diag1 behave as decided under C11/C09']
    configs = [('all', 8)]
    if ctx.tier == 'thorough':
        configs += [('all', 4), ('none', 8)]
    total = 0
    for have, real in configs:
        tag = '' if (have, real) == ('all', 8) else ' [%s/f%d]' % (have, real * 8)
        for unit, table in SPECS.items():
            mod = ctx.module(unit, have=have, real=real, passes=AFF_PASSES)
            for name, (rule, spec) in table.items():
                total += 1
                fn = mod.functions.get(name)
                if fn is None or fn.error:
                    rep.unk(rule, name + tag, 'anchor vanished from src/%s.c' % unit)
                    continue
                rep.functions.add(name)
                check(ctx, mod, fn, rule, name + tag, spec, real)
                if name.endswith('_sgndet'):
                    sign_not_from_product(ctx, mod, fn, name + tag)
                if name in ('a_real_plu', 'a_real_ldl', 'a_real_llt'):
                    multipliers_are_quotients(ctx, fn, name + tag)
    k = len(configs)
    rep.floor('F', 3 * k)
    rep.floor('P1', 3 * k)
    rep.floor('P2', 2 * k)
    rep.floor('P3', 2 * k)
    rep.floor('S', 12 * k)
    rep.floor('D', 25 * k)


def guard_order(tree):
    """P1: a pivot cell that a failure guard tests must not be square-rooted or divided by in an item that precedes the guard in
    the same body; -> list of messages"""
    out = []

    def cells(e):
        return set((str(t.args[0]), sp.expand(t.args[1])) for t in e.atoms(sp.Function) if t.func == scev.ld) if isinstance(e, sp.Basic) else set()

    def uses(e, cell):
        if not isinstance(e, sp.Basic):
            return False
        for p_ in e.atoms(sp.Pow):
            b_, ex = p_.args
            if (ex.is_negative or ex == sp.Rational(1, 2)) and cell in cells(b_):
                return True
        return False

    def stores_of(items):
        for t in items:
            if t[0] == 'store':
                yield t
            elif t[0] == 'loop':
                for x in stores_of(t[3]):
                    yield x
            elif t[0] == 'if':
                for x in stores_of(t[2]):
                    yield x
                for x in stores_of(t[3]):
                    yield x

    def walk(items):
        for k, t in enumerate(items):
            if t[0] == 'exitif' and not t[1].fp is None:
                meas = cells(sp.sympify(t[1].a)) | cells(sp.sympify(t[1].b))
                for cell in meas:
                    for st_ in stores_of(items[:k]):
                        if uses(st_[3], cell):
                            out.append('%s[%s] is square-rooted / divided by at %s before the failure test on it at %s' % (cell[0], cell[1], st_[4], t[3]))
            if t[0] == 'loop':
                walk(t[3])
            elif t[0] == 'if':
                walk(t[2])
                walk(t[3])
    walk(tree)
    return out


def multipliers_are_quotients(ctx, fn, sym):
    """P3: "duplicated rows are reported as failure" rests on a multiplier that is EXACTLY 1 for a row equal to the pivot row, so that
    the row cancels to exact zeros and the next pivot vanishes.  x / p has that property (p / p = 1), x * (1 / p) has not (49 * (1/49) is
    1 - 2^-53): the factorizations must not multiply by a reciprocal."""
    rep = ctx.rep
    recips = [i for i in fn.instrs() if i.op == 'fdiv' and i.ops[0].k == 'fp' and i.ops[0].v == 1.0]
    used = []
    for r in recips:
        for i in fn.instrs():
            if i.op == 'fmul' and any(o.k == 'reg' and o.v == r.res for o in i.ops):
                used.append((r, i))
            elif i.op == 'phi' and any(o.k == 'reg' and o.v == r.res for o in i.ops):
                for j in fn.instrs():
                    if j.op == 'fmul' and any(o.k == 'reg' and o.v == i.res for o in j.ops):
                        used.append((r, j))
    if used:
        rep.bad('P3', sym, 'an element is multiplied by a reciprocal (1 / pivot) where the quotient element / pivot is meant: the multiplier of a row equal to '
                'the pivot row is then not exactly 1, the row does not cancel and an exactly singular input is not reported', loc=fn.loc(used[0][1]),
                key='%s: reciprocal multiplier' % fn.name)
    else:
        rep.ok('P3', sym, 'no product with a reciprocal: multipliers and scaled columns are quotients by the pivot (%d divisions)' % len([i for i in fn.instrs() if i.op == 'fdiv']),
               loc=fn.loc(fn.entry.instrs[0]))


def sign_not_from_product(ctx, mod, fn, sym):
    """P2: the sign of the determinant is the parity of the negative pivots (times the permutation sign), read off the pivots one
    by one.  A sign taken from the floating-point product - a call of the determinant routine, or any multiplication of reals in
    the function - is 0 when the product underflows although no pivot vanishes (and the logarithm of |det| stays finite)."""
    rep = ctx.rep
    import effects
    bad = []
    for i in fn.instrs():
        if i.op in ('fmul', 'fdiv'):
            bad.append((i, 'a floating-point %s' % ('product' if i.op == 'fmul' else 'quotient')))
        elif i.op == 'call':
            cn = effects.callee_name(i) or ''
            if cn.endswith('_det') or cn.endswith('_lndet') or cn in ('exp', 'expf', 'a_real_exp'):
                bad.append((i, 'a call of %s' % cn))
    if bad:
        rep.bad('P2', sym, 'the sign is derived from %s: it underflows to 0 for a regular, badly scaled matrix whose pivots are all far from zero' % bad[0][1],
                loc=fn.loc(bad[0][0]), key='%s: sign from the product' % fn.name)
    else:
        rep.ok('P2', sym, 'no product of reals and no determinant call: the sign is read off the pivots', loc=fn.loc(fn.entry.instrs[0]))


def check(ctx, mod, fn, rule, sym, spec, real):
    rep = ctx.rep
    name = fn.name
    try:
        a, impl = scev.emit_pruned(lambda: scev.Aff(fn, lookup=lambda x: mod.functions.get(x)))
        if rule == 'F':
            bad = guard_order(impl)
            if bad:
                rep.bad('P1', sym, bad[0] + ': a negative pivot becomes NaN, which the test lets through', loc=fn.loc(None), key='%s: pivot used before the failure test' % name)
            else:
                rep.ok('P1', sym, 'no pivot cell is square-rooted or divided by ahead of its failure test')
        S = Spec(elem=real)
        spec(S, rmin(real))
        cnt = afftree.compare(a, impl, S.tree(), tie_free=getattr(S, 'tie_free', False))
        rep.ok(rule, sym, 'equals the reference algorithm: %d statements/folds/guards matched for symbolic n' % cnt,
               sample={'tree': scev.show(impl)[:12]})
    except Diff as d:
        if d.kind == 'point':
            rep.bad(rule, sym, d.msg, loc=d.loc or fn.loc(None), key='%s: %s' % (name, keyof(d.msg)))
        else:
            rep.unk(rule, sym, 'cannot be aligned with the reference algorithm: %s' % d.msg)
    except Unsupported as e:
        rep.unk(rule, sym, 'outside the affine fragment: %s' % e)
    except fm.NonLinear as e:
        rep.unk(rule, sym, 'non-polynomial term: %s' % e)


def keyof(msg):
    for k in ('statement missing', 'early exit', 'loop', 'carried value', 'assignment to', 'argument', 'call to', 'branch on', 'returns'):
        if msg.startswith(k):
            return k
    return 'statement'
