"""C03 - tree iterators and tear (DESIGN 4 C03).
I3 reference step tables for every traversal and the tear effects (props/C03_steps.py, SHAPE on generic neighbourhoods),
I1 four-way agreement (avl/rbt x left/right mirror) of every iterator family by canonical-IR isomorphism,
I2 iteration-protocol macros pair the documented head and step functions."""
import re, os
import irx, llir, sib, dwarf

LEVEL = 'other'

FAMILIES = [  # (forward name, mirrored name)
    ('head', 'tail'), ('next', 'prev'), ('pre_next', 'pre_prev'), ('post_head', 'post_tail'), ('post_next', 'post_prev')]
TREES = [('avl', -4), ('rbt', -2)]


def roles_for(ctx, tree):
    """field labels of the node struct from the debug info: left -> L, right -> R, parent word -> P"""
    md = dwarf.MD(ctx.module(tree))
    st = md.structs().get('a_%s_node' % tree)
    if not st:
        raise RuntimeError('node struct vanished')
    lab = {}
    for i, m in enumerate(st['members']):
        lab[i] = {'left': 'L', 'right': 'R', 'parent_': 'P', 'parent': 'P'}.get(m['name'], m['name'])
    return {'a_%s_node' % tree: ('NODE', lab), 'a_%s' % tree: ('ROOT', {0: 'node'})}


def consts_for(mask):
    def c(ins, k, v):
        if ins.op == 'and' and v in (mask, mask & 0xFFFFFFFFFFFFFFFF):
            return 'MASK'
        if ins.op == 'and' and v == (~mask & 0xFFFFFFFFFFFFFFFF) & 0xF:
            return 'TAGMASK'
        return None
    return c


def run(ctx):
    rep = ctx.rep
    rep.explanation = ('I3: entry segment and loops of each traversal interpreted on every generic neighbourhood of the current node and compared with the reference step tables; I1: every iterator exists in four copies (AVL / red-black, forward / mirrored); each copy is brought to a canonical, '
                       'name-free IR form with struct fields labelled by role from the debug info (L, R, P) and the tag mask abstracted; '
                       'the forward copy must equal the mirrored copy under L<->R and the AVL copy must equal the red-black copy; the '
                       'iteration macros are checked for the documented (start, step) pairs')
    rep.trusted += ['lib/sib.py canonical form', 'lib/tree.py, lib/symx.py', 'textbook argument that the reference step tables enumerate the documented orders']
    rep.assumptions += ['rule I3 decides every step of every traversal on generic neighbourhoods; that the steps compose to the documented sequence is the textbook argument']
    canon = {}
    for tree, mask in TREES:
        try:
            m = ctx.module(tree)
            roles = roles_for(ctx, tree)
        except Exception as e:
            rep.unk('I1', tree, 'unit not readable: %s' % e)
            continue
        cm = {}
        for n in m.functions:
            if n.startswith('a_%s_' % tree):
                cm[n] = 'a_T_' + n[len('a_%s_' % tree):]
        for fam in FAMILIES:
            for k, suffix in enumerate(fam):
                name = 'a_%s_%s' % (tree, suffix)
                fn = m.functions.get(name)
                if fn is None or fn.error:
                    rep.unk('I1', name, 'anchor vanished')
                    continue
                ctx.rep.functions.add(name)
                # forward copy as is; mirrored copy with L<->R swapped
                mir = {'L': 'R', 'R': 'L'} if k == 1 else {}
                canon[(tree, fam[0], k)] = (fn, sib.canon(fn, roles, mirror=mir, consts=consts_for(mask), callee_map=cm))
        name = 'a_%s_tear' % tree
        fn = m.functions.get(name)
        if fn is not None and not fn.error:
            canon[(tree, 'tear', 0)] = (fn, sib.canon(fn, roles, consts=consts_for(mask), callee_map=cm))
    passed = steps(ctx)
    # pairwise obligations: forward vs mirrored within a tree; avl vs rbt for each copy
    def cmp(a, b, why):
        if a not in canon or b not in canon:
            return
        fa, ca = canon[a]
        fb, cb = canon[b]
        sym = '%s ~ %s' % (fa.name, fb.name)
        kind, info = sib.compare(ca, cb)
        if kind == 'equal':
            rep.ok('I1', sym, 'canonical forms identical under %s (%d instructions)' % (why, len(ca.lines)), loc=fa.loc(fa.entry.instrs[0]),
                   sample={'pair': [fa.name, fb.name], 'symmetry': why, 'instructions': len(ca.lines)})
        elif fa.name in passed and fb.name in passed:
            rep.ok('I1', sym, 'the copies are written differently (%s) but each equals the reference step tables (rule I3)' % kind, loc=fa.loc(fa.entry.instrs[0]))
        elif kind == 'point':
            d = '; '.join('#%d: %s  |  %s' % x for x in info)
            rep.bad('I1', sym, 'the two copies perform different operations at the same place under %s: %s' % (why, d), loc=fa.loc(fa.entry.instrs[0]),
                    key='%s vs %s' % (fa.name, fb.name))
        else:
            rep.unk('I1', sym, 'copies cannot be aligned (%s): one was rewritten' % info, loc=fa.loc(fa.entry.instrs[0]))
    for fam in FAMILIES:
        for tree, _ in TREES:
            cmp((tree, fam[0], 0), (tree, fam[0], 1), 'left<->right')
        cmp(('avl', fam[0], 0), ('rbt', fam[0], 0), 'avl<->rbt')
        cmp(('avl', fam[0], 1), ('rbt', fam[0], 1), 'avl<->rbt')
    cmp(('avl', 'tear', 0), ('rbt', 'tear', 0), 'avl<->rbt')
    macros(ctx)
    links(ctx)
    rep.floor('I0', 2)
    rep.floor('I3', 22)
    rep.floor('I1', 21)
    rep.floor('I2', 28)
    # positive control: mirroring must matter (forward vs forward-with-swap differ)
    k = ('avl', 'next', 0)
    if k in canon:
        fn = canon[k][0]
        roles = roles_for(ctx, 'avl')
        c2 = sib.canon(fn, roles, mirror={'L': 'R', 'R': 'L'}, consts=consts_for(-4))
        kind, _ = sib.compare(canon[k][1], c2)
        if kind != 'equal':
            rep.ok('FIXTURE', 'sib-mirror', 'a function is not its own mirror image: the symmetry is not vacuous')
        else:
            rep.unk('FIXTURE', 'sib-mirror', 'positive control failed')


def links(ctx):
    """I0: every traversal climbs parent links, so it enumerates the tree only if the mutators leave child and parent links in
    agreement.  The link obligations of the C01 / C02 analyses (Final.link_problems on every resulting fragment) are re-run here
    and a broken link is reported against this property as well."""
    import importlib
    import report
    import main as main_
    import tree as tree_
    rep = ctx.rep
    for pid, unit in (('C01', 'avl'), ('C02', 'rbt')):
        sub = report.Report(pid, ctx.tier)
        sctx = main_.Ctx(pid, ctx.tier, ctx.scr, sub)
        sctx._mods, sctx._cfg = ctx._mods, ctx._cfg
        del tree_.LINK_LOG[:]
        try:
            importlib.import_module('props.' + pid).run(sctx)
        except Exception as e:
            rep.unk('I0', unit, 'link analysis failed: %r' % (e,))
            continue
        calls = len(tree_.LINK_LOG)
        nodes = sum(n for n, _ in tree_.LINK_LOG)
        texts = set(t for _, ps in tree_.LINK_LOG for t in ps)
        bad = [o for o in sub.obs if o['status'] == report.VIOL and any(t in o['detail'] for t in texts)]
        rep.functions.update(sub.functions)
        if calls < 100:
            rep.unk('I0', unit, 'only %d link obligations were generated (anchor vanished or analysis broken)' % calls)
        elif bad:
            o = bad[0]
            rep.bad('I0', 'a_%s_insert/remove' % unit, 'a mutator leaves child and parent links in disagreement, so the parent-climbing traversals leave the tree: %s %s: %s'
                    % (o['rule'], o['symbol'], o['detail'][:300]), loc=o.get('loc'), key='%s: links after mutation' % unit)
        else:
            rep.ok('I0', 'a_%s_insert/remove' % unit, 'child and parent links agree in every resulting fragment of the %s analysis (%d fragments, %d nodes)' % (pid, calls, nodes),
                   sample={'unit': unit, 'fragments': calls, 'nodes': nodes})


class _Buf:
    """records the verdicts of one attempt"""
    def __init__(self):
        self.calls = []

    def ok(self, *a, **k):
        self.calls.append(('ok', a, k))

    def bad(self, *a, **k):
        self.calls.append(('bad', a, k))

    def unk(self, *a, **k):
        self.calls.append(('unk', a, k))

    def rank(self):
        return 0 if any(c[0] == 'bad' for c in self.calls) else 1

    def replay(self, rep):
        for kind, a, k in self.calls:
            getattr(rep, kind)(*a, **k)


def steps(ctx):
    """I3: every traversal against the reference step tables (props/C03_steps.py)"""
    from props import C03_steps
    from symx import Unsupported
    rep = ctx.rep
    passed = set()
    for tree_, mask in (('avl', 3), ('rbt', 1)):
        m = ctx.module(tree_)
        lookup = lambda n, m=m: m.functions.get(n)
        todo = []
        for fam in FAMILIES:
            todo.append((fam[0], fam[0], 'l'))
            todo.append((fam[1], fam[0], 'r'))
        todo.append(('tear', 'tear', 'l'))
        for suffix, fam, a in todo:
            name = 'a_%s_%s' % (tree_, suffix)
            fn = m.functions.get(name)
            if fn is None or fn.error:
                rep.unk('I3', name, 'anchor vanished')
                continue
            try:
                if fam == 'tear':
                    # the property fixes children before parents, not left before right: either mirror of the descent will do
                    res = []
                    for a_ in ('l', 'r'):
                        buf = _Buf()
                        try:
                            okf = C03_steps.check_function(buf, fn, lookup, mask, fam, a_, name)
                        except Unsupported as e:
                            okf = False
                            buf.unk('I3', name, 'outside the domain: %s' % e, loc=fn.loc(fn.entry.term))
                        res.append((okf, buf))
                        if okf:
                            break
                    # accepted when one orientation matches; refuted only when both orientations are compared and differ
                    okf, buf = res[-1] if res[-1][0] else sorted(res, key=lambda r: -r[1].rank())[0]
                    buf.replay(rep)
                    if okf:
                        passed.add(name)
                elif C03_steps.check_function(rep, fn, lookup, mask, fam, a, name):
                    passed.add(name)
            except Unsupported as e:
                rep.unk('I3', name, 'outside the domain: %s' % e, loc=fn.loc(fn.entry.term))
    return passed


PROTO = {  # macro suffix -> (start, step); start None = (root)->node
    'foreach': ('head', 'next'), 'foreach_reverse': ('tail', 'prev'),
    'pre_foreach': (None, 'pre_next'), 'pre_foreach_reverse': (None, 'pre_prev'),
    'post_foreach': ('post_head', 'post_next'), 'post_foreach_reverse': ('post_tail', 'post_prev'),
    'fortear': ('tear', 'tear'),
}


def macros(ctx):
    rep = ctx.rep
    for tree, _ in TREES:
        mac = irx.macros(ctx.scr, ctx.cfg('all', 8), 'a/%s.h' % tree)
        for suf, (start, step) in PROTO.items():
            for nm in ('a_%s_%s' % (tree, suf), ('A_%s_%s' % (tree, suf)).upper()):
                if nm not in mac:
                    rep.unk('I2', nm, 'macro vanished')
                    continue
                params, body = mac[nm]
                body = body.replace(' ', '')
                cur = (params or '(cur').strip('()').split(',')[0].strip()
                want_start = 'a_%s_%s(' % (tree, start) if start else '(root)->node'
                want_step = '%s=a_%s_%s(' % (cur, tree, step)
                # for (init; cond; step)
                m = re.search(r'for\((.*);(.*);(.*)\)$', body)
                probs = []
                if not m:
                    probs.append('not a for-loop header: %s' % body[:80])
                else:
                    init, cond, stp = m.group(1), m.group(2), m.group(3)
                    if want_start not in init:
                        probs.append('starts with %s, documented start is %s' % (init[:60], want_start))
                    if not stp.startswith(want_step):
                        probs.append('steps with %s, documented step is %s...)' % (stp[:60], want_step))
                    calls = set(re.findall(r'a_%s_(\w+)\(' % tree, body))
                    allowed = set(x for x in (start, step) if x) | {'node'}
                    if calls - allowed:
                        probs.append('also calls %s' % sorted(calls - allowed))
                if probs:
                    rep.bad('I2', nm, '; '.join(probs), loc='include/a/%s.h' % tree, key='%s: protocol' % nm)
                else:
                    rep.ok('I2', nm, 'starts at %s and steps with a_%s_%s' % (want_start.rstrip('('), tree, step), sample={'macro': nm, 'body': body[:120]})
