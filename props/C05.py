"""C05 - lists and queue (DESIGN 4 C05).
L1 list.h / slist.h primitives on symbolic heaplets for every aliasing case of the documented precondition (SHAPE),
Q1 recycle / allocate pairing, Q2 no by-value copy of an object holding its own address, Q3 node-pool bounds,
Q5 count pairing (PATH over que.c)."""
import itertools
import sympy as sp
import llir, symx, shape, alg, path, effects
from shape import Heap, HeapDom
from symx import Ptr, Unsupported, NULL, TOP

LEVEL = 'other'
NXT, PRV = 0, 8


def lookup_in(mods):
    def lk(name):
        for m in mods:
            f = m.functions.get(name)
            if f is not None and not f.error:
                return f
        return None
    return lk


def segs(prefix):
    """instances of a possibly empty segment X*: lengths 0, 1, 2 and 2 + summary (stands for any longer chain)"""
    return [[], [prefix + '1'], [prefix + '1', prefix + '2'], [prefix + '1', 'S' + prefix, prefix + '2']]


def segs1(prefix):
    return [s for s in segs(prefix) if s]


def ring_of(leaf, heap, start, orig):
    w = shape.succ_word(leaf, heap, start, NXT, orig=orig)
    return w


def check_ring(leaf, heap, start, want, orig):
    """cyclic word from `start` equals `want` and prev links mirror next links"""
    w = shape.succ_word(leaf, heap, start, NXT, orig=orig)
    probs = []
    if w != want:
        probs.append('ring from %s is %s, expected %s' % (start, w, want))
        return probs
    k = len(want)
    for i, n in enumerate(want):
        if n in heap.summary:
            continue
        nx = want[(i + 1) % k]
        pv = want[(i - 1) % k]
        v = shape.cell(leaf, heap, n, PRV)
        if not (isinstance(v, Ptr) and v.base == pv and v.off == 0):
            probs.append('%s.prev is %s, expected %s' % (n, v, pv))
    # summary nodes: their own cells must be untouched, neighbours still point at them (covered by the word)
    return probs


def orig_of(heap_rings):
    """original links of summary nodes (their cells are lazy)"""
    o = {}
    for names in heap_rings:
        k = len(names)
        for i, n in enumerate(names):
            if n.startswith('S'):
                o[(n, NXT)] = names[(i + 1) % k]
                o[(n, PRV)] = names[(i - 1) % k]
    return o


class Case:
    def __init__(self, label, rings, args, post, floating=(), chains=(), unchanged=()):
        self.label, self.rings, self.args, self.post = label, rings, args, post
        self.floating, self.chains, self.unchanged = floating, chains, unchanged


def list_cases(name):
    """-> list of Case for the primitive `name` (patterns of specs/list_ops.json)"""
    C = []
    if name in ('a_list_ctor', 'a_list_init', 'a_list_dtor'):
        C.append(Case('floating', [], ['ctx'], [['ctx']], floating=['ctx']))
    elif name == 'a_list_add_next':
        for A in segs('a'):
            C.append(Case('A=%d' % len(A), [['ctx'] + A], ['ctx', 'node'], [['ctx', 'node'] + A], floating=['node']))
    elif name == 'a_list_add_prev':
        for A in segs('a'):
            C.append(Case('A=%d' % len(A), [['ctx'] + A], ['ctx', 'node'], [['ctx'] + A + ['node']], floating=['node']))
    elif name == 'a_list_del_node':
        for A in segs('a'):
            post = [A] if A else [['node']]
            C.append(Case('A=%d' % len(A), [['node'] + A], ['node'], post, unchanged=[('node', NXT), ('node', PRV)]))
    elif name == 'a_list_del_next':
        C.append(Case('single', [['node']], ['node'], [['node']]))
        for A in segs('a'):
            C.append(Case('A=%d' % len(A), [['node', 'x'] + A], ['node'], [['node'] + A]))
    elif name == 'a_list_del_prev':
        C.append(Case('single', [['node']], ['node'], [['node']]))
        for A in segs('a'):
            C.append(Case('A=%d' % len(A), [['node'] + A + ['x']], ['node'], [['node'] + A]))
    elif name == 'a_list_del_':
        for sec in (['h'], ['h', 't'], ['h', 'Sh', 't']):
            C.append(Case('p==n sec=%d' % len(sec), [['p'] + sec], [sec[0], sec[-1]], [['p']]))
            for R in segs('r'):
                C.append(Case('sec=%d R=%d' % (len(sec), len(R)), [['p'] + sec + ['n'] + R], [sec[0], sec[-1]], [['p', 'n'] + R]))
    elif name == 'a_list_set_node':
        for A in segs('a'):
            C.append(Case('A=%d' % len(A), [['ctx'] + A], ['ctx', 'rhs'], [['rhs'] + A], floating=['rhs']))
    elif name == 'a_list_set_':
        for sec in (['h'], ['h', 't'], ['h', 'Sh', 't']):
            for ch in (['c'], ['c', 'd']):
                for R in segs('r'):
                    C.append(Case('sec=%d ch=%d R=%d' % (len(sec), len(ch), len(R)), [['p'] + sec + ['n'] + R], [sec[0], sec[-1], ch[0], ch[-1]],
                                  [['p'] + ch + ['n'] + R], chains=[ch]))
    elif name in ('a_list_mov_next', 'a_list_mov_prev'):
        for A in segs('a'):
            for B in segs('b'):
                if name == 'a_list_mov_next':
                    post = ['ctx'] + B + A
                else:
                    post = ['ctx'] + A + B
                C.append(Case('A=%d B=%d' % (len(A), len(B)), [['ctx'] + A, ['rhs'] + B], ['ctx', 'rhs'], [post]))
    elif name == 'a_list_rot_next':
        C.append(Case('single', [['ctx']], ['ctx'], [['ctx']]))
        for A in segs('a'):
            C.append(Case('A=%d' % len(A), [['ctx'] + A + ['z']], ['ctx'], [['ctx', 'z'] + A]))
    elif name == 'a_list_rot_prev':
        C.append(Case('single', [['ctx']], ['ctx'], [['ctx']]))
        for A in segs('a'):
            C.append(Case('A=%d' % len(A), [['ctx', 'a0'] + A], ['ctx'], [['ctx'] + A + ['a0']]))
    elif name in ('a_list_swap_', 'a_list_swap_node'):
        secs = [(['h'], ['k'])] if name == 'a_list_swap_node' else [(['h'], ['k']), (['h', 't'], ['k']), (['h', 't'], ['k', 'l']), (['h', 'Sh', 't'], ['k', 'l'])]
        for s1, s2 in secs:
            args = [s1[0], s2[0]] if name == 'a_list_swap_node' else [s1[0], s1[-1], s2[0], s2[-1]]
            for Uu in segs('u'):
                for Vv in segs('v'):
                    # same ring, sections separated by at least one node on both sides
                    C.append(Case('same ring %d/%d U=%d V=%d' % (len(s1), len(s2), len(Uu), len(Vv)), [s1 + ['u0'] + Uu + s2 + ['v0'] + Vv], args,
                                  [s2 + ['u0'] + Uu + s1 + ['v0'] + Vv]))
            # two different rings
            C.append(Case('two rings %d/%d' % (len(s1), len(s2)), [s1 + ['u0'], s2 + ['v0']], args, [s2 + ['u0'], s1 + ['v0']]))
    return C


STORE_SPECS = {
    'a_list_link': (['head', 'tail'], [('head', NXT, 'tail'), ('tail', PRV, 'head')]),
    'a_list_loop': (['head', 'tail'], [('head', PRV, 'tail'), ('tail', NXT, 'head')]),
    'a_list_add_': (['head1', 'tail1', 'head2', 'tail2'], [('tail1', NXT, 'head2'), ('head2', PRV, 'tail1'), ('tail2', NXT, 'head1'), ('head1', PRV, 'tail2')]),
    'a_list_add_node': (['head', 'tail', 'node'], [('tail', NXT, 'node'), ('node', PRV, 'tail'), ('node', NXT, 'head'), ('head', PRV, 'node')]),
}


def run(ctx):
    rep = ctx.rep
    rep.explanation = ('list primitives: each inline function is abstractly interpreted on symbolic heaplets instantiated from the documented '
                       'precondition pattern (segments of length 0, 1, 2 and 2+summary; a summary segment whose cells are never read stands '
                       'for a chain of any length), the final store gives the cyclic successor word and the prev links, compared with the '
                       'specified word; queue: PATH rules over que.c for recycle/allocate pairing, struct copies of an object that holds '
                       'its own address, pool index bounds and element-count pairing')
    rep.trusted += ['lib/shape.py heaplet interpreter', 'locality argument: a summary segment whose cells were never read or written behaves like any longer chain']
    rep.assumptions += ['arguments satisfy the documented preconditions (nodes of well-linked rings; sections disjoint and not adjacent)',
                        'queue content equality over arbitrary histories and positional index arithmetic (at/insert/remove walks) are NOT decided']
    hdr = ctx.module('hdr_unit')
    lk = lookup_in([hdr])
    names = ['a_list_ctor', 'a_list_init', 'a_list_dtor', 'a_list_add_next', 'a_list_add_prev', 'a_list_del_', 'a_list_del_node', 'a_list_del_next',
             'a_list_del_prev', 'a_list_set_', 'a_list_set_node', 'a_list_mov_next', 'a_list_mov_prev', 'a_list_rot_next', 'a_list_rot_prev',
             'a_list_swap_', 'a_list_swap_node']
    for name in names:
        fn = ctx.fn('hdr_unit', name)
        if fn is None:
            rep.unk('L1', name, 'anchor vanished')
            continue
        loc = fn.loc(fn.entry.instrs[0])
        cases = list_cases(name)
        bad = []
        unk = []
        nok = 0
        for cs in cases:
            try:
                heap = Heap()
                for r in cs.rings:
                    heap.ring(r)
                for f in cs.floating:
                    heap.node(f)
                for ch in cs.chains:
                    for i, n in enumerate(ch):
                        heap.node(n)
                        if i + 1 < len(ch):
                            heap.set(n, NXT, ch[i + 1])
                            heap.set(ch[i + 1], PRV, n)
                orig = orig_of(cs.rings)
                before = dict(heap.cells)
                dom, lv = shape.run(fn, lk, [Ptr(a, 0) for a in cs.args], heap)
                if len(lv) != 1:
                    unk.append('%s: %d paths' % (cs.label, len(lv)))
                    continue
                lf = lv[0]
                ts = shape.touched_summary(lf, heap)
                if ts:
                    unk.append('%s: reads the cells of summary segment %s (instantiation too small)' % (cs.label, ts))
                    continue
                probs = []
                for want in cs.post:
                    probs += check_ring(lf, heap, want[0], want, orig)
                for (n, off) in cs.unchanged:
                    v = shape.cell(lf, heap, n, off)
                    if v != before.get((n, off)):
                        probs.append('%s.%s changed to %s' % (n, 'next' if off == NXT else 'prev', v))
                if probs:
                    bad.append('[%s] %s' % (cs.label, '; '.join(probs[:2])))
                else:
                    nok += 1
            except Unsupported as e:
                unk.append('%s: %s' % (cs.label, e))
        if bad:
            # one finding per failing case label so that different edge cases are distinguishable
            for b in bad[:4]:
                lab = b[1:b.index(']')]
                rep.bad('L1', '%s[%s]' % (name, lab), b, loc=loc, key='%s: %s' % (name, lab))
            if nok:
                rep.ok('L1', name, '%d other aliasing cases give the specified ring' % nok, loc=loc)
        elif unk:
            rep.unk('L1', name, '; '.join(unk[:2]), loc=loc)
        else:
            rep.ok('L1', name, 'all %d aliasing cases give the specified ring with mirrored prev links' % nok, loc=loc,
                   sample={'fn': name, 'cases': [c.label for c in cases][:6]})
    # definitional primitives: exact stores
    for name, (argn, stores) in STORE_SPECS.items():
        fn = ctx.fn('hdr_unit', name)
        if fn is None:
            rep.unk('L1', name, 'anchor vanished')
            continue
        loc = fn.loc(fn.entry.instrs[0])
        try:
            heap = Heap()
            for a in argn:
                heap.node(a)
            dom, lv = shape.run(fn, lk, [Ptr(a, 0) for a in argn], heap)
            lf = lv[0]
            got = sorted((k[0], k[1], v[0].base if isinstance(v[0], Ptr) else repr(v[0])) for k, v in lf.store.items() if k[0] in argn)
            want = sorted(stores)
            if got == want and len(lv) == 1:
                rep.ok('L1', name, 'performs exactly the documented field assignments', loc=loc)
            else:
                rep.bad('L1', name, 'stores %s, documented %s' % (got, want), loc=loc, key='%s: stores' % name)
        except Unsupported as e:
            rep.unk('L1', name, str(e))
    slist(ctx, lk)
    queue(ctx)
    rep.floor('L1', 21)
    rep.floor('L2', 10)
    rep.floor('Q1', 4)
    rep.floor('Q2', 1)
    rep.floor('Q4', 1)
    rep.floor('Q5', 3)
    rep.floor('Q6', 2)
    rep.floor('Q7', 3)
    rep.floor('Q8', 3)
    rep.floor('Q10', 6)
    rep.floor('Q11', 6)
    rep.floor('Q12', 5)


# ---------------------------------------------------------------- slist
def slist_heap(nodes, summary_mid=False):
    """list object L: head at offset 0 (head.next), tail pointer at offset 8"""
    h = Heap()
    h.node('L')
    chain = list(nodes)
    prev = ('L', 0)
    for n in chain:
        h.node(n, summary=n.startswith('S'))
        if not prev[0].startswith('S'):
            h.set(prev[0], prev[1], n)
        prev = (n, 0)
    if not prev[0].startswith('S'):
        h.set(prev[0], prev[1], None)
    h.set('L', 8, Ptr(chain[-1], 0) if chain else Ptr('L', 0))
    return h


def slist_word(lf, heap, L='L', orig=None):
    w = shape.succ_word(lf, heap, L, 0, orig=orig)
    return w[1:] if w and w[0] == L else w


def slist_check(lf, heap, want, orig, L='L'):
    probs = []
    w = slist_word(lf, heap, L, orig)
    if w != want + [None]:
        probs.append('list is %s, expected %s' % (w, want + [None]))
    t = shape.cell(lf, heap, L, 8)
    wt = want[-1] if want else L
    if not (isinstance(t, Ptr) and t.base == wt and t.off == 0):
        probs.append('tail designates %s, expected %s' % (t, wt))
    return probs


def sl_orig(chain):
    o = {}
    for i, n in enumerate(chain):
        if n.startswith('S'):
            o[(n, 0)] = chain[i + 1] if i + 1 < len(chain) else None
    return o


def chains(prefix):
    return [[], [prefix + '1'], [prefix + '1', prefix + '2'], [prefix + '1', 'S' + prefix, prefix + '2'], [prefix + '1', prefix + '2', prefix + '3']]


def slist(ctx, lk):
    rep = ctx.rep
    specs = []
    for S in chains('s'):
        specs.append(('a_slist_add_head', S, ['L', 'node'], ['node'] + S, ['node']))
        specs.append(('a_slist_add_tail', S, ['L', 'node'], S + ['node'], ['node']))
        specs.append(('a_slist_del_head', S, ['L'], S[1:], []))
        specs.append(('a_slist_rot', S, ['L'], (S[1:] + S[:1]) if S else [], []))
        # add after every position
        for k, pv in enumerate(['L'] + [n for n in S if not n.startswith('S')]):
            idx = 0 if pv == 'L' else S.index(pv) + 1
            specs.append(('a_slist_add', S, ['L', pv, 'node'], S[:idx] + ['node'] + S[idx:], ['node']))
            specs.append(('a_slist_del', S, ['L', pv], S[:idx] + S[idx + 1:] if not (idx < len(S) and S[idx].startswith('S')) else None, []))
    for name in ('a_slist_ctor', 'a_slist_init', 'a_slist_dtor'):
        specs.append((name, None, ['L'], [], []))
    byname = {}
    for sp_ in specs:
        byname.setdefault(sp_[0], []).append(sp_)
    for name, items in sorted(byname.items()):
        fn = ctx.fn('hdr_unit', name)
        if fn is None:
            rep.unk('L2', name, 'anchor vanished')
            continue
        loc = fn.loc(fn.entry.instrs[0])
        bad, unk, nok = [], [], 0
        for (_, S, args, want, floating) in items:
            if want is None:
                continue
            label = 'len=%s args=%s' % ('-' if S is None else len(S), args[1:])
            try:
                heap = slist_heap(S) if S is not None else Heap()
                if S is None:
                    heap.node('L')
                for f in floating:
                    heap.node(f)
                dom, lv = shape.run(fn, lk, [Ptr(a, 0) for a in args], heap)
                if len(lv) != 1:
                    unk.append('%s: %d paths' % (label, len(lv)))
                    continue
                lf = lv[0]
                if shape.touched_summary(lf, heap):
                    unk.append('%s: touches the summary segment' % label)
                    continue
                probs = slist_check(lf, heap, want, sl_orig(S or []))
                if probs:
                    bad.append((label, probs))
                else:
                    nok += 1
            except Unsupported as e:
                unk.append('%s: %s' % (label, e))
        if bad:
            for label, probs in bad[:3]:
                rep.bad('L2', '%s[%s]' % (name, label), '; '.join(probs), loc=loc, key='%s: %s' % (name, label))
            if nok:
                rep.ok('L2', name, '%d other cases give the specified list and tail' % nok, loc=loc)
        elif unk:
            rep.unk('L2', name, '; '.join(unk[:2]), loc=loc)
        else:
            rep.ok('L2', name, 'all %d cases give the specified chain; tail designates the last node (or the head when empty)' % nok, loc=loc)
    # a_slist_mov: two lists
    fn = ctx.fn('hdr_unit', 'a_slist_mov')
    if fn is None:
        rep.unk('L2', 'a_slist_mov', 'anchor vanished')
        return
    loc = fn.loc(fn.entry.instrs[0])
    bad, unk, nok = [], [], 0
    for Cc in [[], ['c1'], ['c1', 'c2']]:
        for T in [[], ['t1'], ['t1', 't2']]:
            for at in ['T'] + T:
                label = 'C=%d T=%d at=%s' % (len(Cc), len(T), at)
                try:
                    h = Heap()
                    for (L, ch) in (('L', Cc), ('T', T)):
                        h.node(L)
                        prev = L
                        for n in ch:
                            h.set(prev, 0, n)
                            prev = n
                        h.set(prev, 0, None)
                        h.set(L, 8, Ptr(ch[-1], 0) if ch else Ptr(L, 0))
                    dom, lv = shape.run(fn, lk, [Ptr('L', 0), Ptr('T', 0), Ptr(at, 0)], h)
                    if len(lv) != 1:
                        unk.append(label)
                        continue
                    lf = lv[0]
                    idx = 0 if at == 'T' else T.index(at) + 1
                    want = T[:idx] + Cc + T[idx:] if Cc else T
                    probs = slist_check(lf, h, want, {}, L='T')
                    if probs:
                        bad.append((label, probs))
                    else:
                        nok += 1
                except Unsupported as e:
                    unk.append('%s: %s' % (label, e))
    if bad:
        for label, probs in bad[:3]:
            rep.bad('L2', 'a_slist_mov[%s]' % label, '; '.join(probs), loc=loc, key='a_slist_mov: %s' % label)
    elif unk:
        rep.unk('L2', 'a_slist_mov', '; '.join(unk[:2]), loc=loc)
    else:
        rep.ok('L2', 'a_slist_mov', 'all %d cases: the source chain is inserted after `at`, destination tail updated' % nok, loc=loc)


# ---------------------------------------------------------------- queue (PATH)
def queue(ctx):
    rep = ctx.rep
    m = ctx.module('que')
    fns = {n: f for n, f in m.functions.items() if not f.error}
    # ---- Q2: no aggregate copy of a_que (it embeds the ring sentinel whose address the ring nodes hold)
    nq2 = 0
    q2seen = set()
    for n, f in sorted(fns.items()):
        for i in f.instrs():
            if i.op != 'call':
                continue
            cn = effects.callee_name(i) or ''
            if cn.startswith('llvm.memcpy') or cn.startswith('llvm.memmove') or cn in ('memcpy', 'memmove'):
                for a in i.ops[:2]:
                    t = path.strip_casts(f, a)
                    ty = t.ty if t.k == 'reg' else None
                    d = f.defs.get(t.v) if t.k == 'reg' else None
                    pty = None
                    if d is not None and d.op == 'alloca':
                        pty = d.x['aty']
                    elif t.k == 'reg':
                        for (pt, pn) in f.params:
                            if pn == t.v and pt.is_ptr:
                                pty = pt.a
                    if pty is not None and pty.k == 'struct' and pty.a.replace('struct.', '') == 'a_que':
                        nq2 += 1
                        # accepted only if the sentinels are re-seated afterwards: stores of &x->head_ into ring neighbours
                        if n in q2seen:
                            break
                        q2seen.add(n)
                        if not reseats(f, i):
                            rep.bad('Q2', n, 'copies a whole a_que (including the embedded ring sentinel head_) by value at %s: the ring nodes keep pointing at the '
                                    'other object\'s sentinel' % f.loc(i), loc=f.loc(i), key='%s: by-value copy of a_que' % n)
                        else:
                            rep.ok('Q2', n, 'whole-object copy followed by re-seating of both ring sentinels', loc=f.loc(i))
                        break
    if nq2 == 0:
        rep.ok('Q2', 'que.c', 'no by-value copy of a_que anywhere in the unit')
    q4_swap(ctx, m)
    # ---- Q1 / Q5: a_que_die_ (recycle) must be followed by the unlink of the same node on the success path; a_que_new_ by a link
    for n, f in sorted(fns.items()):
        for i in f.instrs():
            if i.op != 'call':
                continue
            cn = effects.callee_name(i)
            if cn == 'a_que_die_':
                loc = f.loc(i)
                node = i.ops[1]
                succ = path.edges_entailing(f, ('not', ('atom', 'zero', i.res))) if i.res else []
                # unlink idiom (a_list_del_node inlined): store to (load node.prev).next and (load node.next).prev
                unl = [s for s in f.instrs() if s.op == 'store' and is_neighbour_store(f, s, node)]
                # ... or a file-local helper that unlinks its argument on every path (the idiom moved into a function)
                for c_ in f.instrs():
                    if c_.op == 'call' and c_ is not i and unlinks_argument(fns, effects.callee_name(c_), [k_ for k_, o_ in enumerate(c_.ops)
                            if o_.k == 'reg' and node.k == 'reg' and (o_.v == node.v or path.derived_from(f, o_, node.v))]):
                        unl.append(c_)
                if not i.res or not succ:
                    rep.bad('Q1', '%s@%s' % (n, f.line(i)), 'result of a_que_die_ is not tested', loc=loc, key='%s: die unchecked' % n)
                elif not unl:
                    rep.bad('Q1', '%s@%s' % (n, f.line(i)), 'the recycled node is never unlinked from the ring: it can be handed out while still enqueued', loc=loc,
                            key='%s: recycle without unlink' % n)
                else:
                    blocks = set(s.block for s in unl)
                    ok = all(path.must_pass(f, d, blocks)[0] or d in blocks for (s_, d) in succ)
                    before = [s for s in unl if not path.all_paths_cross(f, i.block, s.block, succ) and s.block is not i.block]
                    if ok and not before:
                        rep.ok('Q1', '%s@%s' % (n, f.line(i)), 'on every success path the recycled node is unlinked from its ring before returning; never on the failure path', loc=loc)
                    else:
                        rep.bad('Q1', '%s@%s' % (n, f.line(i)), 'a success path returns without unlinking the recycled node (or it is unlinked although recycling failed)', loc=loc,
                                key='%s: recycle/unlink pairing' % n)
            if cn == 'a_que_new_':
                loc = f.loc(i)
                succ = path.edges_entailing(f, ('atom', 'null', i.res)) if i.res else []
                links = [s for s in f.instrs() if s.op == 'store' and path.derived_from(f, s.ops[0], i.res, through_phi=False) and s is not i]
                if not succ:
                    # result returned directly? then the caller links
                    rep.bad('Q1', '%s@%s' % (n, f.line(i)), 'result of a_que_new_ is not tested', loc=loc, key='%s: new unchecked' % n)
                elif not links:
                    rep.bad('Q1', '%s@%s' % (n, f.line(i)), 'the fresh node is never linked into the ring although num_ was incremented', loc=loc, key='%s: new without link' % n)
                else:
                    blocks = set(s.block for s in links)
                    ex = ring_exhaust_edges(f)
                    ok = all(must_pass_skip(f, d, blocks, ex) or d in blocks for (s_, d) in succ)
                    if ok:
                        rep.ok('Q1', '%s@%s' % (n, f.line(i)), 'on every success path the fresh node is linked into the ring' +
                               (' (paths that exhaust a ring walk of idx < num_ steps are excluded: ring length = num_ by rule Q5)' if ex else ''), loc=loc)
                    else:
                        # a path that skips the link because a look-up helper returned null is outside what this path rule can decide
                        helper = None
                        for b_ in f.blocks:
                            t_ = b_.term
                            if t_.op != 'br' or len(t_.x['labels']) != 2 or t_.ops[0].k != 'reg':
                                continue
                            d_ = f.defs.get(t_.ops[0].v)
                            if d_ is None or d_.op != 'icmp' or not any(o.k == 'null' for o in d_.ops):
                                continue
                            for o in d_.ops:
                                src = f.defs.get(path.strip_casts(f, o).v) if o.k == 'reg' and path.strip_casts(f, o).k == 'reg' else None
                                if src is not None and src.op == 'call' and effects.callee_name(src) not in ('a_que_new_', 'a_que_die_', None):
                                    helper = effects.callee_name(src)
                        if helper:
                            rep.unk('Q1', '%s@%s' % (n, f.line(i)), 'whether the fresh node is linked depends on the result of %s(), which this path rule does not follow' % helper, loc=loc)
                        else:
                            rep.bad('Q1', '%s@%s' % (n, f.line(i)), 'a success path returns the fresh node without linking it', loc=loc, key='%s: new/link pairing' % n)
    # ---- Q5: num_ is modified only in a_que_new_ (+1) and a_que_die_ (-1), ctor/dtor excepted
    numidx = field_index(m, 'a_que', 'num_')
    q5seen = set()
    for n, f in sorted(fns.items()):
        for s in f.instrs():
            if s.op != 'store':
                continue
            g = f.defs.get(s.ops[1].v) if s.ops[1].k == 'reg' else None
            if g is None or g.op != 'gep' or g.x['bt'].k != 'struct' or g.x['bt'].a.replace('struct.', '') != 'a_que':
                continue
            if len(g.ops) != 3 or g.ops[2].k != 'int' or g.ops[2].v != numidx:
                continue
            loc = f.loc(s)
            v = s.ops[0]
            d = f.defs.get(v.v) if v.k == 'reg' else None
            delta = None
            if d is not None and d.op == 'add' and d.ops[1].k == 'int':
                delta = d.ops[1].v
            if n == 'a_que_new_' and delta == 1:
                # only on the success path of the allocation
                q5seen.add(n)
                rep.ok('Q5', n, 'num_ + 1 when a node is obtained', loc=loc)
            elif n == 'a_que_die_' and delta == -1:
                q5seen.add(n)
                rep.ok('Q5', n, 'num_ - 1 when a node is recycled', loc=loc)
            elif n in ('a_que_ctor', 'a_que_dtor') and v.k == 'int' and v.v == 0:
                rep.ok('Q5', n, 'num_ reset', loc=loc)
            elif n in ('a_que_swap', 'a_que_swap_'):
                rep.ok('Q5', n, 'counts exchanged with the contents', loc=loc)
            else:
                rep.bad('Q5', n, 'modifies num_ outside the allocate/recycle pair (stored value %r)' % (v,), loc=loc, key='%s: stray num_ update' % n)
    for n, what in (('a_que_new_', 'increment'), ('a_que_die_', 'decrement')):
        if n in fns and n not in q5seen:
            rep.bad('Q5', n, 'does not %s num_: the element count no longer follows the ring length' % what, loc=fns[n].loc(fns[n].entry.instrs[0]),
                    key='%s: missing num_ update' % n)
    # ---- Q3: pool index bounds: ptr_[--cur_] only under cur_ != 0; ptr_[cur_++] only under cur_ < mem_
    q3(ctx, fns, m)
    q6(ctx, fns, m, numidx)
    q8(ctx, fns, m)
    q10(ctx, fns, lookup_in([m, ctx.module('hdr_unit')]))
    q11(ctx, fns, m, lookup_in([m, ctx.module('hdr_unit')]))
    q12(ctx, lookup_in([m, ctx.module('hdr_unit')]))
    import sortguard
    for n_, lim, what in (('a_que_push_sort', 1, 'after the count was incremented one element is already enqueued and must be compared'),
                          ('a_que_sort_fore', 1, 'two elements may be out of order'), ('a_que_sort_back', 1, 'two elements may be out of order')):
        if n_ in fns:
            sortguard.check(rep, 'Q7', fns[n_], numidx, lim, what)
        else:
            rep.unk('Q7', n_, 'anchor vanished')


def q6(ctx, fns, m, numidx):
    """Q6: a positional walk that must reach position idx (a_que_insert, a_que_remove) is entered only under a guard
    entailing idx < num_, counts from 0 in steps of 1 and compares the count with idx for equality - the reason why the walk
    cannot come back to the sentinel first (ring length = num_, rule Q5).  This justifies the exclusion used by Q1."""
    rep = ctx.rep
    for n in ('a_que_insert', 'a_que_remove'):
        f = fns.get(n)
        if f is None:
            rep.unk('Q6', n, 'anchor vanished')
            continue
        ex = ring_exhaust_edges(f)
        loops = [l for l in f.loops() if any(f.bmap[a] in l[1] for a, b_ in ex)]
        if not ex or not loops:
            rep.unk('Q6', n, 'no ring walk found')
            continue
        header, body, latches = min(loops, key=lambda l: len(l[1]))
        params = [pn for pt, pn in f.params]
        idx = params[1] if len(params) > 1 else None
        # (a) guard idx < num_ dominating the loop
        guarded = False
        for b in f.blocks:
            t = b.term
            if t.op != 'br' or len(t.x['labels']) != 2 or t.ops[0].k != 'reg' or not f.dominates(b, header) or b in body:
                continue
            d = f.defs.get(t.ops[0].v)
            if d is None or d.op != 'icmp':
                continue
            x, y = d.ops
            pred = d.x['pred']
            if y.k == 'reg' and y.v == idx and not (x.k == 'reg' and x.v == idx):
                # num_ > idx, num_ <= idx: bring idx to the left
                x, y, pred = y, x, {'ugt': 'ult', 'ult': 'ugt', 'uge': 'ule', 'ule': 'uge'}.get(pred, pred)
            taken = f.bmap[t.x['labels'][0]]
            if pred == 'uge':     # idx >= num_ -> the false edge is the guard
                pred = 'ult'
                taken = f.bmap[t.x['labels'][1]]
            if pred != 'ult' or not (x.k == 'reg' and x.v == idx):
                continue
            ld_ = f.defs.get(y.v) if y.k == 'reg' else None
            g = f.defs.get(ld_.ops[0].v) if ld_ is not None and ld_.op == 'load' and ld_.ops[0].k == 'reg' else None
            if g is None or g.op != 'gep' or len(g.ops) != 3 or g.ops[2].k != 'int' or g.ops[2].v != numidx:
                continue
            other = [f.bmap[l] for l in t.x['labels'] if f.bmap[l] is not taken][0]
            if (taken is header or f.dominates(taken, header)) and not f.reachable(other, header, avoid=(b,)):
                guarded = True
        # (b) counter: phi from 0, +1 per iteration, compared eq with idx inside the loop
        counted = False
        for ph in header.instrs:
            if ph.op != 'phi':
                continue
            init = [o for o, lb in zip(ph.ops, ph.x['labels']) if f.bmap[lb] not in body]
            nxt = [o for o, lb in zip(ph.ops, ph.x['labels']) if f.bmap[lb] in body]
            if len(init) != 1 or len(nxt) != 1 or init[0].k != 'int' or init[0].v != 0 or nxt[0].k != 'reg':
                continue
            dn = f.defs.get(nxt[0].v)
            if dn is None or dn.op != 'add' or not (dn.ops[0].k == 'reg' and dn.ops[0].v == ph.res and dn.ops[1].k == 'int' and dn.ops[1].v == 1):
                continue
            for c in f.instrs():
                if c.op == 'icmp' and c.x['pred'] in ('eq', 'ne') and c.block in body and \
                        {(o.k, o.v) for o in c.ops} == {('reg', ph.res), ('reg', idx)}:
                    counted = True
        loc = f.loc(header.term)
        if guarded and counted:
            rep.ok('Q6', n, 'the walk to position idx runs only under idx < num_, counting from 0 in steps of 1 until the count equals idx', loc=loc)
        elif not guarded:
            rep.bad('Q6', n, 'the walk to position idx is not confined to idx < num_: for idx == num_ it returns to the sentinel without reaching '
                    'position idx (the node is then neither linked nor found although the count changes)', loc=loc, key='%s: positional walk guard' % n)
        else:
            rep.bad('Q6', n, 'the walk does not count positions 0,1,2,.. against idx', loc=loc, key='%s: positional walk counter' % n)


def ring_exhaust_edges(f):
    """edges taken when a walk over the ring arrives back at the sentinel &ctx->head_ (pointer compared with a field address of ctx)"""
    out = set()
    for b in f.blocks:
        t = b.term
        if t.op != 'br' or len(t.x['labels']) != 2 or t.ops[0].k != 'reg':
            continue
        d = f.defs.get(t.ops[0].v)
        if d is None or d.op != 'icmp' or d.x['pred'] not in ('eq', 'ne'):
            continue
        for x in d.ops:
            g = f.defs.get(x.v) if x.k == 'reg' else None
            if g is not None and g.op == 'gep' and g.x['bt'].k == 'struct' and g.x['bt'].a.replace('struct.', '') == 'a_que' and g.ops[0].k == 'reg' \
                    and any(pn == g.ops[0].v for pt, pn in f.params):
                # the edge on which the iterator equals the sentinel
                lab = t.x['labels'][0 if d.x['pred'] == 'eq' else 1]
                out.add((b.name, lab))
    return out


def must_pass_skip(f, start, sinks, skip):
    seen = set()
    st = [start]
    while st:
        b = st.pop()
        if b in seen or b in sinks:
            continue
        seen.add(b)
        if b.term.op == 'ret':
            return False
        for s2 in b.succs:
            if (b.name, s2.name) in skip:
                continue
            st.append(s2)
    return True


def q4_swap(ctx, m):
    """a_que_swap on heaplets: two queue objects whose rings have 0, 1, 2 or 2+summary nodes; afterwards each object's sentinel
    heads the other's former ring, with mirrored prev links, and the scalar fields are exchanged"""
    rep = ctx.rep
    fn = m.functions.get('a_que_swap')
    if fn is None or fn.error:
        rep.unk('Q4', 'a_que_swap', 'anchor vanished')
        return
    loc = fn.loc(fn.entry.instrs[0])
    lk = lookup_in([m])
    bad, unk, nok = [], [], 0
    for A in segs('a'):
        for B in segs('b'):
            label = 'A=%d B=%d' % (len(A), len(B))
            try:
                h = Heap()
                h.ring(['QA'] + A)
                h.ring(['QB'] + B)
                for q, tag in (('QA', 'a'), ('QB', 'b')):
                    for off, nm in ((16, 'ptr'), (24, 'siz'), (32, 'num'), (40, 'cur'), (48, 'mem')):
                        h.cells[(q, off)] = Ptr('pool_' + tag, 0) if nm == 'ptr' else None
                        if nm != 'ptr':
                            del h.cells[(q, off)]
                orig = orig_of([['QA'] + A, ['QB'] + B])
                dom, lv = shape.run(fn, lk, [Ptr('QA', 0), Ptr('QB', 0)], h)
                if len(lv) != 1:
                    unk.append('%s: %d paths' % (label, len(lv)))
                    continue
                lf = lv[0]
                if shape.touched_summary(lf, h):
                    unk.append('%s: touches a summary segment' % label)
                    continue
                probs = check_ring(lf, h, 'QA', ['QA'] + B, orig) + check_ring(lf, h, 'QB', ['QB'] + A, orig)
                pa, pb = shape.cell(lf, h, 'QA', 16), shape.cell(lf, h, 'QB', 16)
                if not (isinstance(pa, Ptr) and pa.base == 'pool_b' and isinstance(pb, Ptr) and pb.base == 'pool_a'):
                    probs.append('node pools not exchanged (%s, %s)' % (pa, pb))
                if probs:
                    bad.append((label, probs))
                else:
                    nok += 1
            except Unsupported as e:
                unk.append('%s: %s' % (label, e))
    if bad:
        for label, probs in bad[:3]:
            rep.bad('Q4', 'a_que_swap[%s]' % label, '; '.join(probs[:2]), loc=loc, key='a_que_swap: ring after swap')
    elif unk:
        rep.unk('Q4', 'a_que_swap', '; '.join(unk[:2]), loc=loc)
    else:
        rep.ok('Q4', 'a_que_swap', 'all %d ring-length combinations: each sentinel heads the other former ring with consistent links; pools exchanged' % nok, loc=loc)


def field_index(m, sname, fname):
    import dwarf
    md = dwarf.MD(m)
    st = md.structs().get(sname)
    for i, mem in enumerate(st['members']):
        if mem['name'] == fname:
            return i
    return None


def is_neighbour_store(f, s, node):
    """store through a pointer loaded from node->next / node->prev (unlinking writes the neighbours)"""
    p = s.ops[1]
    if p.k != 'reg':
        return False
    g = f.defs.get(p.v)
    if g is None or g.op != 'gep':
        return False
    b = g.ops[0]
    d = f.defs.get(b.v) if b.k == 'reg' else None
    if d is None or d.op != 'load':
        return False
    g2 = f.defs.get(d.ops[0].v) if d.ops[0].k == 'reg' else None
    if g2 is None or g2.op != 'gep':
        return False
    return g2.ops[0].k == 'reg' and node.k == 'reg' and (g2.ops[0].v == node.v or path.derived_from(f, g2.ops[0], node.v))


def unlinks_argument(fns, name, argidx, depth=0):
    """does the function defined in this unit write the ring neighbours of one of the given arguments on every path to its returns?"""
    g = fns.get(name) if name else None
    if g is None or not argidx or depth > 3 or name in ('a_que_die_', 'a_que_new_'):
        return False
    for k in argidx:
        if k >= len(g.params) or g.params[k][1] is None:
            continue
        pn = g.params[k][1]

        class _N:
            k = 'reg'
            v = pn
        sites = [s for s in g.instrs() if s.op == 'store' and is_neighbour_store(g, s, _N)]
        for c_ in g.instrs():
            if c_.op == 'call' and unlinks_argument(fns, effects.callee_name(c_), [j for j, o_ in enumerate(c_.ops)
                    if o_.k == 'reg' and (o_.v == pn or path.derived_from(g, o_, pn))], depth + 1):
                sites.append(c_)
        if sites and path.must_pass(g, g.entry, set(x.block for x in sites))[0]:
            return True
    return False


def reseats(f, copy_ins):
    """after the copies: stores of the address of a head_ sentinel into a neighbour node's next/prev"""
    n = 0
    for s in f.instrs():
        if s.op == 'store' and s.ops[0].k == 'reg':
            d = f.defs.get(s.ops[0].v)
            if d is not None and d.op == 'gep' and d.x['bt'].k == 'struct' and d.x['bt'].a.replace('struct.', '') == 'a_que' and len(d.ops) == 3 \
                    and d.ops[2].k == 'int' and d.ops[2].v == 0:
                n += 1
    return n >= 4


def _bounds(e):
    """(lower, upper) bound terms of an integer term built from non-negative symbols, sums, positive multiples, i_and(x, -2^k)
    (rounding down to a multiple: x - (2^k - 1) <= . <= x) and i_lshr(x, k) (0 <= . <= x); None where unknown"""
    import sympy as sp
    e = sp.sympify(e)
    if e.is_number or e.is_Symbol:
        return e, e
    fn_ = str(getattr(e, 'func', ''))
    if fn_ == 'i_and' and len(e.args) == 2 and e.args[1].is_number and e.args[1] < 0 and ((-int(e.args[1])) & (-int(e.args[1]) - 1)) == 0:
        lo, hi = _bounds(e.args[0])
        return (None if lo is None else lo - (-int(e.args[1]) - 1)), hi
    if fn_ == 'i_lshr' and len(e.args) == 2:
        lo, hi = _bounds(e.args[0])
        return sp.Integer(0), hi
    if e.is_Add:
        bs = [_bounds(a) for a in e.args]
        return (None if any(b[0] is None for b in bs) else sp.Add(*[b[0] for b in bs])), (None if any(b[1] is None for b in bs) else sp.Add(*[b[1] for b in bs]))
    if e.is_Mul:
        c, rest = e.as_coeff_Mul()
        if c.is_number and c > 0 and rest != 1:
            lo, hi = _bounds(rest)
            return (None if lo is None else c * lo), (None if hi is None else c * hi)
    return None, None


def _ieval(e):
    """value of a closed integer term over 64-bit unsigned operations, or None"""
    import sympy as sp
    M = (1 << 64) - 1
    e = sp.sympify(e)
    if e.is_Integer:
        return int(e) & M
    if e.is_number:
        return None
    fn_ = str(getattr(e, 'func', ''))
    args = [_ieval(a) for a in e.args]
    if any(a is None for a in args):
        return None
    if e.is_Add:
        return sum(args) & M
    if e.is_Mul:
        r = 1
        for a in args:
            r = (r * a) & M
        return r
    if fn_ == 'i_and':
        return args[0] & args[1]
    if fn_ == 'i_or':
        return args[0] | args[1]
    if fn_ == 'i_lshr':
        return args[0] >> args[1] if args[1] < 64 else 0
    if fn_ == 'i_shl':
        return (args[0] << args[1]) & M if args[1] < 64 else 0
    if fn_ == 'i_udiv':
        return args[0] // args[1] if args[1] else None
    return None


def _nonneg(e):
    """a polynomial in non-negative quantities with non-negative coefficients"""
    import sympy as sp
    e = sp.expand(e)
    if e.is_number:
        return bool(e >= 0)
    try:
        return all(c >= 0 for c in sp.Poly(e, *sorted(e.free_symbols, key=str)).coeffs())
    except Exception:
        return False


def q3(ctx, fns, m):
    """node-pool index bounds from the decision tree of a_que_new_ / a_que_die_ (fields symbolic, invariant cur_ <= mem_)"""
    import sympy as sp, dwarf
    rep = ctx.rep
    md = dwarf.MD(m)
    names = {('ctx', off): nm for off, nm in md.flatten('a_que').items()}
    S = lambda n: sp.Symbol(n, real=True)
    cur, mem = S('cur_'), S('mem_')
    for n in ('a_que_new_', 'a_que_die_'):
        f = fns.get(n)
        if f is None:
            rep.unk('Q3', n, 'anchor vanished')
            continue
        loc = f.loc(f.entry.instrs[0])
        try:
            class D(alg.Alg):
                def nonnull(self, base):
                    return base != 'node'

                def null_test(self, pred, p):
                    return alg.Cond('icmp', pred, self.sym('&' + p.base, integer=True), 0)

                def indirect_call(self, callee, args, ins, interp, st):
                    # a_alloc: result is a fresh block or null
                    self.nalloc = getattr(self, 'nalloc', 0) + 1
                    st.calls.append(('a_alloc', args))
                    return Ptr('blk%d' % self.nalloc, 0)

                def distinct_bases(self, a, b):
                    return True
            dom = D(names)
            dom.nonnull = lambda base: not base.startswith('blk') and base != 'node'
            dom.null_test = lambda pred, p: alg.Cond('icmp', pred, dom.sym('&' + p.base, integer=True), 0)
            args = [Ptr('ctx', 0)] + ([Ptr('node', 0)] if n == 'a_que_die_' else [])
            it = symx.Interp(dom, lambda nm: None)
            lv = it.run(f, args)
            probs = []
            unks = []
            nacc = 0
            for lf in lv:
                # pool cells touched: entries/stores whose base is the pool block (*ptr_ or a fresh block)
                acc = []
                for (b, off, ty) in lf.reads:
                    if b.startswith('*ptr_'):
                        acc.append(('load', off))
                for (b, off), v in lf.store.items():
                    if b.startswith('*ptr_') or b.startswith('blk'):
                        acc.append(('store', lf.offs.get((b, off), off)))
                for kind, off in acc:
                    nacc += 1
                    idx = sp.expand(sp.sympify(off) / 8)
                    conds = [c for c in lf.pc if isinstance(c, alg.Cond)]
                    if n == 'a_que_new_':
                        # any slot below cur_ may be handed out (the property does not fix the order in which spare nodes are reused):
                        # decided for the last slot and for constant slots, under cur_ != 0
                        nonempty = any(c.rel() == '!=' and sp.sympify(c.a) == cur and sp.sympify(c.b) == 0 for c in conds)
                        d_ = sp.expand(idx - (cur - 1))
                        if alg.is_zero(d_) or idx == 0:
                            if not nonempty:
                                probs.append('pool %s at index %s on path %s without the test cur_ != 0' % (kind, idx, conds))
                        elif d_.is_number and d_ > 0:
                            probs.append('pool %s at index %s on path %s: beyond the last spare node cur_-1' % (kind, idx, conds))
                        elif idx.is_number and idx < 0:
                            probs.append('pool %s at index %s' % (kind, idx))
                        else:
                            unks.append('pool %s at index %s: not decided whether it lies below cur_' % (kind, idx))
                    else:
                        if not alg.is_zero(idx - cur):
                            d_ = sp.expand(idx - cur)
                            if d_.is_number and d_ > 0:
                                probs.append('pool %s at index %s, beyond the first free slot cur_' % (kind, idx))
                            else:
                                unks.append('pool %s at index %s, not at the first free slot cur_' % (kind, idx))
                            continue
                        has_room = any((c.rel() == '>' and sp.sympify(c.a) == mem and sp.sympify(c.b) == cur) or
                                       (c.rel() == '<' and sp.sympify(c.a) == cur and sp.sympify(c.b) == mem) for c in conds)
                        grown = any(cn == 'a_alloc' for cn, a in lf.calls)
                        if has_room:
                            continue
                        if grown:
                            # whatever the growth policy: the new capacity must exceed the old one (cur_ <= mem_ by the invariant, so the
                            # slot cur_ exists), the block must hold it, and it must be recorded
                            memk = [k for k, v in names.items() if v == 'mem_'][0]
                            if memk not in lf.store:
                                probs.append('capacity not updated after growing the pool')
                                continue
                            newmem = sp.sympify(lf.store[memk][0])
                            sizes = [sp.sympify(a[1]) for cn, a in lf.calls if cn == 'a_alloc']
                            if not any(alg.is_zero(sz - 8 * newmem) for sz in sizes):
                                probs.append('pool block of %s bytes, recorded capacity %s slots' % (sizes, newmem))
                            lo_, hi_ = _bounds(newmem)
                            if lo_ is not None and _nonneg(sp.expand(lo_ - mem - 1)):
                                pass
                            elif hi_ is not None and _nonneg(sp.expand(mem - hi_)):
                                probs.append('pool grown to %s slots, which does not exceed the %s it had: no room for the recycled node' % (newmem, mem))
                            else:
                                # the recorded capacity as a function of the old one alone: evaluate the formula for small pools
                                bad_at = None
                                if newmem.free_symbols <= {mem}:
                                    for v_ in list(range(0, 70)) + [127, 128, 255, 256, 1000, 1024]:
                                        nv_ = _ieval(newmem.subs(mem, v_))
                                        if nv_ is None:
                                            bad_at = None
                                            break
                                        if nv_ <= v_:
                                            bad_at = (v_, nv_)
                                            break
                                if bad_at is not None:
                                    probs.append('with a full pool of %d slots the pool is "grown" to %d slots (%s): no room for the recycled node, which is stored behind the block' % (bad_at[0], bad_at[1], newmem))
                                else:
                                    unks.append('whether the new pool capacity %s exceeds the old one is not decided' % newmem)
                        else:
                            probs.append('pool push at index cur_ without a capacity test on path %s' % conds)
            if n == 'a_que_new_':
                # the spare nodes stay a set: the slot whose node is handed out is the last one, or receives the last one; cur_ drops by one
                import re as _re
                curk = [k for k, v in names.items() if v == 'cur_'][0]
                for lf in lv:
                    r_ = lf.ret
                    mm = _re.match(r'^\*\*ptr_\[(.*)\]$', r_.base) if isinstance(r_, Ptr) else None
                    if mm is None:
                        continue      # a fresh allocation or null
                    try:
                        j = sp.expand(sp.sympify(mm.group(1), locals={'cur_': cur}) / 8)
                    except Exception:
                        unks.append('returned node %s not understood' % (r_,))
                        continue
                    if curk not in lf.store or not alg.is_zero(sp.sympify(lf.store[curk][0]) - (cur - 1)):
                        probs.append('a spare node is handed out but cur_ becomes %s, expected cur_ - 1' % (lf.store.get(curk, ('cur_',))[0],))
                    if not alg.is_zero(j - (cur - 1)):
                        moved = [v for (b, off), v in lf.store.items() if b.startswith('*ptr_') and alg.is_zero(sp.expand(sp.sympify(lf.offs.get((b, off), off)) / 8) - j)]
                        last = [v for v in moved if isinstance(v[0], Ptr) and _re.match(r'^\*\*ptr_\[(.*)\]$', v[0].base) and
                                alg.is_zero(sp.expand(sp.sympify(_re.match(r'^\*\*ptr_\[(.*)\]$', v[0].base).group(1), locals={'cur_': cur}) / 8) - (cur - 1))]
                        if not last:
                            probs.append('the node of slot %s is handed out but the slot does not receive the last spare node: the pool keeps a node that is enqueued again' % j)
            if nacc == 0:
                rep.unk('Q3', n, 'no pool access found', loc=loc)
            elif probs:
                rep.bad('Q3', n, '; '.join(sorted(set(probs))[:2])[:500], loc=loc, key='%s: pool bounds' % n)
            elif unks:
                rep.unk('Q3', n, '; '.join(sorted(set(unks))[:2])[:300], loc=loc)
            else:
                rep.ok('Q3', n, '%d pool accesses: a spare node is taken from below cur_ under cur_ != 0; a recycled one is stored at cur_ under cur_ < mem_ or after '
                       'growing the pool to a recorded capacity > mem_ that the block holds' % nacc, loc=loc)
        except Unsupported as e:
            rep.unk('Q3', n, str(e), loc=loc)


def q8(ctx, fns, m):
    """Q8: the positional walks: a_que_at walks forward from head.next counting 0,1,2,.. for idx >= 0 and backward from head.prev
    counting -1,-2,.. for idx < 0, stops at the sentinel (null) and returns the payload (node + 1) of the node whose position equals
    idx; the walks of a_que_insert / a_que_remove start at head.next and advance through next"""
    rep = ctx.rep

    def field_of_head(f, v, ctxn):
        """v = load (gep (gep ctx,0,0), 0, k) -> k ; head_ is field 0 of the queue"""
        d = f.defs.get(v.v) if v.k == 'reg' else None
        if d is None or d.op != 'load' or d.ops[0].k != 'reg':
            return None
        g = f.defs.get(d.ops[0].v)
        if g is None or g.op != 'gep' or len(g.ops) != 3 or g.ops[2].k != 'int' or g.ops[0].k != 'reg':
            return None
        h = f.defs.get(g.ops[0].v)
        if h is None or h.op != 'gep' or h.ops[0].k != 'reg' or h.ops[0].v != ctxn or len(h.ops) != 3 or h.ops[2].k != 'int' or h.ops[2].v != 0:
            return None
        return g.ops[2].v

    def field_of(f, v, base):
        d = f.defs.get(v.v) if v.k == 'reg' else None
        if d is None or d.op != 'load' or d.ops[0].k != 'reg':
            return None
        g = f.defs.get(d.ops[0].v)
        if g is None or g.op != 'gep' or len(g.ops) != 3 or g.ops[2].k != 'int' or g.ops[0].k != 'reg' or g.ops[0].v != base:
            return None
        return g.ops[2].v

    def walks(f):
        """[(header, it phi, start field, advance field, counter phi|None, init, step, compared ('old'|'new'|None), returns)]"""
        out = []
        ctxn = f.params[0][1]
        for h, body, lat in f.loops():
            phis = [i for i in h.instrs if i.op == 'phi']
            itp = [p for p in phis if p.ty.is_ptr]
            cnt = [p for p in phis if p.ty.is_int]
            if len(itp) != 1:
                continue
            it = itp[0]
            init = [o for o, lb in zip(it.ops, it.x['labels']) if f.bmap[lb] not in body]
            nxt = [o for o, lb in zip(it.ops, it.x['labels']) if f.bmap[lb] in body]
            if len(init) != 1 or len(nxt) != 1:
                continue
            start = field_of_head(f, init[0], ctxn)
            adv = field_of(f, nxt[0], it.res)
            w = dict(header=h, it=it, start=start, adv=adv, cnt=None)
            if len(cnt) == 1:
                c = cnt[0]
                ci = [o for o, lb in zip(c.ops, c.x['labels']) if f.bmap[lb] not in body]
                cn = [o for o, lb in zip(c.ops, c.x['labels']) if f.bmap[lb] in body]
                dn = f.defs.get(cn[0].v) if cn and cn[0].k == 'reg' else None
                step = dn.ops[1].v if dn is not None and dn.op == 'add' and dn.ops[0].k == 'reg' and dn.ops[0].v == c.res and dn.ops[1].k == 'int' else None
                cmpd = None
                for i in f.instrs():
                    if i.op == 'icmp' and i.x['pred'] in ('eq', 'ne') and i.block in body:
                        ops = {(o.k, o.v) for o in i.ops}
                        if ('reg', f.params[1][1]) in ops:
                            if ('reg', c.res) in ops:
                                cmpd = 'old'
                            elif dn is not None and ('reg', dn.res) in ops:
                                cmpd = 'new'
                w.update(cnt=c, init=(ci[0].v if ci and ci[0].k == 'int' else None), step=step, cmpd=cmpd)
            out.append(w)
        return out
    f = fns.get('a_que_at')
    if f is None:
        rep.unk('Q8', 'a_que_at', 'anchor vanished')
    else:
        ws = walks(f)
        fw = [w for w in ws if w['start'] == 0]
        bw = [w for w in ws if w['start'] == 1]
        probs = []
        unks = []
        if len(fw) != 1 or len(bw) != 1:
            probs.append('expected one walk from head.next and one from head.prev, found %d and %d' % (len(fw), len(bw)))
        else:
            a, b = fw[0], bw[0]
            if a['adv'] != 0:
                probs.append('the forward walk does not advance through next')
            if b['adv'] != 1:
                probs.append('the backward walk does not advance through prev')
            if a['cnt'] is None or a.get('init') is None or a.get('step') is None or a.get('cmpd') is None:
                # counted in another way (a count-down of a computed distance, ..): not this rule's template
                unks.append('the forward walk does not count positions from a constant against idx')
            elif (a['init'], a['step'], a['cmpd']) != (0, 1, 'old'):
                probs.append('forward positions are not 0,1,2,..: counter starts at %s, steps by %s and the %s value is compared with idx' % (a.get('init'), a.get('step'), a.get('cmpd')))
            if b['cnt'] is None or b.get('init') is None or b.get('step') is None or b.get('cmpd') is None:
                unks.append('the backward walk does not count positions from a constant against idx')
            elif (b['init'], b['step'], b['cmpd']) != (0, -1, 'new'):
                probs.append('backward positions are not -1,-2,..: counter starts at %s, steps by %s and the %s value is compared with idx' % (b.get('init'), b.get('step'), b.get('cmpd')))
            # which walk is taken: idx >= 0 forward - the branch that separates the two walks (the entry, or behind fast paths)
            okdir = None
            for blk_ in f.blocks:
                e = blk_.term
                d = f.defs.get(e.ops[0].v) if e.op == 'br' and e.ops and e.ops[0].k == 'reg' else None
                if d is None or d.op != 'icmp' or len(e.x['labels']) != 2:
                    continue
                t_, f_ = [f.bmap[l] for l in e.x['labels']]
                ra = (f.reachable(t_, a['header']) or t_ is a['header'], f.reachable(f_, a['header']) or f_ is a['header'])
                rb = (f.reachable(t_, b['header']) or t_ is b['header'], f.reachable(f_, b['header']) or f_ is b['header'])
                if not ((ra == (True, False) and rb == (False, True)) or (ra == (False, True) and rb == (True, False))):
                    continue
                # this branch decides between the walks
                okdir = False
                if d.ops[0].k == 'reg' and d.ops[0].v == f.params[1][1] and d.ops[1].k == 'int':
                    nonneg = {('sge', 0): True, ('sgt', -1): True, ('slt', 0): False, ('sle', -1): False}.get((d.x['pred'], d.ops[1].v if d.ops[1].v < 2 ** 63 else d.ops[1].v - 2 ** 64))
                    if nonneg is not None:
                        okdir = (ra == (True, False)) == nonneg
                elif d.ops[1].k == 'reg' and d.ops[1].v == f.params[1][1] and d.ops[0].k == 'int':
                    # mirrored spelling 0 <= idx, -1 < idx, 0 > idx, -1 >= idx
                    nonneg = {('sle', 0): True, ('slt', -1): True, ('sgt', 0): False, ('sge', -1): False}.get((d.x['pred'], d.ops[0].v if d.ops[0].v < 2 ** 63 else d.ops[0].v - 2 ** 64))
                    if nonneg is not None:
                        okdir = (ra == (True, False)) == nonneg
                break
            if okdir is None:
                unks.append('no single branch separates the forward from the backward walk')
            elif not okdir:
                if any('does not count positions' in u for u in unks):
                    unks.append('the walk direction is chosen by something else than the sign of idx')     # walks that count a computed distance
                else:
                    probs.append('the walk direction is not chosen by idx >= 0 (forward) / idx < 0 (backward)')
            # returned values: payload of the current node or null
            rets = [i for i in f.instrs() if i.op == 'ret']
            for r in rets:
                v = r.ops[0]
                vals = []
                d = f.defs.get(v.v) if v.k == 'reg' else None
                if d is not None and d.op == 'phi':
                    vals = list(d.ops)
                else:
                    vals = [v]
                for o in vals:
                    if o.k == 'null':
                        continue
                    o2 = path.strip_casts(f, o)
                    g = f.defs.get(o2.v) if o2.k == 'reg' else None
                    base = path.strip_casts(f, g.ops[0]) if g is not None and g.op == 'gep' else None
                    bd = f.defs.get(base.v) if base is not None and base.k == 'reg' else None
                    while bd is not None and bd.op == 'phi' and len(bd.ops) == 1:
                        base = bd.ops[0]
                        bd = f.defs.get(base.v) if base.k == 'reg' else None
                    from_walk = (base is not None and base.k == 'reg' and base.v in (a['it'].res, b['it'].res)) or \
                        (o.k == 'reg' and any(o.v == w_['it'].res or path.derived_from(f, o, w_['it'].res) for w_ in (a, b)))
                    if not from_walk or (g is not None and g.op == 'gep' and base is not None and base.k == 'reg' and base.v not in (a['it'].res, b['it'].res)):
                        # a value that is not produced by one of the walks (a fast path for an end?): not decided by this rule (Q12 / Q10 do the ends)
                        unks.append('a returned value does not come from one of the two walks')
                    elif g is None or g.op != 'gep' or len(g.ops) != 2 or g.ops[1].k != 'int' or g.ops[1].v != 1 or base.v not in (a['it'].res, b['it'].res):
                        probs.append('a returned value is not the payload (node + 1) of the node the walk stands on')
        if not probs and unks:
            rep.unk('Q8', 'a_que_at', '; '.join(sorted(set(unks))[:2]), loc=f.loc(f.entry.term))
        else:
            (rep.bad if probs else rep.ok)('Q8', 'a_que_at', '; '.join(probs[:3]) or 'forward from head.next with positions 0,1,2,.., backward from head.prev with positions -1,-2,..; '
                                       'returns the payload of the node at position idx or null at the sentinel', **({'key': 'a_que_at: positional walk', 'loc': f.loc(f.entry.term)} if probs else {}))
    for n in ('a_que_insert', 'a_que_remove'):
        f = fns.get(n)
        if f is None:
            rep.unk('Q8', n, 'anchor vanished')
            continue
        ws = [w for w in walks(f) if w['cnt'] is not None]
        probs = []
        if len(ws) != 1:
            # the walk lives somewhere else (a helper was extracted) or was restructured: nothing to compare, no verdict
            rep.unk('Q8', n, 'expected one positional walk in the function itself, found %d' % len(ws), loc=f.loc(f.entry.instrs[0]))
            continue
        else:
            w = ws[0]
            if w['start'] != 0 or w['adv'] != 0:
                probs.append('the walk does not go from head.next through next (start field %s, advance field %s)' % (w['start'], w['adv']))
            if w['init'] is None or w['step'] is None or w['cmpd'] is None:
                rep.unk('Q8', n, 'the walk does not count positions from a constant against idx', loc=f.loc(f.entry.instrs[0]))
                continue
            if (w['init'], w['step'], w['cmpd']) != (0, 1, 'old'):
                probs.append('positions are not 0,1,2,..')
        (rep.bad if probs else rep.ok)('Q8', n, '; '.join(probs) or 'walks from head.next through next with positions 0,1,2,..', **({'key': '%s: positional walk' % n, 'loc': f.loc(f.entry.term)} if probs else {}))


# ---------------------------------------------------------------- Q10: queue ends and the linking / unlinking action of the positional walks
class QDom(HeapDom):
    """a_que_new_ hands out the floating node N (or fails), a_que_die_ recycles (or fails): summaries justified by Q1/Q3/Q5 and C07"""
    def __init__(self, new_ok=True, die_ok=True):
        HeapDom.__init__(self)
        self.new_ok, self.die_ok = new_ok, die_ok
        self.died = []

    def call(self, name, args, ins, interp, st, fn):
        if name == 'a_que_new_':
            return Ptr('N', 0) if self.new_ok else NULL
        if name == 'a_que_die_':
            self.died.append(args[1])
            return sp.Integer(0) if self.die_ok else sp.Integer(4)
        return HeapDom.call(self, name, args, ins, interp, st, fn)

    def nonnull(self, base):
        return not base.startswith('?')


def q10(ctx, fns, lk):
    rep = ctx.rep
    rings = [[], ['A1'], ['A1', 'A2'], ['A1', 'SA', 'A2']]
    SZ = 16

    def heap_of(r):
        h = Heap()
        names = ['ctx'] + r
        h.ring(names)
        h.node('N')
        return h, names

    def run1(fn, r, new_ok=True, die_ok=True):
        h, names = heap_of(r)
        dom = QDom(new_ok, die_ok)
        it = symx.Interp(dom, lk, inline=lambda n: n not in ('a_que_new_', 'a_que_die_'))
        lv = it.run(fn, [Ptr('ctx', 0)] + [sp.Symbol('arg%d' % k, integer=True, nonnegative=True) for k in range(len(fn.params) - 1)], h.state())
        return h, names, dom, lv
    ends = {
        'a_que_push_fore': lambda r: (['ctx', 'N'] + r, Ptr('N', SZ), None),
        'a_que_push_back': lambda r: (['ctx'] + r + ['N'], Ptr('N', SZ), None),
        'a_que_pull_fore': lambda r: ((['ctx'] + r[1:], Ptr(r[0], SZ), r[0]) if r else (['ctx'], NULL, None)),
        'a_que_pull_back': lambda r: ((['ctx'] + r[:-1], Ptr(r[-1], SZ), r[-1]) if r else (['ctx'], NULL, None)),
    }
    for name, exp in ends.items():
        fn = fns.get(name)
        if fn is None:
            rep.unk('Q10', name, 'anchor vanished')
            continue
        probs, n = [], 0
        for r in rings:
            try:
                # success
                h, names, dom, lv = run1(fn, r)
                want, ret, dead = exp(r)
                orig = orig_of([names])
                for lf in lv:
                    n += 1
                    pr = check_ring(lf, h, 'ctx', want, orig)
                    if not (isinstance(lf.ret, Ptr) and lf.ret == ret):
                        pr.append('returns %s, expected %s' % (lf.ret, ret))
                    if dead is not None and not (dom.died and isinstance(dom.died[-1], Ptr) and dom.died[-1].base == dead):
                        pr.append('recycles %s, expected %s' % (dom.died[-1:] or 'nothing', dead))
                    touched = shape.touched_summary(lf, h)
                    if touched:
                        pr.append('reads inside the queue (%s)' % touched)
                    probs += ['ring %s: %s' % (r, x) for x in pr]
                # failure of the allocation / recycling step: nothing changes, null returned
                h, names, dom, lv = run1(fn, r, new_ok=False, die_ok=False)
                for lf in lv:
                    n += 1
                    pr = check_ring(lf, h, 'ctx', names, orig_of([names]))
                    if not (isinstance(lf.ret, Ptr) and lf.ret.base == 'null'):
                        pr.append('returns %s although the node step failed' % (lf.ret,))
                    probs += ['ring %s (failing step): %s' % (r, x) for x in pr]
            except Unsupported as e:
                probs.append('ring %s: outside the domain: %s' % (r, e))
        (rep.bad if probs else rep.ok)('Q10', name, '; '.join(probs[:2]) or '%d cases: links the new node / unlinks the end node at the documented end, returns its payload, leaves the ring alone on failure' % n,
                                       **({'key': '%s: end of the queue' % name, 'loc': fn.loc(fn.entry.term)} if probs else {}))
    # the action of the positional walks at the position found: one iteration with the counter equal to idx
    for name in ('a_que_insert', 'a_que_remove'):
        fn = fns.get(name)
        if fn is None:
            rep.unk('Q10', name, 'anchor vanished')
            continue
        loops = [l for l in fn.loops()]
        if len(loops) != 1:
            rep.unk('Q10', name, 'expected one walk')
            continue
        header = loops[0][0]
        phis = [i for i in header.instrs if i.op == 'phi']
        itp = [p for p in phis if p.ty.is_ptr]
        cnp = [p for p in phis if p.ty.is_int]
        if len(itp) != 1 or len(cnp) != 1:
            rep.unk('Q10', name, 'walk does not carry (node, position)')
            continue
        probs, n = [], 0
        for r, at in ((['A1'], 'A1'), (['A1', 'A2'], 'A1'), (['A1', 'A2'], 'A2'), (['A1', 'SA', 'A2'], 'A2'), (['A1', 'SA', 'A2'], 'A1')):
            h, names = heap_of(r)
            dom = QDom()
            it = symx.Interp(dom, lk, inline=lambda n_: n_ not in ('a_que_new_', 'a_que_die_'))
            idx = sp.Symbol('idx', integer=True, nonnegative=True)
            try:
                # values defined in front of the walk (the fresh node of insert, a hoisted sentinel address ...): run the code
                # before the loop on the same heaplet and keep its environment; the count is whatever lets the walk start
                st0 = h.state()
                ro0, _ = it.run_region(fn, [Ptr('ctx', 0), idx], fn.entry, {}, [header], st=st0)
                ro0 = [x_ for x_ in ro0 if x_[1] is header]
                if not ro0:
                    raise Unsupported('no path reaches the walk')
                env0 = dict(ro0[0][0].env)
                env0[itp[0].res] = Ptr(at, 0)
                env0[cnp[0].res] = idx
                ro, rets = it.run_region(fn, [Ptr('ctx', 0), idx], header, env0, [header], st=h.state())
            except Unsupported as e:
                probs.append('ring %s at %s: %s' % (r, at, e))
                continue
            k = r.index(at)
            if name == 'a_que_insert':
                want, ret = ['ctx'] + r[:k] + ['N'] + r[k:], Ptr('N', SZ)
            else:
                want, ret = ['ctx'] + r[:k] + r[k + 1:], Ptr(at, SZ)
            found = False
            for s_, rv in rets:
                # the path on which the position matched
                n += 1
                found = True
                lf = symx.Leaf(s_.pc, rv, s_.store, {}, s_.calls, s_.trace, s_.pc_raw, s_.offs, None, s_.reads)
                pr = check_ring(lf, h, 'ctx', want, orig_of([names]))
                if not (isinstance(rv, Ptr) and rv == ret):
                    pr.append('returns %s, expected %s' % (rv, ret))
                probs += ['ring %s at %s: %s' % (r, at, x) for x in pr]
            if not found:
                probs.append('ring %s at %s: no path acts on the node whose position equals idx' % (r, at))
        (rep.bad if probs else rep.ok)('Q10', name, '; '.join(probs[:2]) or '%d cases: the new node is linked directly before / the node is unlinked at the position found' % n,
                                       **({'key': '%s: action at the position' % name, 'loc': fn.loc(header.term)} if probs else {}))


# ---------------------------------------------------------------- Q11: the comparison scans and the re-linking of the sorted operations
class SortDom(QDom):
    """the comparison callback is an unknown pure function of its two operands: its result is a symbol named after them, the
    interpreter forks on its sign"""
    fork_in_loops = True   # the walks are over explicit rings (they end at the sentinel); the forks are the comparison outcomes

    def indirect_call(self, callee, args, ins, interp, st):
        def nm(a):
            return '%s+%s' % (a.base, a.off) if isinstance(a, Ptr) else str(a)
        if len(args) != 2:
            return NotImplemented
        return sp.Symbol('cmp[%s|%s]' % (nm(args[0]), nm(args[1])), integer=True)


def _canon_cmp(ops, rel):
    """one spelling per comparison: operands in lexicographic order (cmp(b, a) >= 0 is cmp(a, b) <= 0 for a consistent callback);
    the relation is kept as written: <= 0 (stop also on equal elements) and < 0 are different scans"""
    a, b = ops.split('|')
    if a > b:
        a, b = b, a
        rel = {'<=': '>=', '>=': '<=', '<': '>', '>': '<'}.get(rel, rel)
    return ('%s|%s' % (a, b), rel)


def _cmp_trace(pc):
    """[(operands, relation to 0)] in path order, canonical spelling"""
    out = []
    for c in pc:
        if not isinstance(c, alg.Cond):
            continue
        a, b = sp.sympify(c.a), sp.sympify(c.b)
        rel = c.rel()
        if b.is_Symbol and str(b).startswith('cmp[') and a == 0:
            # 0 < cmp(..) is cmp(..) > 0
            a, b = b, a
            rel = {'<': '>', '<=': '>=', '>': '<', '>=': '<='}.get(rel, rel)
        if a.is_Symbol and str(a).startswith('cmp[') and b == 0:
            out.append(_canon_cmp(str(a)[4:-1], rel))
    return out


def _same_scan(tr, ref):
    """trace equals the reference scan up to the treatment of equal elements"""
    if len(tr) != len(ref):
        return False
    for (o1, r1), (o2, r2) in zip(tr, ref):
        if o1 != o2:
            return False
        # equal elements: the reference stops at the first element that does not compare beyond the new one (<= 0), so elements that
        # compare equal keep their order of arrival; a strict test reverses them and is a different sequence
        if r1 not in ('<=', '<', '>', '>=') or r1 != r2:
            return False
    return True


def q11(ctx, fns, m, lk):
    """sort_fore moves the first element behind all elements that compare smaller (scan forward from the second, stop at the first
    element e with cmp(x, e) <= 0), sort_back moves the last element before all that compare greater (scan backward, stop at the
    first e with cmp(e, x) <= 0), push_sort links the fresh node behind the last element e with cmp(e, key) <= 0 (scan backward).
    Part A: whole function on explicit rings of 0..4 elements, every outcome of the comparisons (the callback result is a symbol
    per operand pair, the interpreter forks on its sign): the comparisons made, their operands and order, the stop rule and the
    resulting ring are those of the reference.  Part B: one scan iteration and the re-linking behind it at an arbitrary position of
    a ring of any length (summary segments around the materialised neighbours)."""
    import dwarf
    rep = ctx.rep
    SZ = 16
    try:
        fl = dwarf.MD(m).flatten('a_que')
        numoff = [o for o, nm in fl.items() if nm == 'num_'][0]
    except Exception as e:
        rep.unk('Q11', 'a_que', 'layout of a_que not readable: %s' % e)
        return

    def heap_of(r, count):
        h = Heap()
        names = ['ctx'] + r
        h.ring(names)
        h.node('N')
        st = h.state()
        st.store[('ctx', numoff)] = (sp.Integer(count), llir.I(64))
        st.offs[('ctx', numoff)] = numoff
        return h, names, st
    P = lambda n: '%s+%d' % (n, SZ)

    def reference(name, r):
        """-> [(comparison trace, resulting ring, returned pointer)] for every stop position"""
        out = []
        L = len(r)
        if name == 'a_que_sort_fore':
            if L < 2:
                return [([], ['ctx'] + r, None)]
            x = r[0]
            for k in range(1, L + 1):
                tr = [('%s|%s' % (P(x), P(r[j])), '>0') for j in range(1, k)] + ([('%s|%s' % (P(x), P(r[k])), '<=0')] if k < L else [])
                out.append((tr, ['ctx'] + r[1:k] + [x] + r[k:], None))
        elif name == 'a_que_sort_back':
            if L < 2:
                return [([], ['ctx'] + r, None)]
            x = r[-1]
            for k in range(L - 2, -2, -1):
                tr = [('%s|%s' % (P(r[j]), P(x)), '>0') for j in range(L - 2, k, -1)] + ([('%s|%s' % (P(r[k]), P(x)), '<=0')] if k >= 0 else [])
                out.append((tr, ['ctx'] + r[:k + 1] + [x] + r[k + 1:-1], None))
        else:
            for k in range(L - 1, -2, -1):
                tr = [('%s|key+0' % P(r[j]), '>0') for j in range(L - 1, k, -1)] + ([('%s|key+0' % P(r[k]), '<=0')] if k >= 0 else [])
                out.append((tr, ['ctx'] + r[:k + 1] + ['N'] + r[k + 1:], Ptr('N', SZ)))
        return out
    rings = [[], ['A1'], ['A1', 'A2'], ['A1', 'A2', 'A3'], ['A1', 'A2', 'A3', 'A4']]
    if ctx.tier == 'thorough':
        rings += [['A%d' % k for k in range(1, m_ + 1)] for m_ in (5, 6, 7, 8)]
    for name in ('a_que_sort_fore', 'a_que_sort_back', 'a_que_push_sort'):
        fn = fns.get(name)
        if fn is None:
            rep.unk('Q11', name, 'anchor vanished')
            continue
        probs, n = [], 0
        for r in rings:
            try:
                h, names, st = heap_of(r, len(r) + (1 if name == 'a_que_push_sort' else 0))
                dom = SortDom()
                it = symx.Interp(dom, lk, inline=lambda n_: n_ not in ('a_que_new_', 'a_que_die_'))
                args = [Ptr('ctx', 0)] + ([Ptr('key', 0)] if name == 'a_que_push_sort' else []) + [Ptr('cmpfn', 0)]
                lv = it.run(fn, args, st)
                ref = reference(name, r)
                seen = set()
                for lf in lv:
                    n += 1
                    tr = _cmp_trace(lf.pc)
                    match = [k for k, (t, w, rv) in enumerate(ref) if _same_scan(tr, [_canon_cmp(o, q[:-1]) for o, q in t])]
                    if not match:
                        probs.append('ring %s: comparisons %s are not a scan of the reference (expected one of %s)' % (r, tr, [t for t, _, _ in ref][:3]))
                        continue
                    t, want, rv = ref[match[0]]
                    seen.add(match[0])
                    all_names = names + (['N'] if name == 'a_que_push_sort' else [])
                    pr = check_ring(lf, h, 'ctx', want, orig_of([names]))
                    if rv is not None and not (isinstance(lf.ret, Ptr) and lf.ret == rv):
                        pr.append('returns %s, expected %s' % (lf.ret, rv))
                    probs += ['ring %s after %s: %s' % (r, tr or 'no comparison', x) for x in pr]
                if len(seen) != len(ref):
                    probs.append('ring %s: %d of the %d outcomes of the reference scan are reachable' % (r, len(seen), len(ref)))
            except Unsupported as e:
                probs.append('ring %s: outside the domain: %s' % (r, e))
        (rep.bad if probs else rep.ok)('Q11', name + '[rings of 0..%d]' % (len(rings) - 1), '; '.join(probs[:2])[:700] or '%d outcomes: operands and order of every comparison, the stop rule (first result <= 0) and the resulting ring equal the reference scan' % n,
                                       **({'key': '%s: scan and re-link' % name, 'loc': fn.loc(fn.entry.instrs[0])} if probs else {'sample': {'fn': name, 'outcomes': n}}))

    # ---- Part B: one scan iteration + the re-linking behind it at an arbitrary position of a ring of any length
    def step_cases(name):
        """(ring, cursor node, expected operands, ring when the comparison says stop, then either the next cursor node or the ring
        after the exhausted scan when it says continue)"""
        if name == 'a_que_sort_fore':
            x = 'X'
            return [
                (['X', 'F', 'SA', 'P', 'C', 'B', 'SB'], 'C', '%s|%s' % (P(x), P('C')), ['ctx', 'F', 'SA', 'P', 'X', 'C', 'B', 'SB'], 'B', None),
                (['X', 'F', 'SA', 'P', 'C'], 'C', '%s|%s' % (P(x), P('C')), ['ctx', 'F', 'SA', 'P', 'X', 'C'], None, ['ctx', 'F', 'SA', 'P', 'C', 'X']),
                (['X', 'C', 'B', 'SB'], 'C', '%s|%s' % (P(x), P('C')), ['ctx', 'X', 'C', 'B', 'SB'], 'B', None),
            ]
        if name == 'a_que_sort_back':
            x = 'X'
            return [
                (['SB', 'B', 'C', 'P', 'SA', 'F', 'X'], 'C', '%s|%s' % (P('C'), P(x)), ['ctx', 'SB', 'B', 'C', 'X', 'P', 'SA', 'F'], 'B', None),
                (['C', 'P', 'SA', 'F', 'X'], 'C', '%s|%s' % (P('C'), P(x)), ['ctx', 'C', 'X', 'P', 'SA', 'F'], None, ['ctx', 'X', 'C', 'P', 'SA', 'F']),
                (['SB', 'B', 'C', 'X'], 'C', '%s|%s' % (P('C'), P(x)), ['ctx', 'SB', 'B', 'C', 'X'], 'B', None),
            ]
        return [
            (['SB', 'B', 'C', 'P', 'SA', 'F'], 'C', '%s|key+0' % P('C'), ['ctx', 'SB', 'B', 'C', 'N', 'P', 'SA', 'F'], 'B', None),
            (['C', 'P', 'SA', 'F'], 'C', '%s|key+0' % P('C'), ['ctx', 'C', 'N', 'P', 'SA', 'F'], None, ['ctx', 'N', 'C', 'P', 'SA', 'F']),
            (['SB', 'B', 'C'], 'C', '%s|key+0' % P('C'), ['ctx', 'SB', 'B', 'C', 'N'], 'B', None),
        ]
    for name in ('a_que_sort_fore', 'a_que_sort_back', 'a_que_push_sort'):
        fn = fns.get(name)
        if fn is None:
            continue
        loops = [l for l in fn.loops()]
        if len(loops) != 1:
            rep.unk('Q11', name + '[any length]', 'expected one scan loop, found %d' % len(loops))
            continue
        header = loops[0][0]
        phis = [i for i in header.instrs if i.op == 'phi' and i.ty.is_ptr]
        if len(phis) != 1:
            rep.unk('Q11', name + '[any length]', 'the scan does not carry exactly one cursor')
            continue
        cur = phis[0]
        probs, n = [], 0
        for r, at, operands, want_stop, nxt, want_end in step_cases(name):
            try:
                h, names, st = heap_of(r, 5)
                dom = SortDom()
                it = symx.Interp(dom, lk, inline=lambda n_: n_ not in ('a_que_new_', 'a_que_die_'))
                args = [Ptr('ctx', 0)] + ([Ptr('key', 0)] if name == 'a_que_push_sort' else []) + [Ptr('cmpfn', 0)]
                ro0, rets0 = it.run_region(fn, args, fn.entry, {}, [header], st=st)
                ro0 = [x_ for x_ in ro0 if x_[1] is header]
                if len(ro0) != 1:
                    raise Unsupported('%d paths reach the scan' % len(ro0))
                s0 = ro0[0][0]
                env0 = dict(s0.env)
                env0[cur.res] = Ptr(at, 0)
                s1 = s0.clone()
                s1.pc, s1.pc_raw = [], []
                ro, rets = it.run_region(fn, args, header, env0, [header], st=s1)
                outcomes = []
                for s_, blk, prev in ro:
                    outcomes.append(('back', s_, it.val(cur.ops[cur.x['labels'].index(prev.name)], s_, fn)))
                for s_, rv in rets:
                    outcomes.append(('ret', s_, rv))
                seen = set()
                for kind, s_, v in outcomes:
                    n += 1
                    tr = _cmp_trace(s_.pc)
                    want_ops, stop_rel = _canon_cmp(operands, '<=')
                    if len(tr) != 1 or tr[0][0] != want_ops:
                        probs.append('ring %s at %s: comparisons %s, expected one comparison of %s' % (r, at, tr, operands))
                        continue
                    lf = symx.Leaf(s_.pc, v if kind == 'ret' else None, s_.store, {}, s_.calls, s_.trace, s_.pc_raw, s_.offs, None, s_.reads)
                    touched = shape.touched_summary(lf, h)
                    if touched:
                        probs.append('ring %s at %s: reads inside the unexamined part of the ring (%s)' % (r, at, touched))
                    outcome = 'stop' if tr[0][1] == stop_rel else 'go' if tr[0][1] == {'<=': '>', '>=': '<'}[stop_rel] else None
                    if outcome == 'stop':
                        seen.add('stop')
                        if kind != 'ret':
                            probs.append('ring %s at %s: the scan goes on although the comparison is <= 0' % (r, at))
                            continue
                        pr = check_ring(lf, h, 'ctx', want_stop, orig_of([names]))
                    elif outcome == 'go':
                        seen.add('go')
                        if nxt is not None:
                            if kind != 'back':
                                probs.append('ring %s at %s: the scan stops although the comparison is > 0 and %s follows' % (r, at, nxt))
                                continue
                            pr = [] if (isinstance(v, Ptr) and v == Ptr(nxt, 0)) else ['the cursor moves to %s, expected %s' % (v, nxt)]
                            pr += check_ring(lf, h, 'ctx', names, orig_of([names]))
                        else:
                            if kind != 'ret':
                                probs.append('ring %s at %s: the scan does not end at the sentinel' % (r, at))
                                continue
                            pr = check_ring(lf, h, 'ctx', want_end, orig_of([names]))
                    else:
                        pr = ['the comparison result is tested as %s 0 (canonical operand order), the reference stops on <= 0: elements that compare equal would change places' % tr[0][1]]
                    if kind == 'ret' and name == 'a_que_push_sort' and not (isinstance(v, Ptr) and v == Ptr('N', SZ)):
                        pr.append('returns %s, expected the payload of the new node' % (v,))
                    probs += ['ring %s at %s, comparison %s: %s' % (r, at, tr[0][1], x_) for x_ in pr]
                if seen != {'stop', 'go'}:
                    probs.append('ring %s at %s: outcomes %s of the comparison are reachable, expected both' % (r, at, sorted(seen)))
            except Unsupported as e:
                probs.append('ring %s at %s: outside the domain: %s' % (r, at, e))
        (rep.bad if probs else rep.ok)('Q11', name + '[any length]', '; '.join(probs[:2])[:700] or '%d outcomes: at an arbitrary position of a ring with unexamined segments the iteration compares the documented operands once, '
                                       'stops on <= 0, otherwise moves one node on; the element is re-linked directly at the stop position (or at the far end when the scan is exhausted) and nothing else is read or written' % n,
                                       **({'key': '%s: scan step' % name, 'loc': fn.loc(header.term)} if probs else {'sample': {'fn': name, 'outcomes': n}}))


# ---------------------------------------------------------------- Q12: the inline accessors of the queue
def q12(ctx, lk):
    """a_que_fore / a_que_back hand out the payload of the first / last node (null for an empty queue), the unchecked forms the same
    without the test; a_que_swap_ exchanges the ring positions of the two nodes whose payloads it is given and nothing else."""
    rep = ctx.rep
    hdr = ctx.module('hdr_unit')
    SZ = 16
    rings = [[], ['A1'], ['A1', 'A2'], ['A1', 'SA', 'A2']]
    table = {
        'a_que_fore': lambda r: Ptr(r[0], SZ) if r else NULL,
        'a_que_back': lambda r: Ptr(r[-1], SZ) if r else NULL,
        'a_que_fore_': lambda r: Ptr(r[0], SZ) if r else None,
        'a_que_back_': lambda r: Ptr(r[-1], SZ) if r else None,
    }
    for name, want in table.items():
        fn = hdr.functions.get(name)
        if fn is None or fn.error:
            rep.unk('Q12', name, 'anchor vanished')
            continue
        ctx.rep.functions.add(name)
        probs, n = [], 0
        for r in rings:
            w = want(r)
            if w is None:
                continue          # unchecked accessor on an empty queue: outside its contract
            try:
                h = Heap()
                names = ['ctx'] + r
                h.ring(names)
                dom = QDom()
                lv = symx.Interp(dom, lk).run(fn, [Ptr('ctx', 0)], h.state())
                for lf in lv:
                    n += 1
                    if not (isinstance(lf.ret, Ptr) and lf.ret == w):
                        probs.append('ring %s: returns %s, expected %s' % (r, lf.ret, w))
                    if check_ring(lf, h, 'ctx', names, orig_of([names])):
                        probs.append('ring %s: the accessor changes the ring' % r)
                    if shape.touched_summary(lf, h):
                        probs.append('ring %s: reads inside the queue' % r)
            except Unsupported as e:
                probs.append('ring %s: outside the domain: %s' % (r, e))
        (rep.bad if probs else rep.ok)('Q12', name, '; '.join(sorted(set(probs))[:2]) or '%d cases: payload of the %s node, null when empty' % (n, 'first' if 'fore' in name else 'last'),
                                       **({'key': '%s: accessor' % name, 'loc': fn.loc(fn.entry.instrs[0])} if probs else {}))
    fn = hdr.functions.get('a_que_swap_')
    if fn is None or fn.error:
        rep.unk('Q12', 'a_que_swap_', 'anchor vanished')
        return
    ctx.rep.functions.add('a_que_swap_')
    probs, n = [], 0
    for r, a, b in ((['L', 'A', 'M', 'B', 'R'], 'A', 'B'), (['SL', 'L', 'A', 'M', 'SM', 'N', 'B', 'R', 'SR'], 'A', 'B'), (['L', 'A', 'M', 'B', 'R'], 'B', 'A')):
        try:
            h = Heap()
            names = ['ctx'] + r
            h.ring(names)
            lv = symx.Interp(QDom(), lk).run(fn, [Ptr(a, SZ), Ptr(b, SZ)], h.state())
            want = [b if x == a else a if x == b else x for x in names]
            for lf in lv:
                n += 1
                pr = check_ring(lf, h, 'ctx', want, orig_of([names]))
                if shape.touched_summary(lf, h):
                    pr.append('reads inside the unexamined part of the ring')
                probs += ['ring %s swapping %s, %s: %s' % (r, a, b, x) for x in pr]
        except Unsupported as e:
            probs.append('ring %s: outside the domain: %s' % (r, e))
    (rep.bad if probs else rep.ok)('Q12', 'a_que_swap_', '; '.join(probs[:2]) or '%d cases: the two nodes exchange their ring positions, the rest of the ring is untouched' % n,
                                   **({'key': 'a_que_swap_: element swap', 'loc': fn.loc(fn.entry.instrs[0])} if probs else {}))
