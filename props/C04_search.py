"""C04 rule B9 - the comparison steps of the sort / sorted-insert routines against their reference tables.

Works on the iteration leaves of the loop summaries (lib/lin.py): for ONE arbitrary iteration of a binary search the probe is
the middle element  lo + floor((hi - lo) / 2), the callback gets (probe, key) resp. (first, probe) in this order, and the
interval shrinks as the reference says (upper-bound search: cmp > 0 -> hi = mid, otherwise lo = mid + 1; sort_fore: cmp > 0 ->
b = mid + 1, otherwise i = mid - 1); for one iteration of a bubble loop the callback gets (left neighbour, right neighbour) of
adjacent elements, cmp > 0 exchanges exactly these two and the walk continues, otherwise it stops.  These tables are what makes
the result sorted (textbook argument); an equal key goes behind the elements it compares equal to, like in the reference."""
import sympy as sp
import fm, lin, alg
from lin import Effect
from symx import Ptr, Unsupported

S = lambda n: sp.Symbol(n, integer=True, nonnegative=True)

# function suffix -> binary-search table: (name of lo var, name of hi var, callback order, update on cmp > 0, update otherwise)
BINARY = {
    'push_sort': dict(lo='i', hi='r', order=('mid', 'key'), gt=('hi', 'mid'), le=('lo', 'mid+1')),
    'sort_back': dict(lo='i', hi='r', order=('mid', 'last'), gt=('hi', 'mid'), le=('lo', 'mid+1')),
    'sort_fore': dict(lo='b', hi='i', order=('first', 'mid'), gt=('lo', 'mid+1'), le=('hi', 'mid-1')),
}


def var_of(fn, res):
    ref = fn.varnames.get(res)
    try:
        return fn.module.var_name(ref) if ref else None
    except Exception:
        return None


def elem_index(C, e, siz):
    isst, off = C.storage(Ptr(e.base, e.off))
    if not isst:
        return None
    return lin.divide(off, siz)


def check(C, fn, name, dom, loop_leaves, facts0, rep, leaves=()):
    suffix = name[len('a_%s_' % C.kind):]
    if suffix not in BINARY:
        return
    siz = S('siz_')
    loc = fn.loc(fn.entry.instrs[0])
    tab = BINARY[suffix]
    probs, nb, nbub = [], 0, 0
    for lf in loop_leaves:
        names = {r: var_of(fn, r) for r in lf.loop_cur}
        byname = {v: r for r, v in names.items() if v}
        cbs = [e for e in lf.calls if isinstance(e, Effect) and e.kind == 'callback']
        if len(cbs) != 2:
            continue
        # comparison outcome on this path
        sign = None
        for c in lf.pc:
            if not isinstance(c, alg.Cond):
                continue
            if any(str(x).startswith('cb') for x in sp.sympify(c.a).free_symbols) and sp.sympify(c.b) == 0:
                sign = {'>': 'gt', '<=': 'le', '>=': 'ge', '<': 'lt'}.get(c.rel(), sign)
            elif any(str(x).startswith('cb') for x in sp.sympify(c.b).free_symbols) and sp.sympify(c.a) == 0:
                # 0 < cmp(..) is cmp(..) > 0
                sign = {'<': 'gt', '>=': 'le', '<=': 'ge', '>': 'lt'}.get(c.rel(), sign)
        if sign is None:
            continue
        # equal keys: the reference moves on only for cmp > 0, so the new / moved element ends up behind the elements it compares equal
        # to (arrival order kept); a test that also moves on for cmp == 0 produces a different sequence
        if sign in ('ge', 'lt'):
            probs.append('the comparison result is tested as %s 0, the reference tests > 0: elements that compare equal would change places' % ('>=' if sign == 'ge' else '<'))
            continue
        a0, a1 = elem_index(C, cbs[0], siz), elem_index(C, cbs[1], siz)
        # the two ends of a binary search are the two integer loop variables; the lower end is the one that starts at a constant
        # (0 or 1), whatever the variables are called
        ints = [r for r, v in lf.loop_cur.items() if not isinstance(v, Ptr)]
        inits = getattr(lf, 'loop_init', {})
        if len(ints) == 2 and not any(isinstance(v, Ptr) for v in lf.loop_cur.values()):
            const = [r for r in ints if inits.get(r) is not None and not isinstance(inits.get(r), Ptr) and sp.sympify(inits[r]).is_Integer]
            if len(const) == 1:
                byname = dict(byname)
                byname[tab['lo']] = const[0]
                byname[tab['hi']] = [r for r in ints if r != const[0]][0]
        if tab['lo'] in byname and tab['hi'] in byname and not isinstance(lf.loop_cur[byname[tab['lo']]], Ptr):
            # ---- binary search iteration
            nb += 1
            lo, hi = sp.sympify(lf.loop_cur[byname[tab['lo']]]), sp.sympify(lf.loop_cur[byname[tab['hi']]])
            nlo, nhi = sp.sympify(lf.loop_next[byname[tab['lo']]]), sp.sympify(lf.loop_next[byname[tab['hi']]])
            role = dict(zip(tab['order'], (a0, a1)))
            raw = dict(zip(tab['order'], cbs))
            mid = role.get('mid')
            if mid is None:
                probs.append('the probe passed to the comparison is not an element of the container')
                continue
            try:
                cases = lin.cases_of(dom, lf, facts0, extra_terms=[mid, lo, hi, nlo, nhi])
            except Unsupported as e:
                probs.append(str(e))
                continue
            for cs in cases:
                def ent(x, y):
                    try:
                        return fm.entails(cs.cons, lin.subst_con(fm.le(x, y), cs.kenv)) and fm.entails(cs.cons, lin.subst_con(fm.le(y, x), cs.kenv))
                    except fm.NonLinear:
                        return False

                def le(x, y):
                    try:
                        return fm.entails(cs.cons, lin.subst_con(fm.le(x, y), cs.kenv))
                    except fm.NonLinear:
                        return False
                # middle element: 2 (mid - lo) <= hi - lo <= 2 (mid - lo) + 1
                if not (le(2 * (mid - lo), hi - lo) and le(hi - lo, 2 * (mid - lo) + 1)):
                    probs.append('the probe is element %s, not the middle lo + (hi - lo)/2 of [%s, %s]' % (mid, lo, hi))
                # the other operand
                other = [k for k in tab['order'] if k != 'mid'][0]
                if other == 'key':
                    if raw['key'].base != 'src' or sp.expand(sp.sympify(raw['key'].off)) != 0:
                        probs.append('the comparison does not receive (element, key) in this order')
                elif other == 'last':
                    if role['last'] is None or not ent(role['last'], S('num_') - 1):
                        probs.append('the comparison does not receive (element, last element) in this order (second operand: element %s)' % (role['last'],))
                elif other == 'first':
                    if role['first'] is None or not ent(role['first'], 0):
                        probs.append('the comparison does not receive (first element, element) in this order (first operand: element %s)' % (role['first'],))
                which, val = tab[sign]
                want_lo, want_hi = lo, hi
                v = {'mid': mid, 'mid+1': mid + 1, 'mid-1': mid - 1}[val]
                if which == 'lo':
                    want_lo = v
                else:
                    want_hi = v
                if not (ent(nlo, want_lo) and ent(nhi, want_hi)):
                    probs.append('after cmp %s 0 the interval becomes [%s, %s], the reference continues with [%s, %s]' % ('>' if sign == 'gt' else '<=', nlo, nhi, want_lo, want_hi))
        else:
            # ---- bubble iteration: adjacent elements (left, right), exchanged when out of order
            nbub += 1
            if a0 is None or a1 is None:
                probs.append('the bubble step compares something that is not an element')
                continue
            if sp.expand(a1 - a0 - 1) != 0:
                probs.append('the bubble step compares elements %s and %s: not (left neighbour, right neighbour)' % (a0, a1))
            sw = [e for e in lf.calls if isinstance(e, Effect) and e.name == 'a_swap']
            if sign == 'gt':
                idx = sorted(str(elem_index(C, e, siz)) for e in sw)
                if len(sw) != 2 or idx != sorted([str(a0), str(a1)]):
                    probs.append('elements out of order (cmp > 0) are not exchanged with each other (%s)' % idx)
            elif sw:
                probs.append('elements in order are exchanged')
    # a path that leaves a bubble loop because cmp <= 0 is an ordinary leaf; continuing on cmp <= 0 would show up as an iteration leaf
    for lf in loop_leaves:
        cbs = [e for e in lf.calls if isinstance(e, Effect) and e.kind == 'callback']
        sw = [e for e in lf.calls if isinstance(e, Effect) and e.name == 'a_swap']
        if len(cbs) == 2 and not sw and any(isinstance(v, Ptr) for v in lf.loop_cur.values()):
            le_ = any(isinstance(c, alg.Cond) and any(str(x).startswith('cb') for x in sp.sympify(c.a).free_symbols) and c.rel() == '<=' for c in lf.pc)
            if le_:
                probs.append('the bubble walk continues although the neighbours are in order')
    # a bubble walk is left either because the neighbours are in order or because the moving element has arrived at the far end of the
    # sequence: a path that leaves the function right behind an exchange (last comparison > 0, loop test false) must have it at
    # position 0 (sort_back) resp. num_ - 1 (sort_fore)
    nend = 0
    if suffix in ('sort_fore', 'sort_back'):
        for lf in leaves:
            sw = [e for e in lf.calls if isinstance(e, Effect) and e.name == 'a_swap']
            if len(sw) < 2:
                continue
            last_sign = None
            for c in lf.pc:
                if not isinstance(c, alg.Cond):
                    continue
                if any(str(x).startswith('cb') for x in sp.sympify(c.a).free_symbols) and sp.sympify(c.b) == 0:
                    last_sign = {'>': 'gt', '<=': 'le', '>=': 'ge', '<': 'lt'}.get(c.rel(), last_sign)
                elif any(str(x).startswith('cb') for x in sp.sympify(c.b).free_symbols) and sp.sympify(c.a) == 0:
                    last_sign = {'<': 'gt', '>=': 'le', '<=': 'ge', '>': 'lt'}.get(c.rel(), last_sign)
            if last_sign != 'gt':
                continue
            idx = [elem_index(C, e, siz) for e in sw[-2:]]
            if any(i is None for i in idx):
                continue
            nend += 1
            try:
                cases = lin.cases_of(dom, lf, facts0, extra_terms=idx)
            except Unsupported as e:
                probs.append(str(e))
                continue
            for cs in cases:
                def le(x, y, cs=cs):
                    try:
                        return fm.entails(cs.cons, lin.subst_con(fm.le(x, y), cs.kenv))
                    except fm.NonLinear:
                        return False
                if suffix == 'sort_back':
                    if not (le(idx[0], 0) or le(idx[1], 0)):
                        probs.append('the bubble walk towards the front can end behind an exchange of elements %s and %s: the moving element need not have reached position 0' % (idx[0], idx[1]))
                else:
                    if not (le(S('num_') - 1, idx[0]) or le(S('num_') - 1, idx[1])):
                        probs.append('the bubble walk towards the back can end behind an exchange of elements %s and %s: the moving element need not have reached the last position' % (idx[0], idx[1]))
    if probs:
        rep.bad('B9', name, '; '.join(sorted(set(probs))[:2]), loc=loc, key='%s: comparison steps' % name)
    elif nb + nbub == 0:
        rep.unk('B9', name, 'no comparison iteration recognised', loc=loc)
    else:
        rep.ok('B9', name, '%d binary-search and %d bubble iteration path(s) match the reference tables%s' % (nb, nbub, '; %d exit(s) behind an exchange have the element at the far end' % nend if nend else ''), loc=loc)
