#!/bin/sh
# offline setup: nothing is built; verify the tools the checks need are present
set -e
for t in clang opt-14 python3-vt; do command -v $t >/dev/null || { echo "missing $t"; exit 1; }; done
python3-vt -c "import sympy" 
test -d /repo/src && test -d /repo/include/a
mkdir -p /verif/evidence
echo setup ok
