#!/usr/bin/env python3
"""regenerates /verif/MANIFEST.json from the table below (single source of truth for claims)"""
import json, os
V = os.path.dirname(os.path.dirname(os.path.abspath(__file__)))

TRUST = 'trusted: clang 14 front end and -O0 codegen, opt-14 sroa/mem2reg/instsimplify/simplifycfg, /verif/lib IR reader and engines'

CLAIMS = {
 'C20': dict(engine='ABI', technique='declaration/layout agreement: clang-resolved C type graph (debug-info metadata, folded sizeof/_Alignof) vs Rust item reader + repr(C) layout; thorough adds rustc-checked const/coercion witnesses (compile-fail)',
   cat='proof', text='every repr(C) struct (size, alignment, field order, offsets, machine classes) and every extern "C" fn (existence of a non-static definition, arity, parameter order, machine classes, return class) in src/lib.rs is compared with the C definitions compiled from the current headers, for both real widths; all obligations are enumerated and discharged, so a mismatch anywhere in the binding is reported with both declarations',
   note=TRUST + '; x86-64 SysV class table (specs/abi.json); pointers to void match any pointer; char matches u8/i8; field/parameter renames are reported as notes, only cross-over renames (a proven reordering) are violations; crc8/16/32/64 are Rust-only structs (no C struct of that name exists - checked)'),
 'C15': dict(engine='ALG', technique='abstract interpretation of LLVM IR over exact rational functions (symbolic arguments, decision-tree leaves); polynomial identity checking by normal form; loop-body state-transformer templates for Horner/reversal loops',
   cat='proof', text='all boundary conditions of the cubic/quintic/septic generators are discharged as exact identities in Q(ts,p0,..,j1); every derivative builder and evaluator (pos/vel/acc/jer, c0..c3) is shown to be the exact successive derivative of the position polynomial; the Horner loops (both coefficient orders) and the reversal loop are checked as one-iteration recurrences with guard/first-cell/step obligations that hold for every length',
   note=TRUST + ', sympy expand/cancel; IEEE operations are read as exact real operations and literals as the rationals they round (1.0/6 -> 1/6): the size of rounding error (the "within rounding" clause) is NOT decided; ctx and output arrays assumed distinct; the Horner clause for arbitrary length rests on the textbook induction over the verified recurrence; a_poly_eval/evar wrappers additionally checked for lengths 1..6'),
 'C19': dict(engine='BIT+ALG', technique='bit-level abstract interpretation in GF(2) algebraic normal form (canonical, exact for all inputs); loop-body state-transformer templates (Euclid, integer Newton) with start-value partition on bit length',
   cat='proof', text='bit reversal (4 widths) and the 12 little/big-endian load/store accessors are proved bit-for-bit for all inputs (ANF equality), incl. that only byte accesses inside the object occur; gcd is shown to be exactly the Euclid recurrence, isqrt exactly the integer Newton iteration with a start value compared against floor(sqrt(2^L-1)) for every bit length L and an overflow check, lcm the divide-before-multiply shape with the gcd==0 case separated',
   note=TRUST + '; the gcd and isqrt clauses rest on the two cited textbook lemmas about the recognised algorithms (a different algorithm, e.g. binary gcd or digit-by-digit sqrt, makes the check INCONCLUSIVE, not PASS); only the __builtin_clz (Newton) branch that this host compiles is analysed'),
 'C17': dict(engine='BIT+ALG', technique='loop-body state transformers in GF(2) algebraic normal form with uninterpreted table atoms; trip-count/preload/store/fold-shape rules on the loop structure; composition lemma with checked premises',
   cat='proof', text='for all 7 update routines the byte step is proved to be shift8(value) ^ table[index] with the index bits value_hi/lo ^ byte; for all 8 generators the inner-loop body is proved to be one step of bit-by-bit polynomial division (reflected polynomial of the same width for the LSB-first forms), GF(2)-linear in the register, executed 8 times from the right preload for c = 0..255 and stored truncated at table[c]; every routine is a left fold from the value parameter returning the accumulator (chunk composition); both hashes are left folds whose string and length-delimited forms have the same step',
   note=TRUST + ', lib/bit.py ANF; the step from these premises to "table-driven CRC = bitwise remainder for every polynomial, initial value and byte string" and the m/l reflection duality is the lemma written out in specs/crc_lemma.md (not machine-checked); pointers assumed not to alias; hashes have no independent definition, only fold shape and form agreement are decided'),
 'C18': dict(engine='BIT', technique='bit-level abstract interpretation (GF(2) ANF) of encoder and decoder with range partitioning on the ladder comparisons; decoder decision tree over completely symbolic bytes; loop-body transformer for the length counter',
   cat='proof', text='the encoder is analysed once for a symbolic 31-bit code point: each decision-tree leaf is a length class whose range, written indices and byte layout are compared with the UTF-8 table; those byte vectors are pushed through the decoder\'s abstract semantics (num >= len: same length and same 31 bits, every proper prefix: 0); the decoder is also analysed on arbitrary bytes for num=0..6 and any num>6 (all reads < num, result <= num, multi-byte results only with 10xxxxxx trailers and a matching lead byte); a_utf_length advances by exactly the reported lengths and stops at the first 0',
   note=TRUST + ', lib/bit.py ANF; covers all 2^31-1 code points and all byte strings symbolically; reads-in-bounds for a symbolic num between 0 and 6 are covered by enumerating num, not by a relational bound; a_utf_catc reservation (src/str.c) is checked under C06 when LIN is available; a_utf_length_ (non-validating counter) is not covered'),
 'C12': dict(engine='ALG+PATH', technique='decision-tree abstract interpretation over exact real terms (path conditions = ordered/unordered float comparisons); clamp-leaf rule, guard truth-table rule, algebraic identity between the positional and incremental forms, def-use rule for zero(); effect-set summary for the fuzzy gain scheduler',
   cat='other', text='for all 13 step functions (plain, single-neuron, fuzzy; internal and public entry points) every path returns and stores outmin, outmax or a value guarded by outmin < v < outmax (NaN-safe where a division can produce NaN), for all gains/limits/states/inputs; the positional integrator moves exactly under the documented condition with increment ki*err; outputs and caches equal the documented difference equations and the two modes coincide algebraically; zero() clears every step-carried field',
   note=TRUST + ', sympy; IEEE operations read as exact real operations; NOT decided: finiteness of the state over unbounded histories (needs numeric reasoning) and the single-neuron learning equations (not fixed by the property); a_pid_fuzzy_out_ is summarised as "may change pid.kp/ki/kd only", justified by the effect-set rule D1s under the assumption that scratch buffers and rule tables do not overlap the controller object and the operator callback is pure'),
 'C16': dict(engine='ALG+AFF-lite', technique='abstract interpretation over exact real terms for the filter updates and generators (2*pi read from the checked constant table); loop-body state transformers for the two accumulation loops; call-order/argument rule for the delay-line pushes; effect rule for the block moves and zeroing',
   cat='other', text='lpf/hpf updates, init and zero equal the documented recurrences for all states/inputs (convex-combination and decay clauses as coefficient identities); both generators equal the documented formulas and are ratios with positive coefficients (strictly inside (0,1) for positive fc, ts in real arithmetic), macro twins fold to the same value; a_tf_iter is shown to be push_fore(input); y = sum num[i]*input[i] - sum den[i]*output[i] over exactly num_n/den_n terms; push_fore(output, y); return y, with a_real_push_fore the one-cell shift towards higher indices; zero/setters clear exactly the stated cells',
   note=TRUST + ', sympy; IEEE operations read as exact real operations: saturation of the generators under extreme fc*ts rounding is not decided; arrays and ctx assumed not to overlap; linearity/time-invariance follow from the verified sum form (not separately checked)'),
 'C13': dict(engine='ALG', technique='decision-tree abstract interpretation with parameters ordered through positive gap symbols; cell-by-cell identity with the documented pieces, symbolic slope signs and continuity at every breakpoint; sign-form rule for the smooth families; per-enumerator evaluation of the dispatchers with callees as uninterpreted terms; path-wise min/max resolution for the operators; polynomial comparison of buffer macro and layout',
   cat='other', text='trap/tri/lins/linz/s/z/pi/gauss2: on every elementary interval the code equals the documented piece, with the documented slope sign, continuity at all breakpoints, core exactly 1 and s+z = lins+linz = 1 (hence range [0,1]); gauss/gbell/sig/psig equal their formulas in a form that confines them to (0,1]; a_mf and a_pid_fuzzy_mf dispatch every enumerator to the like-named function with the parameters in order and the right cursor advance, a_pid_fuzzy_opr maps every operator constant; all 9 fuzzy operators equal their documented formulas on every path; A_PID_FUZZY_BFUZZ(n) and the idx/val layout equal 2n unsigneds + n(2+n) reals for both real widths',
   note=TRUST + ', sympy; parameters well ordered with non-zero widths (as the property states); commutativity/monotonicity/boundary/min-max-bound clauses follow from the documented operator formulas (standard t-norm facts), the checker proves code = formula; NOT decided: the defuzzifier loops (weighted mean between smallest and largest consequent) and the write extent of the joint-membership loops inside the scratch buffer (need nested-loop summaries; only macro size and layout are decided)'),
 'C07': dict(engine='PATH', technique='whole-unit CFG analysis of vec.c/buf.c/str.c/que.c: allocation sites by def-use of the loaded global a_alloc, bottom-up fallible-function summaries, boolean structure of branch conditions (truth-table entailment), pointer-provenance effect sets, dominance / all-paths-cross-an-edge / must-pass-through queries',
   cat='other', text='A1 every allocation result is used only behind an edge entailing "non-null (or size 0)"; A2 allocate-then-mutate: for every failure point (21 a_alloc sites, every call to a fallible function) no container mutation can precede it and every later mutation is separated from it on all CFG paths by an edge establishing success; A3 every fallible result is tested or handed on and failure edges return the failure indicator; A4 successful allocations are stored/returned/freed on every path, reallocation never overwrites the owner untested, destructors free every owning field and die = dtor + free(self). This covers every allocation request of every operation being the failing one; "succeeds later" follows from the unchanged state',
   note=TRUST + ', lib/path.py, lib/effects.py; assumes callbacks do not touch the container and a_alloc follows its documented protocol; spare-room writes behind the content of a string (the measuring vsnprintf) count as compensated when the failure path restores the terminator; NOT decided: exactly-once release over whole histories (only per-function ownership and destructor coverage); known findings (recorded, not repaired): a_que_drop and a_que_setz mutate before their fallible steps'),
 'C10': dict(engine='ALG+CFG', technique='constant-table comparison at the precision of the real type; IR-level binding rule per switch in the all-on build (both widths); abstract interpretation of the all-off build over exact terms with exponential normal form for the elementary fallbacks; uninterpreted-pair summaries of base functions applied to the current value of *ctx for compositions and in-place hazards; per-branch sign analysis for the principal square root',
   cat='other', text='all 21 constants equal their closed forms; each of the 15 libm-switched functions is exactly one call of the like-named C99 function of the right width on *ctx (atanh documented as always-fallback); all field operations incl. real/imaginary scalar forms equal the field operation (so documented inverse pairs compose to the identity); exp/sin/cos/tan/sinh/cosh/tanh fallbacks equal their defining exponential forms on every branch; log/log2/log10/logb/pow/pow_real and the 15 reciprocal/inverse/hyperbolic-inverse derived functions equal their documented compositions evaluated on the ENTRY value; the fallback square root is the principal value in all quadrants',
   note=TRUST + ', sympy; every #if region depends on its own switch only (rule CFG-0), so all-on/all-off cover all 2^16 configurations per function; IEEE operations read as exact real operations: NOT decided are accuracy in ulps, values on branch cuts/poles, and the GSL-style piecewise bodies of the asin/acos/atan fallbacks (only their use in compositions is checked) and the real-argument variants on their cuts'),
}

NA = {
}
PENDING = 'check not built yet in this round (see DESIGN.md section 7 build order)'

def main():
    props = [json.loads(l) for l in open(os.path.join(V, 'properties.jsonl'))]
    checks = []
    na = []
    for p in props:
        i = p['id']
        if i in CLAIMS:
            c = CLAIMS[i]
            checks.append({
                'property_id': i,
                'quick_cmd': './check %s --tier quick' % i,
                'thorough_cmd': './check %s --tier thorough' % i,
                'evidence_file': '/verif/evidence/%s.json' % i,
                'replay_cmd_template': './check %s --explain {path}' % i,
                'engine': c['engine'], 'technique': c['technique'],
                'level_claimed': {'category': c['cat'], 'text': c['text'], 'design_ref': 'DESIGN.md section 4 ' + i},
                'level_note': c['note']})
        else:
            na.append({'property_id': i, 'reason': NA.get(i, PENDING)})
    man = {
        'version': 1,
        'setup_cmd': './setup.sh',
        'hooks': {'guard': 'LIBA_VERIF', 'enable': 'none needed: the analyses compile /repo sources with -D overrides only (A_INTERN, A_HAVE_H)',
                  'baseline_off_cmd': 'ctest --test-dir /repo/_build -j8 --timeout 900', 'source_commits': [], 'add_only': True},
        'engines': [
            {'name': 'irx+llir', 'path': 'lib/irx.py, lib/llir.py', 'serves_properties': sorted(CLAIMS), 'kind_free_text': 'clang/opt IR pipeline and IR reader (CFG, dominators, loops, def-use)'},
            {'name': 'ALG', 'path': 'lib/symx.py, lib/alg.py', 'serves_properties': ['C10', 'C12', 'C13', 'C15', 'C16', 'C17', 'C19'], 'kind_free_text': 'abstract interpreter over exact algebraic values with trace partitioning'},
            {'name': 'BIT', 'path': 'lib/bit.py, lib/looptx.py', 'serves_properties': ['C17', 'C18', 'C19'], 'kind_free_text': 'GF(2) algebraic-normal-form bit vectors; loop-body state transformers'},
            {'name': 'PATH', 'path': 'lib/path.py, lib/effects.py', 'serves_properties': ['C07', 'C12'], 'kind_free_text': 'CFG path, typestate and effect rules'},
            {'name': 'ABI', 'path': 'props/C20.py, lib/dwarf.py, lib/rustsrc.py', 'serves_properties': ['C20'], 'kind_free_text': 'declaration and layout agreement'},
        ],
        'checks': checks,
        'not_applicable': na,
        'notes': 'static analysis only; exit 0 pass / 1 + VIOLATION line / 2 analysis incomplete (no verdict). Known findings: /verif/known_findings.json',
    }
    json.dump(man, open(os.path.join(V, 'MANIFEST.json'), 'w'), indent=1)
    print('MANIFEST: %d checks, %d not_applicable' % (len(checks), len(na)))

main()
