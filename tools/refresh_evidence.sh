#!/bin/sh
# regenerate evidence/<id>.json for every claimed property on the CLEAN tree (refuses when /repo has local changes under src/include):
# evidence files are rewritten by every run, so a mutant or seed run without VERIF_OUT would otherwise leave a violation record behind.
cd /verif
if [ -n "$(git -C /repo status --short -- src include)" ]; then echo "refusing: /repo has local changes"; exit 2; fi
rc=0
for i in 01 02 03 04 05 06 07 08 09 10 11 12 13 14 15 16 17 18 19 20; do
  ./check C$i --tier ${1:-quick} > /tmp/refresh_$i.log 2>&1; r=$?
  echo "C$i rc=$r $(head -1 /tmp/refresh_$i.log | cut -c1-100)"
  [ $r = 0 ] || rc=1
done
exit $rc
