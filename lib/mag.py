"""MAG - magnitude classes of non-negative binary64 values, for "saturates instead of turning into NaN" rules.

Abstract values:  Z exact zero | INF +infinity | NAN | ('m', lo, hi) a finite positive value in [2**lo, 2**(hi+1)] | TOP anything.
The transfer functions are interval arithmetic on binary exponents followed by the IEEE overflow / underflow thresholds:
a real result that is at least 2**1024 rounds to +inf, one that is at most 2**-1075 rounds to 0; an interval that straddles a
threshold is TOP.  0*inf, 0/0 and inf/inf are NAN.  Every concrete input of a class is covered (rounding is monotone and the
end points are powers of two), so a NAN / INF result is definite for the whole class: a report names the class, nothing is run."""
import math

Z, INF, NAN, TOP = ('z',), ('inf',), ('nan',), ('top',)
EMAX, EZERO = 1024, -1075


def m(lo, hi):
    if lo >= EMAX:
        return INF
    if hi + 1 <= EZERO:
        return Z
    if hi >= EMAX or lo < EZERO:
        return TOP
    return ('m', lo, hi)


def const(c):
    if c != c:
        return NAN
    if c == 0:
        return Z
    if c < 0:
        return TOP
    if c == float('inf'):
        return INF
    e = math.frexp(c)[1] - 1
    return m(e, e)


def binade(e):
    return ('m', e, e)


def mul(x, y):
    if NAN in (x, y):
        return NAN
    if {x, y} == {Z, INF}:
        return NAN
    if TOP in (x, y):
        return TOP
    if Z in (x, y):
        return Z
    if INF in (x, y):
        return INF
    return m(x[1] + y[1], x[2] + y[2] + 1)


def div(x, y):
    if NAN in (x, y):
        return NAN
    if (x, y) in ((Z, Z), (INF, INF)):
        return NAN
    if TOP in (x, y):
        return TOP
    if x == Z or y == INF:
        return Z
    if y == Z or x == INF:
        return INF
    return m(x[1] - y[2] - 1, x[2] - y[1])


def add(x, y):
    if NAN in (x, y):
        return NAN
    if TOP in (x, y):
        return TOP
    if INF in (x, y):
        return INF
    if x == Z:
        return y
    if y == Z:
        return x
    return m(max(x[1], y[1]), max(x[2], y[2]) + 1)


def sub(x, y):
    if NAN in (x, y):
        return NAN
    if x == INF and y == INF:
        return NAN
    if TOP in (x, y):
        return TOP
    if y == Z:
        return x
    if x == INF:
        return INF
    return TOP      # the sign is open: outside the domain of non-negative values


OPS = {'fmul': mul, 'fdiv': div, 'fadd': add, 'fsub': sub}


def run(fn, args):
    """straight-line function over doubles -> abstract return value, or None when it is not straight-line arithmetic"""
    if len(fn.blocks) != 1:
        return None
    env = dict(zip([p[1] for p in fn.params], args))

    def val(o):
        if o.k == 'reg':
            return env.get(o.v, TOP)
        if o.k == 'fp':
            return const(o.v)
        return TOP
    for i in fn.blocks[0].instrs:
        if i.op in OPS:
            env[i.res] = OPS[i.op](val(i.ops[0]), val(i.ops[1]))
        elif i.op == 'ret':
            return val(i.ops[0]) if i.ops else None
        elif i.op in ('fpext', 'fptrunc'):
            return None
        elif i.res is not None:
            if i.op == 'call' and str(i.x.get('callee', '')).startswith('llvm.dbg'):
                continue
            env[i.res] = TOP
    return None


def show(v):
    if v[0] == 'm':
        return '[2^%d, 2^%d]' % (v[1], v[2] + 1)
    return {'z': '0', 'inf': '+inf', 'nan': 'NaN', 'top': 'undecided'}[v[0]]
