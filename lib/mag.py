"""MAG - sign and magnitude classes of binary64 values, for "saturates instead of turning into NaN" rules.

Abstract values:  Z exact zero | ('inf', s) | NAN | ('m', s, lo, hi) a finite value of sign s and magnitude in
[2**lo, 2**(hi+1)] | ('x', c) exactly the binary64 number c (constants of the code and what folds from them; a value whose
magnitude is below a quarter ulp of c is absorbed by c + v) | TOP anything.
The transfer functions are interval arithmetic on binary exponents followed by the IEEE overflow / underflow thresholds:
a real result of magnitude at least 2**1024 rounds to an infinity, one of at most 2**-1075 rounds to 0; an interval that
straddles a threshold is TOP.  0*inf, 0/0, inf/inf and inf-inf are NAN.  A difference of two values of the same sign is decided
only when their magnitudes are separated by a binade.  exp and pow are taken as monotone functions that are exact at the
level of binades (they are within an ulp in every libm).  Every concrete input of a class is covered (rounding is monotone and
the end points are powers of two), so a NAN / infinite result is definite for the whole class: a report names the class,
nothing is run."""
import math

Z, NAN, TOP = ('z',), ('nan',), ('top',)
PINF, NINF = ('inf', 1), ('inf', -1)
INF = PINF
EMAX, EZERO = 1024, -1075
LOG2E = 1.4426950408889634


def m(lo, hi, s=1):
    if lo >= EMAX:
        return ('inf', s)
    if hi + 1 <= EZERO:
        return Z
    if hi >= EMAX or lo < EZERO:
        return TOP
    return ('m', s, lo, hi)


def const(c):
    if c != c:
        return NAN
    if c == 0:
        return Z
    s = 1 if c > 0 else -1
    if abs(c) == float('inf'):
        return ('inf', s)
    return ('x', float(c))


def cls(v):
    """an exact number as a magnitude class"""
    if v[0] != 'x':
        return v
    e = math.frexp(abs(v[1]))[1] - 1
    return m(e, e, 1 if v[1] > 0 else -1)


def exact(r):
    if r != r:
        return NAN
    if r == 0:
        return Z
    if abs(r) == float('inf'):
        return ('inf', 1 if r > 0 else -1)
    return ('x', r)


def binade(e, s=1):
    return ('m', s, e, e)


def sign(x):
    if x[0] == 'x':
        return 1 if x[1] > 0 else -1
    return x[1] if x[0] in ('inf', 'm') else 0


def neg(x):
    if x[0] == 'x':
        return ('x', -x[1])
    if x[0] == 'inf':
        return ('inf', -x[1])
    if x[0] == 'm':
        return ('m', -x[1], x[2], x[3])
    return x


def fabs(x):
    return neg(x) if sign(x) < 0 else x


def _mul(x, y):
    if NAN in (x, y):
        return NAN
    if (x == Z and y[0] == 'inf') or (y == Z and x[0] == 'inf'):
        return NAN
    if TOP in (x, y):
        return TOP
    if Z in (x, y):
        return Z
    s = sign(x) * sign(y)
    if 'inf' in (x[0], y[0]):
        return ('inf', s)
    return m(x[2] + y[2], x[3] + y[3] + 1, s)


def _div(x, y):
    if NAN in (x, y):
        return NAN
    if (x == Z and y == Z) or (x[0] == 'inf' and y[0] == 'inf'):
        return NAN
    if TOP in (x, y):
        return TOP
    if y == Z:
        return TOP      # the sign of the zero decides the sign of the infinity
    if x == Z or y[0] == 'inf':
        return Z
    s = sign(x) * sign(y)
    if x[0] == 'inf':
        return ('inf', s)
    return m(x[2] - y[3] - 1, x[3] - y[2], s)


def _add(x, y):
    if NAN in (x, y):
        return NAN
    if x[0] == 'inf' and y[0] == 'inf':
        return x if x[1] == y[1] else NAN
    if TOP in (x, y):
        return TOP
    if x[0] == 'inf':
        return x
    if y[0] == 'inf':
        return y
    if x == Z:
        return y
    if y == Z:
        return x
    if x[1] == y[1]:
        return m(max(x[2], y[2]) + (1 if x[2] == y[2] else 0), max(x[3], y[3]) + 1, x[1])
    big, small = (x, y) if x[2] >= y[2] else (y, x)
    if big[2] >= small[3] + 2:
        return m(big[2] - 1, big[3], big[1])
    return TOP      # cancellation: sign and magnitude open


def _absorbs(c, v):
    """c + v == c for every v of the class: |v| stays below a quarter of the spacing of the doubles around c"""
    if v == Z:
        return True
    return v[0] == 'm' and v[3] + 1 < math.frexp(abs(c))[1] - 1 - 54


def add(x, y):
    if x[0] == 'x' and y[0] == 'x':
        return exact(x[1] + y[1])
    if x[0] == 'x' and _absorbs(x[1], y):
        return x
    if y[0] == 'x' and _absorbs(y[1], x):
        return y
    return _add(cls(x), cls(y))


def mul(x, y):
    if x[0] == 'x' and y[0] == 'x':
        return exact(x[1] * y[1])
    for a, b in ((x, y), (y, x)):
        if a[0] == 'x' and abs(a[1]) == 1.0 and b not in (NAN, TOP):
            return b if a[1] > 0 else neg(b)
    return _mul(cls(x), cls(y))


def div(x, y):
    if x[0] == 'x' and y[0] == 'x':
        return exact(x[1] / y[1])
    if y[0] == 'x' and abs(y[1]) == 1.0 and x not in (NAN, TOP):
        return x if y[1] > 0 else neg(x)
    return _div(cls(x), cls(y))


def sub(x, y):
    return add(x, neg(y))


def sqrt(x):
    if x in (NAN, TOP, Z, PINF):
        return x
    if sign(x) < 0:
        return NAN
    if x[0] == 'x':
        return exact(math.sqrt(x[1]))       # correctly rounded in IEEE 754
    lo, hi = x[2], x[3]
    return m(lo // 2, -((-(hi + 1)) // 2) - 1)


def bounds(v):
    """closed real interval of a value, or None"""
    if v == Z:
        return (0.0, 0.0)
    if v[0] == 'x':
        return (v[1], v[1])
    if v[0] == 'inf':
        return (float('inf') * v[1],) * 2
    if v[0] == 'm':
        def p2(e):
            try:
                return math.ldexp(1.0, e)
            except OverflowError:
                return float('inf')
        lo, hi = p2(v[2]), p2(v[3] + 1)
        return (lo, hi) if v[1] > 0 else (-hi, -lo)
    return None


def fcmp(pred, x, y):
    """-> ('b', True | False) when decided for the whole class, else TOP"""
    if NAN in (x, y):
        return ('b', pred.startswith('u') or pred == 'une') if pred not in ('ord', 'uno') else ('b', pred == 'uno')
    bx, by = bounds(x), bounds(y)
    if bx is None or by is None:
        return TOP
    p = pred[1:] if pred[0] in 'ou' and len(pred) == 3 else pred
    lt = True if bx[1] < by[0] else (False if bx[0] >= by[1] else None)
    gt = True if bx[0] > by[1] else (False if bx[1] <= by[0] else None)
    eq = True if bx[0] == bx[1] == by[0] == by[1] else (False if (lt or gt) else None)
    r = {'lt': lt, 'gt': gt, 'eq': eq, 'ne': (None if eq is None else not eq),
         'le': (None if gt is None else not gt), 'ge': (None if lt is None else not lt)}.get(p)
    return TOP if r is None else ('b', r)


def exp(x):
    x = cls(x)
    if x in (NAN, TOP):
        return x
    if x == Z:
        return m(0, 0)
    if x[0] == 'inf':
        return PINF if x[1] > 0 else Z
    s, lo, hi = x[1], x[2], x[3]
    if hi + 1 <= -54:
        return m(-1, 0)               # 1 - 2**-54 .. 1 + 2**-54: rounds to 1 or a neighbour
    if lo >= 11:
        return PINF if s > 0 else Z   # |t| >= 2048 > 745.2
    if hi >= 12:
        return TOP
    a, b = (2.0 ** lo) * LOG2E, (2.0 ** (hi + 1)) * LOG2E
    if s > 0:
        return m(int(math.floor(a)), int(math.ceil(b)) - 1)
    return m(int(math.floor(-b)), int(math.ceil(-a)) - 1)


def pow_(x, p):
    """pow(x, p) for a positive exponent class p; a negative base only with the exponent 2"""
    x, p = cls(x), cls(p)
    if NAN in (x, p):
        return NAN
    if TOP in (x, p):
        return TOP
    if sign(p) <= 0 or p[0] != 'm':
        return TOP
    if sign(x) < 0:
        return TOP
    if x == Z:
        return Z
    if x[0] == 'inf':
        return PINF
    plo, phi = 2.0 ** p[2], 2.0 ** (p[3] + 1)
    corners = [a * b for a in (x[2], x[3] + 1) for b in (plo, phi)]
    L, H = min(corners), max(corners)
    if abs(L) > 1e6 or abs(H) > 1e6:
        if L >= EMAX:
            return PINF
        if H <= EZERO:
            return Z
        return TOP
    return m(int(math.floor(L)), int(math.ceil(H)) - 1)


OPS = {'fmul': mul, 'fdiv': div, 'fadd': add, 'fsub': sub}


def run(fn, args, lookup=None, depth=0, mem=None):
    """straight-line function over doubles -> abstract return value, or None when it is not straight-line arithmetic.
    An argument ('ptr', name) is an object whose double fields live in mem[(name, field index)]; loads and stores through
    constant-index geps of it are followed (a void function returns True, the results are in mem)."""
    if len(fn.blocks) != 1 or depth > 3:
        return None
    env = dict(zip([p[1] for p in fn.params], args))
    if mem is None:
        mem = {}

    def val(o):
        if o.k == 'reg':
            return env.get(o.v, TOP)
        if o.k == 'fp':
            return const(o.v)
        return TOP
    for i in fn.blocks[0].instrs:
        if i.op in OPS:
            env[i.res] = OPS[i.op](val(i.ops[0]), val(i.ops[1]))
        elif i.op == 'fneg':
            env[i.res] = neg(val(i.ops[0]))
        elif i.op == 'fcmp':
            env[i.res] = fcmp(str(i.x.get('pred')), val(i.ops[0]), val(i.ops[1]))
        elif i.op == 'select':
            c_ = env.get(i.ops[0].v, TOP) if i.ops[0].k == 'reg' else TOP
            a_, b_ = val(i.ops[1]), val(i.ops[2])
            env[i.res] = (a_ if c_[1] else b_) if c_[0] == 'b' else (a_ if a_ == b_ else TOP)
        elif i.op == 'ret':
            return val(i.ops[0]) if i.ops else True
        elif i.op == 'gep':
            b = env.get(i.ops[0].v) if i.ops[0].k == 'reg' else None
            if b is not None and b[0] == 'ptr' and all(o.k == 'int' for o in i.ops[1:]) and len(i.ops) == 3 and i.ops[1].v == 0:
                env[i.res] = ('addr', b[1], i.ops[2].v)
            else:
                return None
        elif i.op == 'bitcast' and i.ops[0].k == 'reg' and env.get(i.ops[0].v, TOP)[0] in ('ptr', 'addr'):
            env[i.res] = env[i.ops[0].v]
        elif i.op == 'load':
            a = env.get(i.ops[0].v) if i.ops[0].k == 'reg' else None
            if a is None or a[0] not in ('addr', 'ptr'):
                return None
            env[i.res] = mem.get((a[1], a[2] if a[0] == 'addr' else 0), TOP)
        elif i.op == 'store':
            a = env.get(i.ops[1].v) if i.ops[1].k == 'reg' else None
            if a is None or a[0] not in ('addr', 'ptr'):
                return None
            mem[(a[1], a[2] if a[0] == 'addr' else 0)] = val(i.ops[0])
        elif i.op in ('fpext', 'fptrunc'):
            return None
        elif i.op == 'call':
            callee = str(i.x.get('callee', '')).lstrip('@')
            if callee.startswith('llvm.dbg'):
                continue
            a = [val(o) for o in i.ops]
            if callee in ('exp', 'expf') and len(a) == 1:
                env[i.res] = exp(a[0])
            elif callee in ('sqrt', 'sqrtf') or callee.startswith('llvm.sqrt'):
                env[i.res] = sqrt(a[0])
            elif callee.startswith('llvm.fabs') or callee in ('fabs', 'fabsf'):
                env[i.res] = fabs(a[0])
            elif callee in ('pow', 'powf') and len(a) == 2:
                o = i.ops[1]
                if o.k == 'fp' and o.v == 2.0:
                    env[i.res] = mul(fabs(a[0]), fabs(a[0]))
                else:
                    env[i.res] = pow_(a[0], a[1])
            else:
                g = lookup(callee) if lookup else None
                r = run(g, a, lookup, depth + 1) if g is not None and not getattr(g, 'error', None) and g.blocks else None
                if r is None:
                    if i.res is None:
                        return None
                    env[i.res] = TOP
                else:
                    env[i.res] = r
        elif i.res is not None:
            env[i.res] = TOP
    return None


def out_of_unit_interval(r):
    """definitely not a value of [0,1]"""
    if r[0] == 'x':
        return not (0 <= r[1] <= 1)
    return r == NAN or r[0] == 'inf' or (r[0] == 'm' and (r[1] < 0 or r[2] >= 1))


def show(v):
    if v[0] == 'm':
        return '%s[2^%d, 2^%d]' % ('-' if v[1] < 0 else '', v[2], v[3] + 1)
    if v[0] == 'inf':
        return '+inf' if v[1] > 0 else '-inf'
    if v[0] == 'x':
        return repr(v[1])
    if v[0] == 'b':
        return str(v[1])
    return {'z': '0', 'nan': 'NaN', 'top': 'undecided'}[v[0]]


def show_class(name, v):
    return '%s in %s' % (name, show(v))
