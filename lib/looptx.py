"""loop-body state transformers (AFF-lite): the abstract one-iteration effect of a natural loop on its
header phis, its guard(s) and its memory effects, computed by symx.run_region with the phis bound to
symbols.  Used to check recurrence templates (Horner, CRC update, table generators, Euclid, Newton)."""
import symx
from symx import Ptr, Unsupported


class LoopTx:
    pass


def find_loop(fn, which=None):
    loops = fn.loops()
    if which is None:
        if len(loops) != 1:
            raise Unsupported('%s has %d loops, template expects 1' % (fn.name, len(loops)))
        return loops[0]
    return which(loops)


def nesting(fn):
    """loops sorted outermost first with parent links: [(header, body, latches, parent_header|None)]"""
    loops = fn.loops()
    out = []
    for h, body, lat in loops:
        parent = None
        best = None
        for h2, body2, _ in loops:
            if h2 is not h and h in body2 and body < body2:
                if best is None or len(body2) < best:
                    best = len(body2)
                    parent = h2
        out.append((h, body, lat, parent))
    out.sort(key=lambda x: -len(x[1]))
    return out


def transformer(fn, lookup, args, dom, bind, loop=None, pre_env=None, from_block=None, extra_stops=(), from_prev=None, pre_state=None):
    """-> LoopTx with: phis, init {phi: value}, sym {phi: bound symbol}, backs [(state, {phi: next value})],
    exits [(state, block)] leaving the loop, rets [(state, ret)], pre (state before the loop)
    bind(phi_instr, init_value) -> abstract value for the phi in the one-iteration run"""
    header, body, latches = loop or find_loop(fn)
    phis = [i for i in header.instrs if i.op == 'phi']
    it = symx.Interp(dom, lookup)
    tx = LoopTx()
    tx.header, tx.body, tx.phis = header, body, phis
    # 1. code before the loop: initial phi values
    if (from_block or fn.entry) is header and from_prev is not None:
        s0 = pre_state or symx.State()
        s0.env = dict(pre_env or {})
        for (t, n), a in zip(fn.params, args):
            if n is not None:
                s0.env.setdefault(n, a)
        prev0 = from_prev
        rets0 = []
    else:
        ro, rets0 = it.run_region(fn, args, from_block or fn.entry, dict(pre_env or {}), [header], st=pre_state, prev=from_prev)
        ro = [r for r in ro if r[1] is header]
        if len(ro) != 1:
            raise Unsupported('pre-loop code of %s forks (%d paths reach the loop)' % (fn.name, len(ro)))
        s0, _, prev0 = ro[0]
    tx.pre = s0
    tx.pre_rets = rets0
    init = {}
    for ph in phis:
        init[ph.res] = it.val(ph.ops[ph.x['labels'].index(prev0.name)], s0, fn)
    tx.init = init
    # 2. one abstract iteration
    it2 = symx.Interp(dom, lookup)
    env0 = dict(pre_env or {})
    # values defined before the loop remain visible inside it
    for k, v in s0.env.items():
        env0.setdefault(k, v)
    sym = {}
    for ph in phis:
        sym[ph.res] = bind(ph, init[ph.res])
        env0[ph.res] = sym[ph.res]
    tx.sym = sym
    st = symx.State()
    st.store = dict(s0.store)
    st.offs = dict(s0.offs)
    # blocks just outside the loop stop the region as well
    outside = set()
    for b in body:
        for s in b.succs:
            if s not in body:
                outside.add(s)
    ro2, rets = it2.run_region(fn, args, header, env0, [header] + list(outside) + list(extra_stops), st=st)
    tx.backs = []
    tx.exits = []
    for s, blk, prev in ro2:
        if blk is header:
            nv = {}
            for ph in phis:
                nv[ph.res] = it2.val(ph.ops[ph.x['labels'].index(prev.name)], s, fn)
            tx.backs.append((s, nv))
        else:
            tx.exits.append((s, blk, prev))
    tx.rets = rets
    tx.interp = it2
    # 3. continue every loop exit to the function's return (must not re-enter the loop)
    tx.finals = list(rets)
    for s, blk, prev in tx.exits:
        try:
            ro3, rets3 = it2.run_region(fn, args, blk, dict(s.env), [header], st=s.clone(), prev=prev)
        except Unsupported:
            tx.finals = None   # another loop follows
            break
        if ro3:
            tx.finals = None   # outer loop: the exit flows back into a loop
            break
        tx.finals.extend(rets3)
    return tx
