"""SHAPE for binary trees with parent links and a tag packed into the low bits of the parent word (AVL balance factor,
red-black colour).

A *fragment* is an explicit heaplet: materialised nodes (all three cells known), summary subtrees (a node whose child cells
are lazy - reading them means the fragment was too small - but whose parent word is known up to a symbolic tag), the
optional parent U of the fragment top (child cells known, parent word opaque) or the root object.  Ghost labels: every
summary subtree carries a height (AVL) or a black height and a colour (red-black) as an integer term; the labels of
materialised nodes are computed from the links.  The code is interpreted on the fragment (symx), afterwards the final links
are read back and compared: parent/child agreement, in-order word, stored tag against the ghost labels."""
import sympy as sp
import llir, symx, alg, shape
from symx import Ptr, NULL, Unsupported

PTRT = llir.Ty('ptr', llir.I(8))
I64 = llir.I(64)


class TreeDom(shape.HeapDom):
    def __init__(self, mask):
        shape.HeapDom.__init__(self)
        self.mask = mask          # 3 (avl) or 1 (rbt)
        self.cmp_calls = 0

    def _c(self, v):
        if isinstance(v, int):
            return v
        c = self.concrete(v)
        return c

    def ptr_bits(self, op, a, b):
        if not isinstance(a, Ptr):
            a, b = b, a
        k = self._c(b)
        if op == 'and':
            if k is None:
                raise Unsupported('pointer masked with a symbolic value')
            k &= (1 << 64) - 1
            if k == self.mask:
                return a.off if not isinstance(a.off, int) else sp.Integer(a.off)
            if k == ((1 << 64) - 1) ^ self.mask:
                return Ptr(a.base, 0)
            if k == 1 and self.mask == 3:
                off = a.off
                if isinstance(off, int):
                    return sp.Integer(off & 1)
            raise Unsupported('pointer masked with %#x' % k)
        if op == 'or':
            if isinstance(b, Ptr):
                raise Unsupported('or of two pointers')
            if k is not None:
                if isinstance(a.off, int) or self._c(a.off) is not None:
                    return Ptr(a.base, int(self._c(a.off)) | k)
                if k == self.mask == 1:
                    return Ptr(a.base, 1)      # colour | 1 = black whatever it was
                raise Unsupported('or of a constant into a symbolic tag')
            # symbolic tag (taken from another parent word) or'ed into an aligned pointer
            if self._c(a.off) == 0:
                return Ptr(a.base, b)
            raise Unsupported('or of a symbolic tag into a tagged pointer')
        raise Unsupported('pointer bit operation %s' % op)

    def off_key(self, off):
        if isinstance(off, int):
            return off
        c = self.concrete(off)
        if c is not None:
            return int(c)
        return str(sp.expand(off))

    def int_to_ptr(self, v):
        c = self._c(v)
        if c is not None and 0 <= c <= self.mask:
            return Ptr('null', c)
        raise Unsupported('inttoptr of %r' % (v,))

    def nonnull(self, base):
        return not base.startswith('?')

    def indirect_call(self, callee, args, ins, interp, st):
        # the comparison callback: an unknown integer (the analysis forks on its sign)
        self.cmp_calls += 1
        s = sp.Symbol('cmp%d' % self.cmp_calls, integer=True)
        st.calls.append(('cmp', args))
        return s

    def opaque_call(self, name, args, ins, interp, st):
        if name == 'cmp':
            self.cmp_calls += 1
            # recorded by the caller (symx appends (name, args) to st.calls)
            return sp.Symbol('cmp%d' % self.cmp_calls, integer=True)
        return None


def binop_tag(dom):
    pass


class Frag:
    """tree fragment; field offsets L, R, P"""
    L, R, P = 0, 8, 16

    def __init__(self, mask):
        self.mask = mask
        self.nodes = {}      # name -> dict(l, r, p, tag, summary, label)
        self.rootobj = None  # name of the root object if the top hangs off it
        self.top = None
        self.lazy = {}       # (node, off) cells that are deliberately unknown

    def node(self, name, l=None, r=None, p=None, tag=0, summary=False, **label):
        self.nodes[name] = dict(l=l, r=r, p=p, tag=tag, summary=summary, label=label)
        return name

    def summary(self, name, p, tag=None, **label):
        t = tag if tag is not None else sp.Symbol('t_' + name, integer=True, nonnegative=True)
        return self.node(name, l='?', r='?', p=p, tag=t, summary=True, **label)

    def state(self):
        st = symx.State()

        def put(n, off, v, ty=PTRT):
            st.store[(n, off)] = (v, ty)
            st.offs[(n, off)] = off
        for n, d in self.nodes.items():
            if d['l'] != '?':
                put(n, self.L, Ptr(d['l'], 0) if d['l'] else NULL)
            if d['r'] != '?':
                put(n, self.R, Ptr(d['r'], 0) if d['r'] else NULL)
            if d['p'] != '?':
                put(n, self.P, Ptr(d['p'] if d['p'] else 'null', d['tag']), I64)
        if self.rootobj:
            put(self.rootobj, 0, Ptr(self.top, 0) if self.top else NULL)
        return st


class Final:
    """links read back from a final store"""
    def __init__(self, frag, store, rootobj=None):
        self.frag = frag
        self.store = store
        self.rootobj = rootobj if rootobj is not None else frag.rootobj

    def cell(self, n, off):
        v = self.store.get((n, off))
        return v[0] if v is not None else None

    def child(self, n, side):
        v = self.cell(n, Frag.L if side == 'l' else Frag.R)
        if v is None:
            return '?'
        if not isinstance(v, Ptr):
            return ('!', v)
        if v.base == 'null':
            return None
        if v.off != 0:
            return ('!', v)
        return v.base

    def parent(self, n):
        v = self.cell(n, Frag.P)
        if v is None:
            return '?', None
        if not isinstance(v, Ptr):
            try:
                c = int(v)
                if 0 <= c <= self.frag.mask:
                    return None, c
            except Exception:
                pass
            return ('!', v), None
        return (None if v.base == 'null' else v.base), v.off

    def top(self):
        if self.rootobj:
            v = self.cell(self.rootobj, 0)
            if isinstance(v, Ptr):
                return None if v.base == 'null' else v.base
            return ('!', v)
        return None

    def is_summary(self, n):
        d = self.frag.nodes.get(n)
        return d is not None and d['summary']

    def inorder(self, n, depth=0):
        if n is None:
            return []
        if isinstance(n, tuple) or n == '?':
            return ['<%s>' % (n,)]
        if depth > 40:
            return ['<cycle>']
        if self.is_summary(n):
            return ['[%s]' % n]
        if n not in self.frag.nodes:
            return ['<%s?>' % n]
        return self.inorder(self.child(n, 'l'), depth + 1) + [n] + self.inorder(self.child(n, 'r'), depth + 1)

    def members(self, n, out=None, depth=0):
        out = [] if out is None else out
        if n is None or isinstance(n, tuple) or n == '?' or depth > 40 or n in out:
            return out
        out.append(n)
        if not self.is_summary(n) and n in self.frag.nodes:
            self.members(self.child(n, 'l'), out, depth + 1)
            self.members(self.child(n, 'r'), out, depth + 1)
        return out

    def link_problems(self, top, above):
        """child -> parent agreement below `top`; `above` is the expected parent of top (node name or None)"""
        probs = []
        exp = {top: above}
        for n in self.members(top):
            if not self.is_summary(n) and n in self.frag.nodes:
                for side in ('l', 'r'):
                    c = self.child(n, side)
                    if isinstance(c, tuple) or c == '?':
                        probs.append('%s.%s is %s' % (n, 'left' if side == 'l' else 'right', c))
                    elif c is not None:
                        if c in exp:
                            probs.append('%s is reachable twice (also as %s.%s)' % (c, n, side))
                        exp[c] = n
        for n, want in exp.items():
            p, tag = self.parent(n)
            if p != want:
                probs.append('parent(%s) is %s but it is the child of %s' % (n, p, want))
        LINK_LOG.append((len(exp), list(probs)))
        return probs


LINK_LOG = []   # (nodes examined, problems) per link_problems() call; read by C03 rule I0


def height_cmp(a, b):
    """compare two integer terms that differ by a constant; returns a - b as int or None"""
    d = sp.expand(sp.sympify(a) - sp.sympify(b))
    if d.is_Integer:
        return int(d)
    return None


def hmax(a, b):
    d = height_cmp(a, b)
    if d is None:
        raise Unsupported('heights %s and %s are not comparable' % (a, b))
    return a if d >= 0 else b
