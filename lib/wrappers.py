"""the byte-block helpers of src/a.c are the libc routines they stand for (argument order, overlap-safe move), and the default
allocator follows its protocol - the summaries used by the container analyses (lin.LinDom.call, C07) rest on this."""
import sympy as sp
import symx, alg, llir
from symx import Ptr, NULL, Unsupported


class WDom(alg.Alg):
    def __init__(self):
        alg.Alg.__init__(self)
        self.n = 0

    def nonnull(self, base):
        return base not in ('addr',)

    def null_test(self, pred, p):
        return alg.Cond('icmp', pred, self.sym('&' + p.base, integer=True, nonnegative=True), 0)

    def opaque_call(self, name, args, ins, interp, st):
        self.n += 1
        if ins.ty is not None and ins.ty.is_ptr:
            return Ptr('ret_%s_%d' % (name, self.n), 0)
        return None

    def call(self, name, args, ins, interp, st, fn):
        if name in ('memcpy', 'memmove', 'memset', 'malloc', 'realloc', 'free') or name.startswith('llvm.mem'):
            return NotImplemented
        return alg.Alg.call(self, name, args, ins, interp, st, fn)


EXPECT = {
    'a_copy': ('memcpy', lambda a: [a[0], a[1], a[2]]),
    'a_move': ('memmove', lambda a: [a[0], a[1], a[2]]),
    'a_fill': ('memset', lambda a: [a[0], a[2], a[1]]),
    'a_zero': ('memset', lambda a: [a[0], 0, a[1]]),
}


def same(x, y):
    if isinstance(x, Ptr) or isinstance(y, Ptr):
        return isinstance(x, Ptr) and isinstance(y, Ptr) and x == y
    try:
        return sp.expand(sp.sympify(x) - sp.sympify(y)) == 0
    except Exception:
        return False


def check(ctx, rep, rule):
    m = ctx.module('a')
    for name, (libc, argmap) in EXPECT.items():
        fn = m.functions.get(name)
        if fn is None or fn.error:
            rep.unk(rule, name, 'anchor vanished')
            continue
        rep.functions.add(name)
        dom = WDom()
        args = []
        for k, (t, pn) in enumerate(fn.params):
            args.append(Ptr('p%d' % k, 0) if t.is_ptr else dom.sym('n%d' % k, integer=True, nonnegative=True))
        try:
            lv = symx.Interp(dom, lambda n: None).run(fn, args)
        except Unsupported as e:
            rep.unk(rule, name, str(e))
            continue
        probs = []
        if len(lv) != 1:
            probs.append('%d paths' % len(lv))
        for lf in lv:
            calls = [c for c in lf.calls if isinstance(c, tuple)]
            names = [c[0].split('.')[1] if c[0].startswith('llvm.') else c[0] for c in calls]
            if len(calls) != 1 or names[0] != libc:
                probs.append('calls %s, expected one call of %s' % (names, libc))
                continue
            got = calls[0][1][:3]
            want = argmap(args)
            for k, (g, w) in enumerate(zip(got, want)):
                if not same(g, w):
                    probs.append('argument %d of %s is %s, expected %s' % (k + 1, libc, g, w))
        if probs:
            rep.bad(rule, name, '; '.join(probs[:2]), loc=fn.loc(fn.entry.instrs[0]), key='%s: libc binding' % name)
        else:
            rep.ok(rule, name, '= %s with the arguments in the right order' % libc, loc=fn.loc(fn.entry.instrs[0]))
