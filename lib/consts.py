"""M0 - mathematical constant table of include/a/math.h (shared by C10, C11, C16).
Each literal is compared with its closed form (specs/constants.json) by 50-digit interval evaluation - a constant
comparison, nothing is executed.  table() maps the double/float value of every *correct* literal to its closed form so
that ALG reads A_REAL_PI as pi and not as a 53-bit rational."""
import json, os, re, struct
import sympy as sp
import mpmath
import irx

SPEC = json.load(open(os.path.join(os.path.dirname(__file__), '..', 'specs', 'constants.json')))


def to_f32(x):
    return struct.unpack('f', struct.pack('f', x))[0]


def check(scr, cfg):
    """-> (results [(name, ok, literal, closed_form_text, detail)], table {float: sympy expr})"""
    mac = irx.macros(scr, cfg, 'a/math.h')
    res = []
    table = {}
    mpmath.mp.dps = 50
    for name, sp_ in SPEC['constants'].items():
        if name not in mac:
            res.append((name, None, None, sp_['value'], 'macro vanished'))
            continue
        lit = mac[name][1].strip()
        m = re.fullmatch(r'([0-9.eE+-]+)[fFlL]?', lit)
        if not m:
            res.append((name, None, lit, sp_['value'], 'not a plain literal'))
            continue
        expr = sp.sympify(sp_['value'])
        exact = mpmath.mpf(str(sp.N(expr, 50)))
        got = mpmath.mpf(m.group(1))
        rel = abs(got - exact) / abs(exact)
        # behaviour is fixed by the value the literal rounds to in the real type (double here; float derives from it):
        # the literal is right iff it rounds to the same double as the closed form
        ok = float(got) == float(exact)
        res.append((name, bool(ok), lit, sp_['value'], 'relative difference %s' % mpmath.nstr(rel, 3)))
        if ok:
            d = float(m.group(1))
            table[d] = expr
            table[to_f32(d)] = expr
            table[-d] = -expr
            table[-to_f32(d)] = -expr
    return res, table
