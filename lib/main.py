"""runner: ./check <id> --tier quick|thorough  (DESIGN 2.6, appendix D)"""
import sys, os, argparse, importlib, traceback, json
HERE = os.path.dirname(os.path.abspath(__file__))
sys.path.insert(0, HERE)
sys.path.insert(0, os.path.dirname(HERE))
import irx, llir, report


class Ctx:
    def __init__(self, pid, tier, scr, rep):
        self.pid, self.tier, self.scr, self.rep = pid, tier, scr, rep
        self._mods = {}
        self._cfg = {}

    def cfg(self, have='all', real=8):
        k = (have if isinstance(have, str) else tuple(sorted(have)), real)
        if k not in self._cfg:
            self._cfg[k] = irx.gen_config(self.scr, have, real)
        return self._cfg[k]

    def module(self, unit, have='all', real=8, passes=None, extra=()):
        """parsed IR of a unit ('vec', ..., 'hdr_unit') under a configuration"""
        passes = passes or irx.PASSES
        k = (unit, have if isinstance(have, str) else tuple(sorted(have)), real, passes, tuple(extra))
        if k in self._mods:
            return self._mods[k]
        cfg = self.cfg(have, real)
        tag = '%s%d%s' % (have if isinstance(have, str) else 'mix', real, '' if passes == irx.PASSES else 'x%d' % (hash(passes) % 997))
        if extra:
            tag += 'e%d' % (hash(tuple(extra)) % 997)
        if unit == 'hdr_unit':
            src = irx.header_unit(self.scr)
            ll = irx.compile_ir(self.scr, src, cfg, tag, passes, list(irx.HDR_EXTRA) + list(extra))
        else:
            src = os.path.join(irx.REPO, 'src', unit + '.c')
            if not os.path.exists(src):
                raise irx.ToolError('unit %s.c vanished' % unit)
            ll = irx.compile_ir(self.scr, src, cfg, tag, passes, extra)
        m = llir.parse_module(ll)
        m.unit = unit
        self._mods[k] = m
        self.rep.units.add(unit + '@' + tag)
        return m

    def fn(self, unit, name, **kw):
        m = self.module(unit, **kw)
        f = m.functions.get(name)
        if f is None:
            return None
        self.rep.functions.add(name)
        return f


def main():
    import signal
    signal.signal(signal.SIGPIPE, signal.SIG_DFL)   # `./check ... | head` must not end in a traceback
    ap = argparse.ArgumentParser()
    ap.add_argument('pid')
    ap.add_argument('--tier', default=os.environ.get('VERIF_TIER', 'quick'))
    ap.add_argument('--explain')
    a = ap.parse_args()
    if a.tier not in ('quick', 'thorough'):
        a.tier = 'quick'
    os.chdir(os.path.dirname(HERE))
    mod = importlib.import_module('props.' + a.pid)
    rep = report.Report(a.pid, a.tier, getattr(mod, 'LEVEL', 'other'))
    rc = 2
    with irx.Scratch() as scr:
        ctx = Ctx(a.pid, a.tier, scr, rep)
        try:
            mod.run(ctx)
        except (irx.ToolError, llir.ParseError) as e:
            rep.unk('TOOL', '-', 'front end failed: %s' % str(e)[:1500])
        except Exception as e:
            traceback.print_exc()
            rep.unk('ENGINE', '-', 'engine error: %r' % (e,))
        rep.cmds = scr.cmds[:6]
        rc = rep.finish()
    sys.exit(rc)


if __name__ == '__main__':
    main()
