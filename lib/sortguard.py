"""rule "sorted placement is never bypassed while there is something to compare with" (C04 B6, C05 Q7).

In the sort / sorted-insert routines every path that reaches the exit without calling the comparison callback must have
passed a branch edge whose condition confines the element count to at most one (nothing to compare with) or a failed
allocation; a count guard that lets two or more elements through unsorted is reported with the count for which it does."""
import llir


def cmp_calls(f):
    """indirect calls through a function-pointer parameter"""
    fps = set(pn for pt, pn in f.params if pt.is_ptr and pt.a is not None and pt.a.k == 'fn')
    out = []
    for i in f.instrs():
        if i.op == 'call':
            c = i.x.get('callee')
            if c is not None and c.k == 'reg' and c.v in fps:
                out.append(i)
    return out


def reaches(f, start, targets, avoid_edge=None):
    seen = set()
    st = [start]
    while st:
        b = st.pop()
        if b in seen:
            continue
        seen.add(b)
        if b in targets:
            return True
        st.extend(b.succs)
    return False


def count_load(f, v, ctxn, numidx):
    """value = load of the count field of the container parameter (possibly through casts)"""
    if v.k != 'reg':
        return False
    d = f.defs.get(v.v)
    if d is None:
        return False
    if d.op in ('zext', 'trunc', 'bitcast'):
        return count_load(f, d.ops[0], ctxn, numidx)
    if d.op != 'load' or d.ops[0].k != 'reg':
        return False
    g = f.defs.get(d.ops[0].v)
    if g is None or g.op != 'gep' or g.ops[0].k != 'reg' or len(g.ops) != 3 or g.ops[2].k != 'int' or g.ops[2].v != numidx:
        return False
    base = g.ops[0]
    for _ in range(4):
        if base.v == ctxn:
            return True
        bd = f.defs.get(base.v)
        if bd is None or bd.op != 'bitcast' or bd.ops[0].k != 'reg':
            return False
        base = bd.ops[0]
    return False


PRED = {'ugt': lambda a, b: a > b, 'uge': lambda a, b: a >= b, 'ult': lambda a, b: a < b, 'ule': lambda a, b: a <= b,
        'eq': lambda a, b: a == b, 'ne': lambda a, b: a != b, 'sgt': lambda a, b: a > b, 'sge': lambda a, b: a >= b,
        'slt': lambda a, b: a < b, 'sle': lambda a, b: a <= b}


def check(rep, rule, f, numidx, limit, what):
    """limit: largest count for which skipping every comparison is right"""
    calls = cmp_calls(f)
    if not calls:
        rep.unk(rule, f.name, 'no comparison callback call found')
        return
    cblocks = set(c.block for c in calls)
    ctxn = f.params[0][1]
    probs = []
    nby = 0
    for b in f.blocks:
        t = b.term
        if t.op != 'br' or len(t.x['labels']) != 2 or t.ops[0].k != 'reg':
            continue
        if not reaches(f, b, cblocks) or b in cblocks:
            continue
        # only branches that are not behind a comparison already
        if any(reaches(f, cb, {b}) for cb in cblocks):
            continue
        for k, lab in enumerate(t.x['labels']):
            s = f.bmap[lab]
            if reaches(f, s, cblocks):
                continue
            nby += 1
            d = f.defs.get(t.ops[0].v)
            taken_when = (k == 0)
            # look through logical negations
            while d is not None and d.op == 'xor' and d.ops[1].k == 'int' and d.ops[0].k == 'reg':
                taken_when = not taken_when
                d = f.defs.get(d.ops[0].v)
            if d is None or d.op != 'icmp':
                probs.append('bypass at %s on a condition that is not a comparison' % f.loc(t))
                continue
            x, y = d.ops
            if x.ty is not None and x.ty.is_ptr or (y.k == 'null'):
                continue      # failed allocation / missing callback: nothing is placed at all
            if count_load(f, x, ctxn, numidx) and y.k == 'int':
                fnc = lambda n: PRED[d.x['pred']](n, y.v)
            elif count_load(f, y, ctxn, numidx) and x.k == 'int':
                fnc = lambda n: PRED[d.x['pred']](x.v, n)
            else:
                probs.append('the comparisons are skipped at %s on a condition that does not confine the element count' % f.loc(t))
                continue
            badn = [n for n in range(0, 6) if fnc(n) == taken_when and n > limit]
            if badn:
                probs.append('the comparisons are skipped at %s also when the count is %d: %s' % (f.loc(t), badn[0], what))
    if probs:
        rep.bad(rule, f.name, '; '.join(probs[:2]), loc=f.loc(calls[0]), key='%s: comparison bypass' % f.name)
    else:
        rep.ok(rule, f.name, '%d bypass edge(s): comparisons are skipped only with at most %d element(s) or after a failed allocation' % (nby, limit),
               loc=f.loc(calls[0]))
