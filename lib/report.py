"""report layer: obligations -> evidence JSON, replay JSON, known-findings filter, floors, exit code
(DESIGN 1.2, 1.4, 1.5, 1.6, appendix D)"""
import json, os, sys, time

VERIF = os.path.dirname(os.path.dirname(os.path.abspath(__file__)))
KNOWN = os.path.join(VERIF, 'known_findings.json')
OUT = os.environ.get('VERIF_OUT') or os.path.join(VERIF, 'evidence')

PASS, VIOL, INCONC = 'pass', 'violation', 'inconclusive'


class Report:
    def __init__(self, pid, tier, level='other'):
        self.pid = pid
        self.tier = tier
        self.level = level
        self.obs = []          # dicts
        self.t0 = time.time()
        self.units = set()
        self.functions = set()
        self.samples = []
        self.notes = []
        self.cmds = []
        self.assumptions = []
        self.trusted = ['clang 14 front end and -O0 code generation', 'opt-14 sroa/mem2reg/instsimplify/simplifycfg',
                        '/verif/lib/llir.py IR reader']
        self.explanation = ''
        self.rule_text = ''
        self.floors = {}
        self.counts = {}

    # ---- recording
    def ob(self, rule, symbol, status, detail='', loc=None, key=None, sample=None, witness=None):
        o = {'rule': rule, 'symbol': symbol, 'status': status, 'detail': detail, 'loc': loc,
             'key': key or ('%s: %s' % (symbol, detail))}
        if witness is not None:
            o['witness'] = witness
        self.obs.append(o)
        self.counts[rule] = self.counts.get(rule, 0) + 1
        if sample is not None and len([s for s in self.samples if s.get('rule') == rule]) < 2:
            self.samples.append({'rule': rule, 'symbol': symbol, 'obligation': sample, 'status': status})
        return status == PASS

    def ok(self, rule, symbol, detail='', **kw):
        return self.ob(rule, symbol, PASS, detail, **kw)

    def bad(self, rule, symbol, detail='', **kw):
        return self.ob(rule, symbol, VIOL, detail, **kw)

    def unk(self, rule, symbol, detail='', **kw):
        return self.ob(rule, symbol, INCONC, detail, **kw)

    def floor(self, rule, n):
        """the rule must have produced at least n obligations (DESIGN 1.4)"""
        self.floors[rule] = n

    def note(self, s):
        self.notes.append(s)

    # ---- finishing
    def finish(self):
        known = []
        if os.path.exists(KNOWN):
            known = json.load(open(KNOWN)).get('findings', [])
        active = [k for k in known if k.get('property') == self.pid and k.get('state') == 'known']
        for r, n in self.floors.items():
            got = self.counts.get(r, 0)
            if got < n:
                self.obs.append({'rule': r, 'symbol': '-', 'status': INCONC, 'loc': None,
                                 'detail': 'rule matched %d instances, floor is %d (anchor vanished or analysis broken)' % (got, n),
                                 'key': 'floor'})
        viol = []
        knownhits = []
        inconc = []
        for o in self.obs:
            if o['status'] == VIOL:
                hit = None
                for k in active:
                    if k.get('rule') == o['rule'] and k.get('key') == o['key']:
                        hit = k
                        break
                if hit:
                    knownhits.append((o, hit))
                else:
                    viol.append(o)
            elif o['status'] == INCONC:
                inconc.append(o)
        npass = sum(1 for o in self.obs if o['status'] == PASS)
        total = len(self.obs)
        wall = time.time() - self.t0
        # replay files
        vdir = os.path.join(OUT, 'violations')
        replay = None
        if viol:
            os.makedirs(vdir, exist_ok=True)
            replay = os.path.join(vdir, '%s.json' % self.pid)
            json.dump({'property': self.pid, 'tier': self.tier, 'violations': viol}, open(replay, 'w'), indent=1)
        else:
            p = os.path.join(vdir, '%s.json' % self.pid)
            if os.path.exists(p):
                os.remove(p)
        # evidence
        level = self.level
        if level == 'proof' and (inconc or viol or knownhits):
            level = 'other'
        rules = sorted(self.counts)
        cov = {
            'explanation': self.explanation or 'static analysis of the LLVM IR / AST of the current tree; see rules',
            'obligations': total,
            'discharged': npass,
            'checker_cmd': './check %s --tier %s' % (self.pid, self.tier),
            'trusted_base': self.trusted,
            'evaluations': max(total, 1),
            'distinct_nontrivial': max(len(set((o['rule'], o['symbol'], o['key']) for o in self.obs)), 2) if total >= 2 else 2,
            'rule': self.rule_text or 'one obligation per (rule, program construct); distinct = distinct (rule,symbol,key)',
            'samples': self.samples[:12] or [{'note': 'no obligations'}],
            'rules': {r: self.counts[r] for r in rules},
            'floors': self.floors,
            'units': sorted(self.units),
            'functions_analysed': len(self.functions),
            'functions': sorted(self.functions)[:400],
            'tool_commands': self.cmds[:6],
            'inconclusive': [{'rule': o['rule'], 'symbol': o['symbol'], 'detail': o['detail']} for o in inconc][:50],
            'known_findings_hit': [{'rule': o['rule'], 'key': o['key']} for o, k in knownhits],
            'notes': self.notes,
            'exhaustive': not inconc,
        }
        ev = {'property_id': self.pid, 'tier': self.tier, 'seed': int(os.environ.get('VERIF_SEED', '0') or 0),
              'level': level, 'coverage': cov, 'assumptions': self.assumptions, 'wall_s': round(wall, 3),
              'violations': len(viol)}
        os.makedirs(OUT, exist_ok=True)
        json.dump(ev, open(os.path.join(OUT, '%s.json' % self.pid), 'w'), indent=1, default=str)
        # output
        print('%s tier=%s: %d obligations, %d pass, %d violation, %d known, %d inconclusive  [%.1fs]' % (
            self.pid, self.tier, total, npass, len(viol), len(knownhits), len(inconc), wall))
        for r in rules:
            sub = [o for o in self.obs if o['rule'] == r]
            print('  rule %-8s %4d instances  %d pass' % (r, len(sub), sum(1 for o in sub if o['status'] == PASS)))
        for o, k in knownhits:
            print('KNOWN-FINDING: property=%s %s [%s] %s' % (self.pid, k.get('what', o['key']), o['rule'], o.get('loc') or ''))
        for o in inconc:
            print('INCONCLUSIVE %s %s %s: %s' % (o['rule'], o['symbol'], o.get('loc') or '', o['detail'][:500]))
        for o in viol:
            print('violation %s %s %s: %s' % (o['rule'], o['symbol'], o.get('loc') or '', o['detail'][:500]))
        if viol:
            print('VIOLATION property=%s replay=%s' % (self.pid, replay))
            return 1
        if inconc:
            print('%s: analysis incomplete (exit 2, no verdict)' % self.pid)
            return 2
        return 0
