"""fork-based fan-out of independent per-function analyses (the sandbox has 16 cores): each worker records into a private
Report whose obligations, notes, samples and function names are merged back in submission order."""
import multiprocessing, os, traceback
import report as _report

_JOB = {}


def _run(key):
    rep = _JOB['rep']
    sub = _report.Report(rep.pid, rep.tier, rep.level)
    try:
        _JOB['fn'](key, sub)
    except Exception as e:
        traceback.print_exc()
        sub.unk('ENGINE', str(key), 'engine error: %r' % (e,))
    return key, sub.obs, sub.notes, sub.samples, sorted(sub.functions), dict(sub.counts)


def fan_out(rep, keys, fn, procs=None):
    """fn(key, report) for every key; results merged into rep"""
    keys = list(keys)
    procs = procs or min(16, os.cpu_count() or 1)
    if procs <= 1 or len(keys) <= 1 or os.environ.get('VERIF_SERIAL'):
        for k in keys:
            fn(k, rep)
        return
    _JOB['rep'], _JOB['fn'] = rep, fn
    ctx = multiprocessing.get_context('fork')
    with ctx.Pool(procs) as pool:
        results = pool.map(_run, keys, chunksize=1)
    for key, obs, notes, samples, fns, counts in results:
        rep.obs.extend(obs)
        rep.notes.extend(notes)
        for s in samples:
            if len([x for x in rep.samples if x.get('rule') == s.get('rule')]) < 2:
                rep.samples.append(s)
        rep.functions.update(fns)
        for r, n in counts.items():
            rep.counts[r] = rep.counts.get(r, 0) + n
