"""llir - reader for the textual LLVM-14 IR subset clang emits for liba's C (DESIGN 2.3).

Builds: module {structs, globals, functions{blocks{instrs}}}, CFG, dominators,
post-dominators, natural loops, def-use, debug line table.  Unknown constructs raise
ParseError for the function (callers treat that as INCONCLUSIVE, never as PASS).
"""
import re, struct
from fractions import Fraction


class ParseError(Exception):
    pass


# ------------------------------------------------------------------ types
class Ty:
    __slots__ = ('k', 'a', 'b')

    def __init__(self, k, a=None, b=None):
        self.k = k  # 'int','float','double','void','ptr','struct','array','lit','fn','label','meta','x86_fp80'
        self.a = a
        self.b = b

    def __eq__(self, o):
        return isinstance(o, Ty) and self.k == o.k and self.a == o.a and self.b == o.b

    def __hash__(self):
        return hash((self.k, self.a if not isinstance(self.a, list) else tuple(self.a), self.b if not isinstance(self.b, list) else tuple(self.b)))

    def __repr__(self):
        k = self.k
        if k == 'int':
            return 'i%d' % self.a
        if k in ('float', 'double', 'void', 'label', 'meta', 'x86_fp80', 'opaque'):
            return k
        if k == 'ptr':
            return '%r*' % (self.a,)
        if k == 'struct':
            return '%' + self.a
        if k == 'array':
            return '[%d x %r]' % (self.a, self.b)
        if k == 'vec':
            return '<%d x %r>' % (self.a, self.b)
        if k == 'lit':
            return '{ ' + ', '.join(map(repr, self.a)) + ' }'
        if k == 'fn':
            return '%r (%s)' % (self.a, ', '.join(map(repr, self.b)))
        return k

    @property
    def is_ptr(self):
        return self.k == 'ptr'

    @property
    def is_int(self):
        return self.k == 'int'

    @property
    def is_fp(self):
        return self.k in ('float', 'double')


def I(n):
    return Ty('int', n)


VOID = Ty('void')
DOUBLE = Ty('double')
FLOAT = Ty('float')

# ------------------------------------------------------------------ tokens
TOK = re.compile(r'''
    (?P<ws>\s+)
  | (?P<str>c?"(?:[^"\\]|\\.)*")
  | (?P<local>%(?:[A-Za-z$._][A-Za-z$._0-9-]*|\d+|"(?:[^"\\]|\\.)*"))
  | (?P<glob>@(?:[A-Za-z$._][A-Za-z$._0-9-]*|\d+|"(?:[^"\\]|\\.)*"))
  | (?P<meta>![A-Za-z$._0-9-]*)
  | (?P<attr>\#\d+)
  | (?P<hex>0x[KLMHR]?[0-9A-Fa-f]+)
  | (?P<num>-?\d+\.\d*(?:[eE][+-]?\d+)?|-?\d+)
  | (?P<dots>\.\.\.)
  | (?P<id>[A-Za-z_][A-Za-z0-9_.]*)
  | (?P<p>[,()\[\]{}<>*=:|])
''', re.X)


def tokenize(s):
    out = []
    pos = 0
    n = len(s)
    while pos < n:
        if s[pos] == ';':
            break
        m = TOK.match(s, pos)
        if not m:
            raise ParseError('cannot tokenize: %r' % s[pos:pos + 40])
        pos = m.end()
        k = m.lastgroup
        if k == 'ws':
            continue
        out.append((k, m.group(k)))
    return out


class Val:
    """operand: kind in reg|int|fp|null|undef|global|cexpr|zero|agg|meta|label"""
    __slots__ = ('k', 'v', 'ty', 'args')

    def __init__(self, k, v=None, ty=None, args=None):
        self.k = k
        self.v = v
        self.ty = ty
        self.args = args

    def __repr__(self):
        if self.k == 'reg':
            return '%' + self.v
        if self.k == 'global':
            return '@' + self.v
        if self.k == 'cexpr':
            return '%s(%s)' % (self.v, ', '.join(map(repr, self.args)))
        if self.k in ('int', 'fp'):
            return repr(self.v)
        return self.k

    def key(self):
        if self.k == 'cexpr':
            return (self.k, self.v, tuple(a.key() for a in self.args))
        if self.k == 'agg':
            return (self.k, tuple(a.key() for a in self.args))
        return (self.k, self.v)

    def __eq__(self, o):
        return isinstance(o, Val) and self.key() == o.key()

    def __hash__(self):
        return hash(self.key())


def fp_from_hex(h, ty):
    if h[2] in 'KLMHR':
        raise ParseError('long double constant')
    bits = int(h, 16)
    return struct.unpack('>d', struct.pack('>Q', bits))[0]


class P:
    """token stream parser"""

    def __init__(self, toks):
        self.t = toks
        self.i = 0

    def peek(self, o=0):
        return self.t[self.i + o] if self.i + o < len(self.t) else (None, None)

    def next(self):
        t = self.peek()
        self.i += 1
        return t

    def accept(self, v):
        if self.peek()[1] == v:
            self.i += 1
            return True
        return False

    def expect(self, v):
        t = self.next()
        if t[1] != v:
            raise ParseError('expected %r got %r in %r' % (v, t[1], ' '.join(x[1] for x in self.t)[:200]))

    def done(self):
        return self.i >= len(self.t)

    # ---- types
    def type(self):
        k, v = self.next()
        if k == 'id':
            if re.fullmatch(r'i\d+', v):
                t = I(int(v[1:]))
            elif v in ('float', 'double', 'void', 'label', 'x86_fp80', 'opaque'):
                t = Ty(v)
            elif v == 'metadata':
                t = Ty('meta')
            else:
                raise ParseError('unknown type %r' % v)
        elif k == 'local':
            t = Ty('struct', unq(v[1:]))
        elif v == '[':
            n = int(self.next()[1])
            self.expect_id('x')
            e = self.type()
            self.expect(']')
            t = Ty('array', n, e)
        elif v == '{':
            el = []
            if not self.accept('}'):
                while True:
                    el.append(self.type())
                    if self.accept('}'):
                        break
                    self.expect(',')
            t = Ty('lit', tuple(el))
        elif v == '<':
            if self.peek()[1] == '{':
                self.next()
                el = []
                if not self.accept('}'):
                    while True:
                        el.append(self.type())
                        if self.accept('}'):
                            break
                        self.expect(',')
                self.expect('>')
                t = Ty('lit', tuple(el), 'packed')
            else:
                n = int(self.next()[1])
                self.expect_id('x')
                e = self.type()
                self.expect('>')
                t = Ty('vec', n, e)
        else:
            raise ParseError('bad type start %r' % v)
        while True:
            if self.accept('*'):
                t = Ty('ptr', t)
            elif self.peek()[1] == '(':
                self.next()
                ps = []
                if not self.accept(')'):
                    while True:
                        if self.peek()[0] == 'dots':
                            self.next()
                            ps.append(Ty('vararg'))
                        else:
                            ps.append(self.type())
                        if self.accept(')'):
                            break
                        self.expect(',')
                t = Ty('fn', t, tuple(ps))
            else:
                break
        return t

    def expect_id(self, v):
        t = self.next()
        if t[1] != v:
            raise ParseError('expected %r' % v)

    # ---- values
    CASTS = ('bitcast', 'inttoptr', 'ptrtoint', 'trunc', 'zext', 'sext', 'addrspacecast', 'fptrunc', 'fpext',
             'sitofp', 'uitofp', 'fptosi', 'fptoui')

    def value(self, ty):
        k, v = self.next()
        if k == 'local':
            return Val('reg', unq(v[1:]), ty)
        if k == 'glob':
            return Val('global', unq(v[1:]), ty)
        if k == 'num':
            if ty is not None and ty.is_fp:
                return Val('fp', float(v), ty)
            if '.' in v or 'e' in v.lower():
                return Val('fp', float(v), ty)
            return Val('int', int(v), ty)
        if k == 'hex':
            return Val('fp', fp_from_hex(v, ty), ty)
        if k == 'meta':
            # metadata node reference or inline !DIExpression(...)
            if self.peek()[1] == '(':
                depth = 0
                while True:
                    t = self.next()
                    if t[1] == '(':
                        depth += 1
                    elif t[1] == ')':
                        depth -= 1
                        if depth == 0:
                            break
                return Val('meta', v, ty)
            return Val('meta', v, ty)
        if k == 'id':
            if v == 'null':
                return Val('null', 0, ty)
            if v in ('undef', 'poison'):
                return Val('undef', None, ty)
            if v == 'zeroinitializer':
                return Val('zero', 0, ty)
            if v == 'true':
                return Val('int', 1, ty)
            if v == 'false':
                return Val('int', 0, ty)
            if v == 'getelementptr':
                self.accept('inbounds')
                self.expect('(')
                bt = self.type()
                self.expect(',')
                args = [self.tvalue()]
                while self.accept(','):
                    self.accept('inrange')
                    args.append(self.tvalue())
                self.expect(')')
                return Val('cexpr', 'getelementptr', ty, [Val('type', bt)] + args)
            if v in self.CASTS:
                self.expect('(')
                a = self.tvalue()
                self.expect_id('to')
                t2 = self.type()
                self.expect(')')
                return Val('cexpr', v, t2, [a])
            if v in ('add', 'sub', 'mul', 'and', 'or', 'xor', 'shl', 'lshr', 'ashr', 'icmp', 'select'):
                raise ParseError('constant expr %s' % v)
            if v == 'metadata':
                t = self.type_or_none()
                return self.value(t) if t is not None else self.value(None)
        if k == 'str':
            return Val('str', v, ty)
        if v == '[' or v == '{' or v == '<':
            close = {'[': ']', '{': '}', '<': '>'}[v]
            if v == '<' and self.peek()[1] == '{':
                self.next()
                els = self._agg_elems('}')
                self.expect('>')
                return Val('agg', None, ty, els)
            els = self._agg_elems(close)
            return Val('agg', None, ty, els)
        raise ParseError('bad value %r' % (v,))

    def _agg_elems(self, close):
        els = []
        if self.accept(close):
            return els
        while True:
            els.append(self.tvalue())
            if self.accept(close):
                break
            self.expect(',')
        return els

    def type_or_none(self):
        k, v = self.peek()
        if k == 'meta':
            return None
        return self.type()

    def tvalue(self):
        t = self.type()
        # parameter attributes in call args
        self.skip_attrs()
        return self.value(t)

    ATTRS = {'noundef', 'nonnull', 'signext', 'zeroext', 'inreg', 'noalias', 'nocapture', 'readonly', 'readnone',
             'writeonly', 'returned', 'immarg', 'nofree', 'nest', 'swiftself', 'noinline', 'nounwind', 'inbounds',
             'nsw', 'nuw', 'exact', 'tail', 'musttail', 'notail', 'fast', 'nnan', 'ninf', 'nsz', 'arcp', 'contract',
             'afn', 'reassoc', 'dso_local', 'internal', 'private', 'external', 'hidden', 'protected', 'default',
             'local_unnamed_addr', 'unnamed_addr', 'volatile', 'common', 'weak', 'linkonce_odr', 'available_externally',
             'dso_preemptable', 'fastcc', 'ccc', 'willreturn', 'mustprogress', 'noreturn'}

    def skip_attrs(self):
        while True:
            k, v = self.peek()
            if k == 'id' and v in self.ATTRS:
                self.next()
            elif k == 'id' and v in ('align', 'dereferenceable', 'dereferenceable_or_null'):
                self.next()
                if self.accept('('):
                    self.next()
                    self.expect(')')
                else:
                    self.next()
            elif k == 'id' and v in ('byval', 'sret', 'elementtype', 'byref', 'preallocated', 'inalloca'):
                self.next()
                if self.accept('('):
                    self.type()
                    self.expect(')')
            elif k == 'attr':
                self.next()
            else:
                break


def unq(s):
    if s.startswith('"'):
        return s[1:-1]
    return s


# ------------------------------------------------------------------ instructions
class Instr:
    __slots__ = ('op', 'res', 'ty', 'ops', 'x', 'dbg', 'block', 'idx', 'text')

    def __init__(self, op, res=None, ty=None, ops=None, x=None):
        self.op = op      # opcode
        self.res = res    # result register name or None
        self.ty = ty      # result type
        self.ops = ops or []  # list of Val
        self.x = x or {}  # extras: pred, labels, flags, indices, callee...
        self.dbg = None

    def __repr__(self):
        return ('%%%s = ' % self.res if self.res else '') + self.op + ' ' + ', '.join(map(repr, self.ops)) + (' ' + repr(self.x) if self.x else '')


BINOPS = {'add', 'sub', 'mul', 'udiv', 'sdiv', 'urem', 'srem', 'and', 'or', 'xor', 'shl', 'lshr', 'ashr',
          'fadd', 'fsub', 'fmul', 'fdiv', 'frem'}
CASTOPS = set(P.CASTS)


def parse_instr(line):
    toks = tokenize(line)
    p = P(toks)
    res = None
    if p.peek()[0] == 'local' and p.peek(1)[1] == '=':
        res = unq(p.next()[1][1:])
        p.next()
    # call prefixes
    while p.peek()[1] in ('tail', 'musttail', 'notail'):
        p.next()
    k, op = p.next()
    ins = None
    if op in BINOPS:
        flags = []
        while p.peek()[1] in ('nsw', 'nuw', 'exact', 'fast', 'nnan', 'ninf', 'nsz', 'arcp', 'contract', 'afn', 'reassoc'):
            flags.append(p.next()[1])
        t = p.type()
        a = p.value(t)
        p.expect(',')
        b = p.value(t)
        ins = Instr(op, res, t, [a, b], {'flags': flags})
    elif op == 'fneg':
        while p.peek()[1] in ('fast', 'nnan', 'ninf', 'nsz', 'arcp', 'contract', 'afn', 'reassoc'):
            p.next()
        t = p.type()
        a = p.value(t)
        ins = Instr(op, res, t, [a])
    elif op in ('icmp', 'fcmp'):
        while p.peek()[1] in ('fast', 'nnan', 'ninf', 'nsz', 'arcp', 'contract', 'afn', 'reassoc'):
            p.next()
        pred = p.next()[1]
        t = p.type()
        a = p.value(t)
        p.expect(',')
        b = p.value(t)
        ins = Instr(op, res, I(1), [a, b], {'pred': pred, 'oty': t})
    elif op == 'load':
        p.accept('volatile')
        t = p.type()
        p.expect(',')
        ptr = p.tvalue()
        ins = Instr(op, res, t, [ptr])
    elif op == 'store':
        p.accept('volatile')
        v = p.tvalue()
        p.expect(',')
        ptr = p.tvalue()
        ins = Instr(op, None, VOID, [v, ptr])
    elif op == 'getelementptr':
        inb = p.accept('inbounds')
        bt = p.type()
        p.expect(',')
        base = p.tvalue()
        idx = []
        while p.accept(','):
            if p.peek()[0] == 'meta':
                p.i -= 1
                break
            idx.append(p.tvalue())
        ins = Instr('gep', res, None, [base] + idx, {'bt': bt, 'inbounds': inb})
        ins.ty = Ty('ptr', gep_result_type(bt, idx))
    elif op in CASTOPS:
        a = p.tvalue()
        p.expect_id('to')
        t2 = p.type()
        ins = Instr(op, res, t2, [a])
    elif op == 'phi':
        while p.peek()[1] in ('fast', 'nnan', 'ninf', 'nsz', 'arcp', 'contract', 'afn', 'reassoc'):
            p.next()
        t = p.type()
        inc = []
        labels = []
        while True:
            p.expect('[')
            v = p.value(t)
            p.expect(',')
            l = unq(p.next()[1][1:])
            p.expect(']')
            inc.append(v)
            labels.append(l)
            if not p.accept(','):
                break
            if p.peek()[0] == 'meta':
                p.i -= 1
                break
        ins = Instr(op, res, t, inc, {'labels': labels})
    elif op == 'select':
        while p.peek()[1] in ('fast', 'nnan', 'ninf', 'nsz', 'arcp', 'contract', 'afn', 'reassoc'):
            p.next()
        c = p.tvalue()
        p.expect(',')
        a = p.tvalue()
        p.expect(',')
        b = p.tvalue()
        ins = Instr(op, res, a.ty, [c, a, b])
    elif op == 'call':
        while p.peek()[1] in ('fast', 'nnan', 'ninf', 'nsz', 'arcp', 'contract', 'afn', 'reassoc'):
            p.next()
        p.skip_attrs()
        rt = p.type()
        fty = None
        if rt.k == 'ptr' and rt.a.k == 'fn' and p.peek()[0] in ('local', 'glob'):
            # "call T (args)* %callee(...)" form: full function pointer type given
            fty = rt.a
            rt = fty.a
        elif rt.k == 'fn':
            fty = rt
            rt = fty.a
        callee = p.value(None)
        p.expect('(')
        args = []
        if not p.accept(')'):
            while True:
                args.append(p.tvalue())
                if p.accept(')'):
                    break
                p.expect(',')
        ins = Instr(op, res, rt, args, {'callee': callee, 'fty': fty})
    elif op == 'br':
        if p.peek()[1] == 'label':
            p.next()
            l = unq(p.next()[1][1:])
            ins = Instr(op, None, VOID, [], {'labels': [l]})
        else:
            c = p.tvalue()
            p.expect(',')
            p.expect_id('label')
            l1 = unq(p.next()[1][1:])
            p.expect(',')
            p.expect_id('label')
            l2 = unq(p.next()[1][1:])
            ins = Instr(op, None, VOID, [c], {'labels': [l1, l2]})
    elif op == 'switch':
        v = p.tvalue()
        p.expect(',')
        p.expect_id('label')
        d = unq(p.next()[1][1:])
        p.expect('[')
        cases = []
        while not p.accept(']'):
            cv = p.tvalue()
            p.expect(',')
            p.expect_id('label')
            cl = unq(p.next()[1][1:])
            cases.append((cv.v, cl))
        ins = Instr(op, None, VOID, [v], {'default': d, 'cases': cases, 'labels': [d] + [c[1] for c in cases]})
    elif op == 'ret':
        t = p.type()
        if t.k == 'void':
            ins = Instr(op, None, VOID, [])
        else:
            ins = Instr(op, None, VOID, [p.value(t)])
    elif op == 'alloca':
        t = p.type()
        n = None
        if p.accept(','):
            if p.peek()[1] == 'align':
                p.i -= 1
            else:
                n = p.tvalue()
        ins = Instr(op, res, Ty('ptr', t), [n] if n else [], {'aty': t})
    elif op == 'extractvalue':
        a = p.tvalue()
        idx = []
        while p.accept(','):
            if p.peek()[0] != 'num':
                p.i -= 1
                break
            idx.append(int(p.next()[1]))
        t = a.ty
        for i in idx:
            t = t.a[i] if t.k == 'lit' else t.b
        ins = Instr(op, res, t, [a], {'idx': idx})
    elif op == 'insertvalue':
        a = p.tvalue()
        p.expect(',')
        b = p.tvalue()
        idx = []
        while p.accept(','):
            if p.peek()[0] != 'num':
                p.i -= 1
                break
            idx.append(int(p.next()[1]))
        ins = Instr(op, res, a.ty, [a, b], {'idx': idx})
    elif op == 'insertelement':
        a = p.tvalue()
        p.expect(',')
        b = p.tvalue()
        p.expect(',')
        c = p.tvalue()
        ins = Instr(op, res, a.ty, [a, b, c])
    elif op == 'extractelement':
        a = p.tvalue()
        p.expect(',')
        c = p.tvalue()
        ins = Instr(op, res, a.ty.b if a.ty is not None and a.ty.k == 'vec' else None, [a, c])
    elif op == 'unreachable':
        ins = Instr(op, None, VOID, [])
    else:
        raise ParseError('unknown opcode %r in %r' % (op, line.strip()[:120]))
    # trailing: , align N   , !dbg !N   , !tbaa ... , #attr
    while not p.done():
        k, v = p.next()
        if k == 'meta' and v == '!dbg':
            ins.dbg = p.next()[1]
        elif k == 'meta' and v == '!llvm.loop':
            ins.x['loopmd'] = p.next()[1]
    ins.text = line.strip()
    return ins


STRUCTS = {}


def gep_result_type(bt, idx):
    t = bt
    for k, i in enumerate(idx):
        if k == 0:
            continue
        if t.k == 'struct':
            body = STRUCTS.get(t.a)
            if body is None:
                raise ParseError('gep into opaque struct %s' % t.a)
            t = body[i.v]
        elif t.k == 'lit':
            t = t.a[i.v]
        elif t.k == 'array':
            t = t.b
        else:
            raise ParseError('gep into scalar')
    return t


# ------------------------------------------------------------------ module
class Block:
    def __init__(self, name):
        self.name = name
        self.instrs = []
        self.succs = []
        self.preds = []

    @property
    def term(self):
        return self.instrs[-1]

    def __repr__(self):
        return '<%s>' % self.name


class Function:
    def __init__(self, name, ret, params):
        self.name = name
        self.ret = ret
        self.params = params  # list of (Ty, name)
        self.blocks = []
        self.bmap = {}
        self.dbg = None
        self.defs = {}
        self.error = None
        self.module = None
        self.varnames = {}  # reg -> source variable name (from llvm.dbg.value)
        self.linkage = ''

    @property
    def entry(self):
        return self.blocks[0]

    def instrs(self):
        for b in self.blocks:
            for i in b.instrs:
                yield i

    def finish(self):
        for b in self.blocks:
            self.bmap[b.name] = b
        for b in self.blocks:
            for k, i in enumerate(b.instrs):
                i.block = b
                i.idx = k
                if i.res is not None:
                    self.defs[i.res] = i
            t = b.instrs[-1] if b.instrs else None
            if t is None:
                raise ParseError('empty block %s in %s' % (b.name, self.name))
            for l in t.x.get('labels', []):
                s = self.bmap[l]
                if s not in b.succs:
                    b.succs.append(s)
                if b not in s.preds:
                    s.preds.append(b)
        self._dom = None
        self._pdom = None

    # ---- dominators (Cooper-Harvey-Kennedy)
    def rpo(self):
        seen = set()
        order = []

        def dfs(b):
            stack = [(b, iter(b.succs))]
            seen.add(b)
            while stack:
                n, it = stack[-1]
                for s in it:
                    if s not in seen:
                        seen.add(s)
                        stack.append((s, iter(s.succs)))
                        break
                else:
                    order.append(n)
                    stack.pop()
        dfs(self.entry)
        order.reverse()
        return order

    def idom(self):
        if self._dom is not None:
            return self._dom
        order = self.rpo()
        num = {b: i for i, b in enumerate(order)}
        idom = {order[0]: order[0]}

        def inter(a, b):
            while a is not b:
                while num[a] > num[b]:
                    a = idom[a]
                while num[b] > num[a]:
                    b = idom[b]
            return a
        ch = True
        while ch:
            ch = False
            for b in order[1:]:
                ps = [p for p in b.preds if p in idom]
                if not ps:
                    continue
                n = ps[0]
                for p in ps[1:]:
                    n = inter(p, n)
                if idom.get(b) is not n:
                    idom[b] = n
                    ch = True
        self._dom = idom
        return idom

    def dominates(self, a, b):
        """block a dominates block b"""
        idom = self.idom()
        if b not in idom:
            return False
        while True:
            if a is b:
                return True
            n = idom[b]
            if n is b:
                return False
            b = n

    def idominates(self, i1, i2):
        """instruction i1 dominates instruction i2"""
        if i1.block is i2.block:
            return i1.idx <= i2.idx
        return self.dominates(i1.block, i2.block)

    def loops(self):
        """natural loops: list of (header, set(blocks), [latches])"""
        res = {}
        for b in self.blocks:
            for s in b.succs:
                if self.dominates(s, b):
                    body = res.setdefault(s, (set([s]), []))
                    body[1].append(b)
                    st = [b]
                    while st:
                        n = st.pop()
                        if n not in body[0]:
                            body[0].add(n)
                            st.extend(n.preds)
        return [(h, bl[0], bl[1]) for h, bl in res.items()]

    def reachable(self, a, b, avoid=()):
        """is block b reachable from block a (via >= 0 edges) avoiding blocks in avoid"""
        seen = set()
        st = [a]
        while st:
            n = st.pop()
            if n in seen or n in avoid:
                continue
            seen.add(n)
            if n is b:
                return True
            st.extend(n.succs)
        return False

    def users(self):
        u = {}
        for i in self.instrs():
            for o in all_operands(i):
                if o is not None and o.k == 'reg':
                    u.setdefault(o.v, []).append(i)
        return u

    def line(self, ins):
        return self.module.line_of(ins.dbg) if ins is not None and ins.dbg else None

    def loc(self, ins):
        l = self.line(ins)
        f = self.module.file_of(self.dbg) if self.dbg else None
        if l is None:
            return '%s:%s' % (f or '?', self.name)
        return '%s:%s' % (self.module.file_of_loc(ins.dbg) or f or '?', l)


def all_operands(i):
    for o in i.ops:
        yield o
    c = i.x.get('callee')
    if c is not None:
        yield c


class Module:
    def __init__(self, path=None):
        self.path = path
        self.structs = {}
        self.globals = {}
        self.functions = {}
        self.declares = {}
        self.meta = {}
        self.unit = None

    def line_of(self, ref):
        m = self.meta.get(ref)
        if not m:
            return None
        r = re.search(r'line: (\d+)', m)
        return int(r.group(1)) if r else None

    def scope_file(self, ref, depth=0):
        m = self.meta.get(ref)
        if not m or depth > 20:
            return None
        r = re.search(r'\bfile: (!\d+)', m)
        if r and (m.startswith('distinct !DISubprogram') or m.startswith('!DISubprogram') or 'DILexicalBlock' in m):
            f = self.meta.get(r.group(1), '')
            fr = re.search(r'filename: "([^"]*)"', f)
            return fr.group(1) if fr else None
        if m.startswith('!DIFile'):
            fr = re.search(r'filename: "([^"]*)"', m)
            return fr.group(1) if fr else None
        r = re.search(r'scope: (!\d+)', m)
        if r:
            return self.scope_file(r.group(1), depth + 1)
        return None

    def file_of(self, ref):
        return self.scope_file(ref)

    def file_of_loc(self, ref):
        return self.scope_file(ref)

    def var_name(self, ref):
        m = self.meta.get(ref, '')
        r = re.search(r'name: "([^"]*)"', m)
        return r.group(1) if r else None


DEF_RE = re.compile(r'^define\b')
DECL_RE = re.compile(r'^declare\b')


def parse_header(line, is_def):
    toks = tokenize(line)
    p = P(toks)
    p.next()  # define/declare
    linkage = []
    while True:
        k, v = p.peek()
        if k == 'id' and (v in P.ATTRS):
            linkage.append(v)
            p.next()
        else:
            break
    p.skip_attrs()
    rt = p.type()
    name = unq(p.next()[1][1:])
    p.expect('(')
    params = []
    if not p.accept(')'):
        while True:
            if p.peek()[0] == 'dots':
                p.next()
                params.append((Ty('vararg'), None))
            else:
                t = p.type()
                p.skip_attrs()
                pn = None
                if p.peek()[0] == 'local':
                    pn = unq(p.next()[1][1:])
                params.append((t, pn))
            if p.accept(')'):
                break
            p.expect(',')
    f = Function(name, rt, params)
    f.linkage = ' '.join(linkage)
    while not p.done():
        k, v = p.next()
        if k == 'meta' and v == '!dbg':
            f.dbg = p.next()[1]
    return f


def parse_module(path):
    global STRUCTS
    m = Module(path)
    lines = open(path).read().split('\n')
    # pass 1: struct types
    STRUCTS = m.structs
    for l in lines:
        if l.startswith('%') and ' = type ' in l:
            nm, body = l.split(' = type ', 1)
            nm = unq(nm.strip()[1:])
            if body.strip() == 'opaque':
                m.structs[nm] = None
            else:
                t = P(tokenize(body)).type()
                m.structs[nm] = list(t.a)
    cur = None
    blk = None
    n = len(lines)
    i = 0
    while i < n:
        l = lines[i]
        i += 1
        if cur is None:
            if not l:
                continue
            if l.startswith('define'):
                try:
                    cur = parse_header(l.rstrip().rstrip('{'), True)
                except ParseError as e:
                    cur = Function('?' + l[:60], VOID, [])
                    cur.error = str(e)
                cur.module = m
                blk = None
                continue
            if l.startswith('declare'):
                try:
                    f = parse_header(l, False)
                    f.module = m
                    m.declares[f.name] = f
                except ParseError:
                    pass
                continue
            if l.startswith('!'):
                k = l.find(' = ')
                if k > 0:
                    m.meta[l[:k]] = l[k + 3:]
                continue
            if l.startswith('@'):
                k = l.find(' = ')
                m.globals[unq(l[1:k])] = l[k + 3:]
                continue
            continue
        # inside function
        if l.startswith('}'):
            try:
                if cur.error is None:
                    cur.finish()
            except ParseError as e:
                cur.error = str(e)
            m.functions[cur.name] = cur
            cur = None
            continue
        s = l.strip()
        if not s or s.startswith(';'):
            continue
        if not l.startswith(' '):
            # label
            lab = unq(s.split(':')[0])
            blk = Block(lab)
            cur.blocks.append(blk)
            continue
        if blk is None:
            # implicit entry label (numbered)
            blk = Block(str(len(cur.params)))
            cur.blocks.append(blk)
        if cur.error is not None:
            continue
        if s.startswith('call void @llvm.dbg.'):
            mm = re.match(r'call void @llvm\.dbg\.(?:value|declare)\(metadata \S+ (%[^,]+), metadata (!\d+)', s)
            if mm:
                cur.varnames.setdefault(unq(mm.group(1)[1:]), mm.group(2))
            continue
        # multi-line switch
        if s.startswith('switch ') and not s.rstrip().endswith(']'):
            while i < n and ']' not in lines[i]:
                s += ' ' + lines[i].strip()
                i += 1
            s += ' ' + lines[i].strip()
            i += 1
        try:
            ins = parse_instr(s)
            blk.instrs.append(ins)
        except ParseError as e:
            cur.error = '%s' % e
    return m


def strip_meta_text(text):
    return re.sub(r', ![a-zA-Z.]+ !\d+', '', text)
