"""ALG - exact algebraic value domain for symx (DESIGN 3 ALG).

Floating values are elements of Q(symbols)[function atoms] represented as sympy expressions; IEEE
operations are read as exact real operations.  Equality of two values is decided by normal form
(cancel/together for rational functions; rewrite to exponentials for exp/trig/hyperbolic atoms)."""
import sympy as sp
from fractions import Fraction
import symx
from symx import Ptr, TOP, Unsupported

NEG = {'eq': 'ne', 'ne': 'eq', 'ult': 'uge', 'uge': 'ult', 'ugt': 'ule', 'ule': 'ugt', 'slt': 'sge', 'sge': 'slt',
       'sgt': 'sle', 'sle': 'sgt',
       'oeq': 'une', 'une': 'oeq', 'olt': 'uge', 'uge_f': 'olt', 'ogt': 'ule', 'ole': 'ugt', 'oge': 'ult',
       'ult_f': 'oge', 'ugt_f': 'ole', 'ule_f': 'ogt', 'one': 'ueq', 'ueq': 'one', 'ord': 'uno', 'uno': 'ord'}
FNEG = {'oeq': 'une', 'une': 'oeq', 'olt': 'uge', 'uge': 'olt', 'ogt': 'ule', 'ule': 'ogt', 'ole': 'ugt', 'ugt': 'ole',
        'oge': 'ult', 'ult': 'oge', 'one': 'ueq', 'ueq': 'one', 'ord': 'uno', 'uno': 'ord'}
INEG = {'eq': 'ne', 'ne': 'eq', 'ult': 'uge', 'uge': 'ult', 'ugt': 'ule', 'ule': 'ugt', 'slt': 'sge', 'sge': 'slt',
        'sgt': 'sle', 'sle': 'sgt'}


class Cond:
    """atomic comparison over ALG terms"""
    __slots__ = ('kind', 'pred', 'a', 'b')

    def __init__(self, kind, pred, a, b):
        self.kind, self.pred, self.a, self.b = kind, pred, a, b

    def neg(self):
        return Cond(self.kind, (FNEG if self.kind == 'fcmp' else INEG)[self.pred], self.a, self.b)

    def rel(self):
        """mathematical relation ignoring NaN/unordered: one of < <= > >= == !="""
        p = self.pred
        if self.kind == 'fcmp':
            p = p[1:]
        else:
            p = {'ult': 'lt', 'ule': 'le', 'ugt': 'gt', 'uge': 'ge', 'slt': 'lt', 'sle': 'le', 'sgt': 'gt', 'sge': 'ge'}.get(p, p)
        return {'lt': '<', 'le': '<=', 'gt': '>', 'ge': '>=', 'eq': '==', 'ne': '!='}.get(p, p)

    def key(self):
        return (self.kind, self.pred, sp.srepr(self.a), sp.srepr(self.b))

    def __repr__(self):
        return '(%s %s %s)' % (self.a, self.rel(), self.b)


class BoolOp:
    __slots__ = ('op', 'args')

    def __init__(self, op, args):
        self.op, self.args = op, args

    def neg(self):
        return BoolOp('or' if self.op == 'and' else 'and', [negate(a) for a in self.args])

    def key(self):
        return (self.op,) + tuple(a.key() for a in self.args)

    def __repr__(self):
        return '(' + (' %s ' % self.op).join(map(repr, self.args)) + ')'


def negate(c):
    if c is True or c is sp.true:
        return False
    if c is False or c is sp.false:
        return True
    return c.neg()


def rationalize(x):
    """read a floating literal as the simplest rational whose nearest double it is"""
    if x != x or x in (float('inf'), float('-inf')):
        return None
    f = Fraction(x)
    if f.denominator == 1:
        return sp.Integer(f.numerator)
    for lim in (10, 100, 1000, 10**4, 10**6):
        g = f.limit_denominator(lim)
        if float(g) == x:
            return sp.Rational(g.numerator, g.denominator)
    return sp.Rational(f.numerator, f.denominator)


def is_zero(e):
    """decide e == 0 for rational functions with function atoms (normal form)"""
    e = sp.sympify(e)
    if e == 0:
        return True
    if e.is_number:
        return bool(e == 0)
    try:
        t = sp.cancel(sp.together(e))
    except Exception:
        t = e
    if t == 0:
        return True
    n = sp.numer(t)
    n = sp.expand(n)
    if n == 0:
        return True
    return False



def sqrt_zero(e):
    """e == 0 modulo the relations S^2 = radicand for every square-root atom S (polynomial remainder)"""
    e = sp.sympify(e)
    if is_zero(e):
        return True
    roots = sorted([a for a in e.atoms(sp.Pow) if a.exp == sp.Rational(1, 2) or a.exp == sp.Rational(-1, 2)], key=lambda a: -len(str(a)))
    rad = {}
    for a in roots:
        rad.setdefault(a.base, sp.Symbol('S%d' % len(rad), positive=True))
    sub = {}
    for a in roots:
        sub[a] = rad[a.base] if a.exp > 0 else 1 / rad[a.base]
    t = sp.cancel(sp.together(e.subs(sub)))
    n = sp.expand(sp.numer(t))
    for base, S in rad.items():
        n = sp.rem(sp.Poly(n, S), sp.Poly(S ** 2 - base, S)).as_expr() if n.has(S) else n
        n = sp.expand(n)
    if n == 0:
        return True
    n = sp.expand(sp.numer(sp.cancel(sp.together(n))))
    return n == 0



LIBM1 = {'sqrt': sp.sqrt, 'exp': sp.exp, 'log': sp.log, 'sin': sp.sin, 'cos': sp.cos, 'tan': sp.tan, 'sinh': sp.sinh,
         'cosh': sp.cosh, 'tanh': sp.tanh, 'fabs': sp.Abs, 'atan': sp.atan, 'asin': sp.asin, 'acos': sp.acos,
         'floor': sp.floor, 'ceil': sp.ceiling}


class Alg:
    fork_in_loops = False

    def __init__(self, names=None, consts=None, atoms_opaque=False):
        self.names = names or {}      # (base, off) -> symbol name
        self.consts = consts or {}    # float literal -> sympy symbol (named transcendental constants)
        self.syms = {}
        self.entry_off = {}
        self.opaque = atoms_opaque

    # ---- constants
    def int_const(self, v, bits):
        return int(v)

    def bool_const(self, b):
        return bool(b)

    def fp_const(self, v, ty):
        if v in self.consts:
            return self.consts[v]
        r = rationalize(v)
        if r is None:
            return sp.oo if v > 0 else (-sp.oo if v < 0 else sp.nan)
        return r

    def concrete(self, v):
        if isinstance(v, bool):
            return int(v)
        if isinstance(v, int):
            return v
        if isinstance(v, sp.Integer):
            return int(v)
        return None

    def sym(self, name, **kw):
        if name not in self.syms:
            self.syms[name] = sp.Symbol(name, **kw)
        return self.syms[name]

    def entry(self, base, off, ty):
        nm = self.names.get((base, off)) or '%s[%s]' % (base, self.off_key(off))
        if ty.is_ptr:
            return Ptr('*' + nm, 0)
        self.entry_off[nm] = (base, off)
        return self.sym(nm, real=True)

    # ---- arithmetic
    def binop(self, op, a, b, ty):
        if a is TOP or b is TOP:
            return TOP
        ca, cb = self.concrete(a), self.concrete(b)
        if ty.is_int and ca is not None and cb is not None:
            w = ty.a
            m = (1 << w) - 1
            ua, ub = ca & m, cb & m

            def s(x):
                return x - (1 << w) if x >> (w - 1) else x
            if op == 'add':
                r = ca + cb
            elif op == 'sub':
                r = ca - cb
            elif op == 'mul':
                r = ca * cb
            elif op == 'and':
                r = ua & ub
            elif op == 'or':
                r = ua | ub
            elif op == 'xor':
                r = ua ^ ub
            elif op == 'shl':
                r = (ua << ub) & m
            elif op == 'lshr':
                r = ua >> ub
            elif op == 'ashr':
                r = s(ua) >> ub
            elif op == 'udiv':
                if ub == 0:
                    raise Unsupported('division by zero')
                r = ua // ub
            elif op == 'urem':
                if ub == 0:
                    raise Unsupported('division by zero')
                r = ua % ub
            elif op == 'sdiv':
                if cb == 0:
                    raise Unsupported('division by zero')
                r = abs(s(ua)) // abs(s(ub)) * (1 if (s(ua) < 0) == (s(ub) < 0) else -1)
            elif op == 'srem':
                r = s(ua) - s(ub) * (abs(s(ua)) // abs(s(ub)) * (1 if (s(ua) < 0) == (s(ub) < 0) else -1))
            else:
                raise Unsupported('int op %s' % op)
            return r
        a = sp.sympify(a) if not isinstance(a, (Cond, BoolOp, bool)) else a
        b = sp.sympify(b) if not isinstance(b, (Cond, BoolOp, bool)) else b
        if a is sp.true or a is sp.false:
            a = bool(a)
        if b is sp.true or b is sp.false:
            b = bool(b)
        if isinstance(a, (Cond, BoolOp)) or isinstance(b, (Cond, BoolOp)) or isinstance(a, bool) or isinstance(b, bool):
            if op in ('and', 'or') and ty.is_int and ty.a == 1:
                if a is True or a is False or b is True or b is False:
                    x, y = (a, b) if isinstance(a, bool) else (b, a)
                    if op == 'and':
                        return y if x else False
                    return True if x else y
                return BoolOp(op, [a, b])
            if op == 'xor' and (b is True or b == 1):
                return negate(a)
            raise Unsupported('arithmetic on a comparison result')
        if op in ('fadd', 'add'):
            return a + b
        if op in ('fsub', 'sub'):
            return a - b
        if op in ('fmul', 'mul'):
            return a * b
        if op == 'fdiv':
            return a / b
        if op == 'shl' and cb is not None:
            return a * (2 ** cb)
        f = sp.Function('i_' + op)
        return f(a, b)

    def fneg(self, a, ty):
        if a is TOP:
            return TOP
        return -a

    def cast(self, op, v, fty, tty):
        if v is TOP:
            return TOP
        if op in ('zext', 'sext', 'trunc'):
            c = self.concrete(v)
            if isinstance(v, (Cond, BoolOp)) and op == 'zext' and tty.a > 1 and getattr(self, 'indicator_symbols', False):
                # 0/1 indicator of a comparison used in arithmetic
                return self.sym('ind<%s>' % (v,), integer=True, nonnegative=True)
            if isinstance(v, (Cond, BoolOp, bool)):
                return v
            if c is not None:
                if op == 'trunc':
                    return c & ((1 << tty.a) - 1)
                if op == 'zext':
                    return c & ((1 << fty.a) - 1)
                return c
            return v
        if op in ('sitofp', 'uitofp', 'fpext', 'fptrunc'):
            if isinstance(v, (Cond, BoolOp)):
                raise Unsupported('bool to fp')
            return sp.sympify(int(v) if isinstance(v, bool) else v)
        if op in ('fptosi', 'fptoui'):
            return sp.Function('trunc')(v)
        raise Unsupported('cast %s' % op)

    def reinterpret(self, v, t, ty):
        return None

    def extract(self, a, i):
        raise Unsupported('extractvalue of scalar')

    # ---- comparisons
    def cmp(self, kind, pred, a, b, ty):
        if a is TOP or b is TOP:
            raise Unsupported('comparison of an undefined value')
        if isinstance(a, (Cond, BoolOp, bool)) or isinstance(b, (Cond, BoolOp, bool)):
            # icmp ne (cond), 0  etc.
            cb = self.concrete(b)
            if isinstance(a, (Cond, BoolOp)) and cb is not None:
                if (pred == 'ne' and cb == 0) or (pred == 'eq' and cb == 1):
                    return (None, a)
                if (pred == 'eq' and cb == 0) or (pred == 'ne' and cb == 1):
                    return (None, negate(a))
            if isinstance(a, bool) and cb is not None:
                r = (int(a) == cb)
                return (r if pred == 'eq' else (not r) if pred == 'ne' else None, None)
            if isinstance(a, (Cond, BoolOp)) and isinstance(b, (Cond, BoolOp)) and pred in ('ne', 'eq'):
                # (p) != (q): exactly one of the two holds
                x = BoolOp('or', [BoolOp('and', [a, negate(b)]), BoolOp('and', [negate(a), b])])
                return (None, x if pred == 'ne' else negate(x))
            raise Unsupported('comparison of comparison results')
        a = sp.sympify(a)
        b = sp.sympify(b)
        if kind == 'fcmp' and pred in ('uno', 'ord'):
            # the terms of this domain are real numbers (finite arguments, exact arithmetic): never unordered
            return (pred == 'ord', None)
        dif = a - b
        if dif.is_number or is_zero(dif):
            try:
                dv = sp.nsimplify(dif) if dif.is_number else sp.Integer(0)
                sgn = 0 if dv == 0 else (1 if dv > 0 else -1)
                rel = Cond(kind, pred, a, b).rel()
                if kind == 'icmp' and pred[0] == 'u' and (self.concrete(a) is not None and self.concrete(b) is not None):
                    w = ty.a if ty.is_int else 64
                    ua, ub = int(a) & ((1 << w) - 1), int(b) & ((1 << w) - 1)
                    sgn = 0 if ua == ub else (1 if ua > ub else -1)
                r = {'<': sgn < 0, '<=': sgn <= 0, '>': sgn > 0, '>=': sgn >= 0, '==': sgn == 0, '!=': sgn != 0}.get(rel)
                if r is not None:
                    return (bool(r), None)
            except TypeError:
                pass
        # decided by the assumptions the caller attached to its symbols (positive / nonnegative ...)
        try:
            sg = 1 if dif.is_positive else (-1 if dif.is_negative else (0 if dif.is_zero else None))
        except Exception:
            sg = None
        if sg is not None and not (kind == 'icmp' and pred[0] == 'u'):
            rel = Cond(kind, pred, a, b).rel()
            r = {'<': sg < 0, '<=': sg <= 0, '>': sg > 0, '>=': sg >= 0, '==': sg == 0, '!=': sg != 0}.get(rel)
            if r is not None:
                return (bool(r), None)
        return (None, Cond(kind, pred, a, b))

    def truth(self, c):
        if isinstance(c, bool):
            return c
        cc = self.concrete(c)
        if cc is not None:
            return cc != 0
        if isinstance(c, (Cond, BoolOp)):
            return None
        raise Unsupported('branch on non-boolean %r' % (c,))

    def negate(self, c):
        return negate(c)

    def feasible(self, pc):
        seen = set()
        for c in pc:
            if c is False:
                return False
            if c is True:
                continue
            k = c.key()
            nk = c.neg().key()
            if nk in seen:
                return False
            seen.add(k)
        return True

    # ---- pointers / offsets
    def off_add(self, off, idx, scale):
        ci = self.concrete(idx)
        if ci is not None and isinstance(off, int):
            return off + ci * scale
        return sp.sympify(off) + sp.sympify(idx) * scale

    def off_sub(self, a, b):
        if isinstance(a, int) and isinstance(b, int):
            return a - b
        return sp.sympify(a) - sp.sympify(b)

    def off_key(self, off):
        if isinstance(off, int):
            return off
        c = self.concrete(off)
        if c is not None:
            return c
        return str(sp.expand(off))

    def off_val(self, off):
        return off

    def nonnull(self, base):
        return True

    def distinct_bases(self, a, b):
        return True

    def null_test(self, pred, p):
        raise Unsupported('null test of %r' % p)

    def alias_test(self, pred, a, b):
        raise Unsupported('alias test')

    def int_to_ptr(self, v):
        raise Unsupported('inttoptr')

    def ptr_bits(self, op, a, b):
        raise Unsupported('bit operation on pointer')

    # ---- calls
    def call(self, name, args, ins, interp, st, fn):
        base = name
        for suf in ('.f64', '.f32'):
            if base.endswith(suf):
                base = base[:-len(suf)]
        if base.startswith('llvm.'):
            base = base[5:]
            if base == 'fmuladd':
                return args[0] * args[1] + args[2]
            if base in ('expect.i64', 'expect.i1', 'expect.i32'):
                return args[0]
            if base.startswith('memcpy') or base.startswith('memmove'):
                self.memcpy(interp, st, args[0], args[1], args[2], ins, fn)
                return None
            if base.startswith('memset'):
                raise Unsupported('memset')
        if base in ('a_copy', 'a_move', 'memcpy', 'memmove'):
            self.memcpy(interp, st, args[0], args[1], args[2], ins, fn)
            return args[0]
        fl = base[:-1] if base.endswith('f') and base[:-1] in LIBM1 else base
        if fl in LIBM1 and len(args) == 1:
            if args[0] is TOP:
                return TOP
            if self.opaque:
                return sp.Function(fl)(args[0])
            return LIBM1[fl](args[0])
        if fl in ('pow', 'powf') and len(args) == 2:
            return sp.Pow(args[0], args[1]) if not self.opaque else sp.Function('pow')(*args)
        if fl in ('fma', 'fmaf') and len(args) == 3:
            return args[0] * args[1] + args[2]
        return NotImplemented

    def memcpy(self, interp, st, dst, src, n, ins, fn):
        cn = self.concrete(n)
        if cn is None or not isinstance(dst, Ptr) or not isinstance(src, Ptr):
            raise Unsupported('memcpy with symbolic size or non-pointer')
        if not isinstance(src.off, int) or not isinstance(dst.off, int):
            raise Unsupported('memcpy at symbolic offset')
        # element granularity: from stored cells in range or default element type traced from the operand
        ety = elem_type(ins.ops[1], fn) or elem_type(ins.ops[0], fn)
        if ety is None:
            raise Unsupported('memcpy of untyped memory')
        es = symx.sizeof(ety, fn.module.structs)
        if cn % es:
            raise Unsupported('memcpy size not a multiple of the element size')
        vals = [interp.load(Ptr(src.base, src.off + k * es), ety, st) for k in range(cn // es)]
        for k, v in enumerate(vals):
            interp.store(Ptr(dst.base, dst.off + k * es), v, ety, st)

    def opaque_call(self, name, args, ins, interp, st):
        return NotImplemented

    def indirect_call(self, callee, args, ins, interp, st):
        return NotImplemented


def elem_type(o, fn):
    """scalar element type behind an i8* operand, traced through bitcast/gep"""
    for _ in range(8):
        if o.k != 'reg':
            return None
        d = fn.defs.get(o.v)
        if d is None:
            # parameter
            for t, n in fn.params:
                if n == o.v and t.is_ptr:
                    return scalar_of(t.a, fn.module.structs)
            return None
        if d.op == 'bitcast':
            t = d.ops[0].ty
            if t.is_ptr and not (t.a.k == 'int' and t.a.a == 8):
                return scalar_of(t.a, fn.module.structs)
            o = d.ops[0]
            continue
        if d.op == 'gep':
            t = d.ty
            if t.is_ptr and not (t.a.k == 'int' and t.a.a == 8):
                return scalar_of(t.a, fn.module.structs)
            o = d.ops[0]
            continue
        return None
    return None


def scalar_of(t, structs):
    while True:
        if t.k == 'array':
            t = t.b
        elif t.k == 'struct':
            body = structs.get(t.a)
            if not body:
                return None
            t = body[0]
        else:
            break
    if t.k in ('double', 'float', 'int'):
        return t
    return None
