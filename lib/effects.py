"""PATH helpers: pointer provenance and effect sets of a function (DESIGN 3 PATH).
provenance(value) follows gep/bitcast/phi/select back to roots:
  ('param', name, path) ('deref', inner_root, path) ('alloca', name) ('global', name) ('call', callee) ('null',) ('top',)
path is a tuple of constant indices or '*' for variable ones."""
import llir


def root_of(fn, val, depth=0, seen=None):
    """-> set of roots (tuples)"""
    seen = seen if seen is not None else set()
    if val is None or depth > 40:
        return {('top',)}
    if val.k == 'null':
        return {('null',)}
    if val.k == 'global':
        return {('global', val.v)}
    if val.k == 'cexpr':
        if val.v in ('bitcast', 'getelementptr', 'addrspacecast'):
            a = val.args[0] if val.v != 'getelementptr' else val.args[1]
            return root_of(fn, a, depth + 1, seen)
        return {('top',)}
    if val.k != 'reg':
        return {('top',)}
    if val.v in seen:
        return set()
    seen = seen | {val.v}
    d = fn.defs.get(val.v)
    if d is None:
        return {('param', val.v, ())}
    op = d.op
    if op in ('bitcast', 'addrspacecast'):
        return root_of(fn, d.ops[0], depth + 1, seen)
    if op == 'gep':
        base = root_of(fn, d.ops[0], depth + 1, seen)
        idx = []
        for o in d.ops[1:]:
            idx.append(o.v if o.k == 'int' else '*')
        out = set()
        for r in base:
            if r[0] in ('param', 'deref'):
                out.add((r[0], r[1], r[2] + tuple(idx)))
            else:
                out.add(r)
        return out
    if op == 'phi' or op == 'select':
        out = set()
        ops = d.ops if op == 'phi' else d.ops[1:]
        for o in ops:
            out |= root_of(fn, o, depth + 1, seen)
        return out
    if op == 'load':
        inner = root_of(fn, d.ops[0], depth + 1, seen)
        return {('deref', tuple(sorted(inner, key=repr)), ())}
    if op == 'alloca':
        return {('alloca', d.res)}
    if op == 'call':
        c = d.x['callee']
        return {('call', c.v if c.k == 'global' else '?')}
    if op in ('inttoptr',):
        return {('top',)}
    if op in ('add', 'sub'):
        return root_of(fn, d.ops[0], depth + 1, seen)
    return {('top',)}


def callee_name(ins):
    c = ins.x['callee']
    if c.k == 'global':
        return c.v
    if c.k == 'cexpr' and c.args and c.args[0].k == 'global':
        return c.args[0].v
    return None


def effects(fn):
    """-> {'stores': [(roots, instr)], 'calls': [(name|None, instr)]}"""
    st = []
    calls = []
    for i in fn.instrs():
        if i.op == 'store':
            st.append((root_of(fn, i.ops[1]), i))
        elif i.op == 'call':
            n = callee_name(i)
            if n and (n.startswith('llvm.dbg') or n.startswith('llvm.lifetime')):
                continue
            calls.append((n, i))
    return {'stores': st, 'calls': calls}
