"""symx - abstract interpreter skeleton shared by the value engines (ALG, BIT, LIN-lite).

It walks the SSA IR of one function (callees of liba inlined on demand) over an abstract store
  (base object, byte offset) -> abstract value
with trace partitioning at branches whose condition the value domain cannot decide: the result is
the function's *decision tree* - a list of leaves (path condition, return value, final store).
Loops are followed only while the domain decides their condition (counted loops over constant
bounds); a loop whose condition is undecided is refused (Unsupported -> INCONCLUSIVE), never guessed.
Nothing is executed: values are terms of the domain (polynomials, bit vectors of XOR-sets, ...).
"""
import llir
from llir import Ty


class Unsupported(Exception):
    pass


class Top:
    def __repr__(self):
        return 'T'


TOP = Top()


class Ptr:
    __slots__ = ('base', 'off')

    def __init__(self, base, off=0):
        self.base = base
        self.off = off

    def __repr__(self):
        return '&%s+%s' % (self.base, self.off)

    def __eq__(self, o):
        return isinstance(o, Ptr) and self.base == o.base and self.off == o.off

    def __hash__(self):
        return hash((self.base, str(self.off)))


class FnPtr:
    def __init__(self, name):
        self.name = name

    def __repr__(self):
        return '@' + self.name


NULL = Ptr('null', 0)


# ---------------------------------------------------------------- data layout (x86-64)
def sizeof(t, structs):
    return layout(t, structs)[0]


def layout(t, structs):
    k = t.k
    if k == 'int':
        n = max(1, (t.a + 7) // 8)
        a = 1
        while a < n and a < 8:
            a *= 2
        return (n if n <= 8 else (n + 7) // 8 * 8, a)
    if k == 'float':
        return (4, 4)
    if k == 'double':
        return (8, 8)
    if k in ('ptr', 'fn'):
        return (8, 8)
    if k == 'array':
        s, a = layout(t.b, structs)
        return (s * t.a, a)
    if k == 'vec':
        s, a = layout(t.b, structs)
        return (s * t.a, s * t.a)
    if k == 'struct':
        body = structs.get(t.a)
        if body is None:
            raise Unsupported('opaque struct %s' % t.a)
        return struct_layout(body, structs)[:2]
    if k == 'lit':
        return struct_layout(list(t.a), structs)[:2]
    raise Unsupported('layout of %r' % t)


def struct_layout(body, structs):
    off = 0
    al = 1
    offs = []
    for e in body:
        s, a = layout(e, structs)
        off = (off + a - 1) // a * a
        offs.append(off)
        off += s
        al = max(al, a)
    return ((off + al - 1) // al * al, al, offs)


class Leaf:
    def __init__(self, pc, ret, store, entry, calls, trace, pc_raw=None, offs=None, env=None, reads=None):
        self.reads = reads or []
        self.env = env or {}
        self.offs = offs or {}
        self.pc_raw = pc_raw if pc_raw is not None else pc
        self.pc = pc          # list of conditions (domain objects)
        self.ret = ret
        self.store = store    # {(base, off): (value, Ty)}
        self.entry = entry    # {(base, off): entry symbol} reads of initial memory
        self.calls = calls    # list of (callee name, args) for opaque calls, in order
        self.trace = trace    # block names


NORETURN = {'__assert_fail', '__assert_rtn', '__assert', 'abort', '_assert', '__assert_perror_fail'}


class State:
    def __init__(self):
        self.env = {}
        self.store = {}
        self.offs = {}
        self.dirty = set()   # bases with a symbolic-offset store
        self.pc = []
        self.pc_raw = []
        self.reads = []
        self.calls = []
        self.trace = []
        self.nalloca = 0

    def assume(self, c):
        self.pc.append(c)
        self.pc_raw.append(c)

    def clone(self):
        s = State()
        s.env = dict(self.env)
        s.store = dict(self.store)
        s.offs = dict(self.offs)
        s.dirty = set(self.dirty)
        s.pc = list(self.pc)
        s.pc_raw = list(self.pc_raw)
        s.reads = list(self.reads)
        s.calls = list(self.calls)
        s.trace = list(self.trace)
        s.nalloca = self.nalloca
        return s


class Interp:
    """domain interface (duck typed):
      int_const(v, bits) fp_const(v, ty) binop(op, a, b, ty) fneg(a) cmp(kind, pred, a, b, ty)->(True|False|None, cond)
      negate(cond) cast(op, a, fty, tty) select(c, a, b) entry(base, off, ty, name) -> value
      call(name, args, ins, interp, st) -> value or NotImplemented ; is_concrete_int(v) -> int|None
      ptr_index(v) -> python int if concrete else domain value
    """

    def __init__(self, dom, lookup, max_paths=4096, max_steps=200000, inline=None, max_depth=8):
        self.dom = dom
        self.lookup = lookup        # name -> llir.Function or None
        self.max_paths = max_paths
        self.max_steps = max_steps
        self.steps = 0
        self.entry_syms = {}
        self.inline = inline        # predicate name->bool (None: inline every defined function)
        self.max_depth = max_depth

    # ---- public
    def run(self, fn, args, st=None):
        """args: list of abstract values for the parameters; returns list of Leaf"""
        st = st or State()
        leaves = []
        for (s, r) in self._run_fn(fn, args, st, 0):
            leaves.append(Leaf(s.pc, r, s.store, dict(self.entry_syms), s.calls, s.trace, s.pc_raw, s.offs, getattr(s, 'top_env', None), s.reads))
        return leaves

    # ---- function execution: generator of (state, retval)
    def _run_fn(self, fn, args, st, depth, start=None, prev0=None, stops=None, env0=None, region_out=None):
        if fn.error:
            raise Unsupported('IR of %s not readable: %s' % (fn.name, fn.error))
        if depth > self.max_depth:
            raise Unsupported('inline depth')
        saved = st.env
        st.env = {}
        for (t, n), a in zip(fn.params, args):
            if n is not None:
                st.env[n] = a
        if env0:
            st.env.update(env0)
        structs = fn.module.structs
        out = []
        work = [(st, start or fn.entry, prev0, {})]
        first = True
        while work:
            s, blk, prev, visits = work.pop()
            while True:
                if stops is not None and blk in stops and not first:
                    region_out.append((s, blk, prev))
                    break
                hook = getattr(self, 'loop_hook', None)
                if hook is not None and prev is not None and visits.get(blk.name, 0) == 0 and blk not in getattr(self, '_active', []):
                    res = hook(self, fn, s, blk, prev, depth)
                    if res is not None:
                        out.extend(res)
                        break
                s.trace.append(fn.name + ':' + blk.name)
                visits = dict(visits)
                visits[blk.name] = visits.get(blk.name, 0) + 1
                if visits[blk.name] > getattr(self.dom, 'max_visits', 600):
                    raise Unsupported('loop in %s does not terminate abstractly (block %s)' % (fn.name, blk.name))
                # phis first (parallel)
                newv = {}
                i = 0
                ins_list = blk.instrs
                while i < len(ins_list) and ins_list[i].op == 'phi':
                    ins = ins_list[i]
                    if first and env0 is not None and ins.res in env0:
                        i += 1
                        continue
                    lab = ins.x['labels']
                    if prev is None or prev.name not in lab:
                        raise Unsupported('phi without matching predecessor')
                    newv[ins.res] = self.val(ins.ops[lab.index(prev.name)], s, fn)
                    i += 1
                s.env.update(newv)
                first = False
                nxt = None
                states = [s]
                # straight-line part; calls may fork states
                term = None
                for ins in ins_list[i:]:
                    self.steps += 1
                    if self.steps > self.max_steps:
                        raise Unsupported('step budget exceeded in %s' % fn.name)
                    if ins.op in ('br', 'switch', 'ret', 'unreachable'):
                        term = ins
                        break
                    new_states = []
                    for s1 in states:
                        new_states.extend(self.step(ins, s1, fn, depth))
                    states = new_states
                    if len(states) + len(work) > self.max_paths:
                        raise Unsupported('path budget exceeded in %s' % fn.name)
                cont = []
                for s1 in states:
                    if term.op == 'ret':
                        r = self.val(term.ops[0], s1, fn) if term.ops else None
                        out.append((s1, r))
                    elif term.op == 'unreachable':
                        pass
                    elif term.op == 'br':
                        labs = term.x['labels']
                        if len(labs) == 1:
                            cont.append((s1, fn.bmap[labs[0]]))
                        else:
                            c = self.val(term.ops[0], s1, fn)
                            dec = self.dom.truth(c)
                            if dec is True:
                                cont.append((s1, fn.bmap[labs[0]]))
                            elif dec is False:
                                cont.append((s1, fn.bmap[labs[1]]))
                            else:
                                if visits[blk.name] > 1 and not getattr(self.dom, 'fork_in_loops', False):
                                    if getattr(self, 'prune_loops', False):
                                        self.pruned = getattr(self, 'pruned', 0) + 1
                                        continue
                                    raise Unsupported('loop condition not decided in %s block %s' % (fn.name, blk.name))
                                s2 = s1.clone()
                                s1.assume(c)
                                nc = self.dom.negate(c)
                                s2.assume(nc)
                                if hasattr(self.dom, 'refine'):
                                    self.dom.refine(s1, c)
                                    self.dom.refine(s2, nc)
                                f1 = self.dom.feasible(s1.pc)
                                f2 = self.dom.feasible(s2.pc)
                                if f1:
                                    cont.append((s1, fn.bmap[labs[0]]))
                                if f2:
                                    cont.append((s2, fn.bmap[labs[1]]))
                    elif term.op == 'switch':
                        v = self.val(term.ops[0], s1, fn)
                        cv = self.dom.concrete(v)
                        if cv is None:
                            # fork over all cases
                            others = []
                            for cval, lab in term.x['cases']:
                                s2 = s1.clone()
                                dec, cond = self.dom.cmp('icmp', 'eq', v, self.dom.int_const(cval, term.ops[0].ty.a), term.ops[0].ty)
                                if dec is True:
                                    cont.append((s2, fn.bmap[lab]))
                                    others = None
                                    break
                                if dec is False:
                                    continue
                                s2.assume(cond)
                                if hasattr(self.dom, 'refine'):
                                    self.dom.refine(s2, cond)
                                others.append(cond)
                                if self.dom.feasible(s2.pc):
                                    cont.append((s2, fn.bmap[lab]))
                            if others is not None:
                                s2 = s1.clone()
                                for c in others:
                                    nc = self.dom.negate(c)
                                    s2.assume(nc)
                                    if hasattr(self.dom, 'refine'):
                                        self.dom.refine(s2, nc)
                                if self.dom.feasible(s2.pc):
                                    cont.append((s2, fn.bmap[term.x['default']]))
                        else:
                            tgt = term.x['default']
                            for cval, lab in term.x['cases']:
                                if cval == cv:
                                    tgt = lab
                            cont.append((s1, fn.bmap[tgt]))
                if len(cont) == 1:
                    s, nb = cont[0]
                    prev, blk = blk, nb
                    continue
                for s1, nb in cont:
                    work.append((s1, nb, blk, visits))
                    if len(work) > self.max_paths:
                        raise Unsupported('path budget exceeded in %s' % fn.name)
                break
        for s1, r in out:
            if depth == 0:
                s1.top_env = s1.env
            s1.env = dict(saved)
        return out

    def run_region(self, fn, args, start, env0, stops, st=None, prev=None):
        """abstractly execute from block `start` (its phis pre-bound by env0) until a block in `stops`
        is reached again or the function returns.  -> (region_exits [(state, block, from_block)], returns [(state, ret)])"""
        st = st or State()
        ro = []
        rets = self._run_fn(fn, args, st, 0, start=start, prev0=prev, stops=set(stops), env0=env0, region_out=ro)
        return ro, rets

    # ---- operands
    def val(self, o, st, fn):
        k = o.k
        if k == 'reg':
            if o.v not in st.env:
                raise Unsupported('use of undefined %%%s in %s' % (o.v, fn.name))
            return st.env[o.v]
        if k == 'int':
            t = o.ty
            if t is not None and t.is_ptr:
                return Ptr('abs', o.v)
            return self.dom.int_const(o.v, t.a if t is not None and t.is_int else 64)
        if k == 'fp':
            return self.dom.fp_const(o.v, o.ty)
        if k == 'null':
            return NULL
        if k == 'undef':
            return TOP
        if k == 'global':
            f = self.lookup(o.v)
            if f is not None or o.v in fn.module.declares or o.v in fn.module.functions:
                return FnPtr(o.v)
            return Ptr('@' + o.v, 0)
        if k == 'zero':
            return self.dom.int_const(0, 64)
        if k == 'cexpr':
            if o.v in ('bitcast', 'addrspacecast'):
                return self.val(o.args[0], st, fn)
            if o.v == 'getelementptr':
                bt = o.args[0].v
                base = self.val(o.args[1], st, fn)
                return self.gep(base, bt, [(a.ty, self.val(a, st, fn)) for a in o.args[2:]], fn.module.structs)
            if o.v == 'ptrtoint':
                return self.val(o.args[0], st, fn)
            raise Unsupported('constant expression %s' % o.v)
        raise Unsupported('operand kind %s' % k)

    def gep(self, base, bt, idx, structs):
        if not isinstance(base, Ptr):
            raise Unsupported('gep on non-pointer %r' % (base,))
        off = base.off
        t = bt
        for n, (ity, iv) in enumerate(idx):
            if n == 0:
                sz = sizeof(t, structs)
                off = self.dom.off_add(off, iv, sz)
                continue
            if t.k == 'struct' or t.k == 'lit':
                body = structs[t.a] if t.k == 'struct' else list(t.a)
                ci = self.dom.concrete(iv)
                if ci is None:
                    raise Unsupported('symbolic struct index')
                off = self.dom.off_add(off, self.dom.int_const(struct_layout(body, structs)[2][ci], 64), 1)
                t = body[ci]
            elif t.k == 'array':
                t = t.b
                off = self.dom.off_add(off, iv, sizeof(t, structs))
            else:
                raise Unsupported('gep into %r' % t)
        return Ptr(base.base, off)

    # ---- memory
    def load(self, p, ty, st, name=None):
        if not isinstance(p, Ptr):
            raise Unsupported('load through non-pointer %r' % (p,))
        if p.base in ('null', 'abs'):
            raise Unsupported('load through null/absolute pointer')
        if hasattr(self.dom, 'on_access'):
            self.dom.on_access('load', p, ty, st, self)
        key = (p.base, self.dom.off_key(p.off))
        if key in st.store:
            v, t = st.store[key]
            if t == ty or (t.is_ptr and ty.is_ptr):
                return v
            if ty.is_ptr and isinstance(v, (Ptr, FnPtr)):
                return v
            cv = self.dom.reinterpret(v, t, ty)
            if cv is not None:
                return cv
            raise Unsupported('load of %r from location written as %r' % (ty, t))
        if p.base in st.dirty:
            raise Unsupported('load from %s after a store at a symbolic offset' % p.base)
        ek = (p.base, self.dom.off_key(p.off), repr(ty))
        if p.base.startswith('alloca'):
            return TOP  # uninitialised local
        if ek not in self.entry_syms:
            self.entry_syms[ek] = self.dom.entry(p.base, p.off, ty)
        st.reads.append((p.base, p.off, repr(ty)))
        return self.entry_syms[ek]

    def store(self, p, v, ty, st):
        if not isinstance(p, Ptr):
            raise Unsupported('store through non-pointer %r' % (p,))
        if p.base in ('null', 'abs'):
            raise Unsupported('store through null/absolute pointer')
        if hasattr(self.dom, 'on_access'):
            self.cur_store_value = v
            self.dom.on_access('store', p, ty, st, self)
            self.cur_store_value = None
        k = self.dom.off_key(p.off)
        if not isinstance(k, int):
            # symbolic offset: weak update unless exact key known
            st.dirty.add(p.base)
        st.store[(p.base, k)] = (v, ty)
        st.offs[(p.base, k)] = p.off

    # ---- one instruction; returns list of successor states (calls may fork)
    def step(self, ins, st, fn, depth):
        op = ins.op
        d = self.dom
        if op in llir.BINOPS:
            a = self.val(ins.ops[0], st, fn)
            b = self.val(ins.ops[1], st, fn)
            if isinstance(a, Ptr) or isinstance(b, Ptr):
                st.env[ins.res] = self.ptr_arith(op, a, b, ins.ty)
            else:
                st.env[ins.res] = d.binop(op, a, b, ins.ty)
            return [st]
        if op == 'fneg':
            st.env[ins.res] = d.fneg(self.val(ins.ops[0], st, fn), ins.ty)
            return [st]
        if op in ('icmp', 'fcmp'):
            a = self.val(ins.ops[0], st, fn)
            b = self.val(ins.ops[1], st, fn)
            if isinstance(a, (Ptr, FnPtr)) or isinstance(b, (Ptr, FnPtr)):
                st.env[ins.res] = self.ptr_cmp(ins.x['pred'], a, b)
            else:
                dec, cond = d.cmp(op, ins.x['pred'], a, b, ins.x['oty'])
                st.env[ins.res] = d.bool_const(dec) if dec is not None else cond
            return [st]
        if op == 'load':
            p = self.val(ins.ops[0], st, fn)
            st.env[ins.res] = self.load(p, ins.ty, st)
            return [st]
        if op == 'store':
            v = self.val(ins.ops[0], st, fn)
            p = self.val(ins.ops[1], st, fn)
            self.store(p, v, ins.ops[0].ty, st)
            return [st]
        if op == 'gep':
            base = self.val(ins.ops[0], st, fn)
            st.env[ins.res] = self.gep(base, ins.x['bt'], [(o.ty, self.val(o, st, fn)) for o in ins.ops[1:]], fn.module.structs)
            return [st]
        if op in ('bitcast', 'addrspacecast'):
            st.env[ins.res] = self.val(ins.ops[0], st, fn)
            return [st]
        if op in ('ptrtoint', 'inttoptr'):
            v = self.val(ins.ops[0], st, fn)
            if op == 'inttoptr' and not isinstance(v, Ptr):
                v = d.int_to_ptr(v)
            st.env[ins.res] = v
            return [st]
        if op in llir.CASTOPS:
            v = self.val(ins.ops[0], st, fn)
            if isinstance(v, Ptr):
                raise Unsupported('cast %s of pointer' % op)
            st.env[ins.res] = d.cast(op, v, ins.ops[0].ty, ins.ty)
            return [st]
        if op == 'select':
            c = self.val(ins.ops[0], st, fn)
            a = self.val(ins.ops[1], st, fn)
            b = self.val(ins.ops[2], st, fn)
            dec = d.truth(c)
            if dec is True:
                st.env[ins.res] = a
                return [st]
            if dec is False:
                st.env[ins.res] = b
                return [st]
            if hasattr(d, 'select'):
                r = d.select(c, a, b)
                if r is not NotImplemented:
                    st.env[ins.res] = r
                    return [st]
            s2 = st.clone()
            st.assume(c)
            nc = d.negate(c)
            s2.assume(nc)
            st.env[ins.res] = a
            s2.env[ins.res] = b
            if hasattr(d, 'refine'):
                d.refine(st, c)
                d.refine(s2, nc)
            return [s for s in (st, s2) if d.feasible(s.pc)]
        if op == 'alloca':
            st.nalloca += 1
            st.env[ins.res] = Ptr('alloca%d.%s' % (st.nalloca, ins.res), 0)
            return [st]
        if op == 'extractvalue':
            a = self.val(ins.ops[0], st, fn)
            for i in ins.x['idx']:
                if isinstance(a, (list, tuple)):
                    a = a[i]
                else:
                    a = d.extract(a, i)
            st.env[ins.res] = a
            return [st]
        if op == 'insertvalue':
            a = self.val(ins.ops[0], st, fn)
            b = self.val(ins.ops[1], st, fn)
            n = len(ins.ty.a)
            cur = list(a) if isinstance(a, (list, tuple)) else [TOP] * n
            cur[ins.x['idx'][0]] = b
            st.env[ins.res] = tuple(cur)
            return [st]
        if op == 'insertelement':
            a = self.val(ins.ops[0], st, fn)
            b = self.val(ins.ops[1], st, fn)
            i = d.concrete(self.val(ins.ops[2], st, fn))
            n = ins.ty.a
            cur = list(a) if isinstance(a, (list, tuple)) else [TOP] * n
            if i is None:
                raise Unsupported('insertelement at a symbolic index')
            cur[i] = b
            st.env[ins.res] = tuple(cur)
            return [st]
        if op == 'extractelement':
            a = self.val(ins.ops[0], st, fn)
            i = d.concrete(self.val(ins.ops[1], st, fn))
            if i is None or not isinstance(a, (list, tuple)):
                raise Unsupported('extractelement of a non-vector value')
            st.env[ins.res] = a[i]
            return [st]
        if op == 'call':
            c_ = ins.x.get('callee')
            if c_ is not None and c_.k == 'global' and c_.v in NORETURN:
                return []       # a failed assertion / abort ends the path: what follows is not a behaviour of the function
            return self.call(ins, st, fn, depth)
        raise Unsupported('opcode %s' % op)

    def ptr_arith(self, op, a, b, ty):
        d = self.dom
        if op == 'sub' and isinstance(a, Ptr) and isinstance(b, Ptr):
            if a.base != b.base:
                raise Unsupported('difference of pointers into different objects')
            return d.off_sub(a.off, b.off)
        if op == 'add' and isinstance(a, Ptr) and not isinstance(b, Ptr):
            return Ptr(a.base, d.off_add(a.off, b, 1))
        if op == 'add' and isinstance(b, Ptr) and not isinstance(a, Ptr):
            return Ptr(b.base, d.off_add(b.off, a, 1))
        if op == 'sub' and isinstance(a, Ptr):
            return Ptr(a.base, d.off_add(a.off, d.binop('sub', d.int_const(0, 64), b, llir.I(64)), 1))
        if op in ('and', 'or') and isinstance(a, Ptr):
            return d.ptr_bits(op, a, b)
        raise Unsupported('pointer arithmetic %s' % op)

    def ptr_cmp(self, pred, a, b):
        d = self.dom
        if isinstance(a, FnPtr) or isinstance(b, FnPtr):
            if isinstance(a, FnPtr) and isinstance(b, FnPtr):
                r = a.name == b.name
            else:
                r = False
            return d.bool_const(r if pred == 'eq' else (not r))
        if not (isinstance(a, Ptr) and isinstance(b, Ptr)):
            raise Unsupported('pointer compared with non-pointer')
        if a.base == 'null' and b.base == 'null':
            r = True if pred in ('eq', 'ule', 'uge') else False
            return d.bool_const(r)
        if a.base == 'null' or b.base == 'null':
            # objects are non-null
            other = b if a.base == 'null' else a
            if other.base.startswith('alloca') or other.base.startswith('@') or d.nonnull(other.base):
                if pred == 'eq':
                    return d.bool_const(False)
                if pred == 'ne':
                    return d.bool_const(True)
            return d.null_test(pred, other)
        if a.base != b.base:
            if pred == 'eq':
                return d.bool_const(False) if d.distinct_bases(a.base, b.base) else d.alias_test(pred, a, b)
            if pred == 'ne':
                return d.bool_const(True) if d.distinct_bases(a.base, b.base) else d.alias_test(pred, a, b)
            raise Unsupported('ordering of pointers into different objects')
        dec, cond = d.cmp('icmp', pred, d.off_val(a.off), d.off_val(b.off), llir.I(64))
        return d.bool_const(dec) if dec is not None else cond

    # ---- calls
    def call(self, ins, st, fn, depth):
        callee = ins.x['callee']
        d = self.dom
        name = None
        if callee.k == 'global':
            name = callee.v
        elif callee.k == 'cexpr' and callee.v == 'bitcast' and callee.args[0].k == 'global':
            name = callee.args[0].v
        else:
            cv = self.val(callee, st, fn)
            if isinstance(cv, FnPtr):
                name = cv.name
        args = [self.val(a, st, fn) for a in ins.ops]
        if name is None:
            r = d.indirect_call(self.val(callee, st, fn), args, ins, self, st)
            if r is NotImplemented:
                raise Unsupported('indirect call in %s' % fn.name)
            if ins.res is not None:
                st.env[ins.res] = r
            return [st]
        if name.startswith('llvm.dbg.') or name.startswith('llvm.lifetime.'):
            return [st]
        if hasattr(d, 'call_alternatives'):
            alts = d.call_alternatives(name, args, ins, self, st, fn)
            if alts is not NotImplemented:
                out = []
                for k, (val, mutate) in enumerate(alts):
                    s2 = st if k == len(alts) - 1 else st.clone()
                    if mutate is not None:
                        mutate(s2)
                    if ins.res is not None:
                        s2.env[ins.res] = val
                    if d.feasible(s2.pc):
                        out.append(s2)
                return out
        r = d.call(name, args, ins, self, st, fn)
        if r is not NotImplemented:
            if ins.res is not None:
                st.env[ins.res] = r
            return [st]
        tgt = self.lookup(name)
        if tgt is not None and (self.inline is None or self.inline(name)):
            res = []
            for s1, rv in self._run_fn(tgt, args, st, depth + 1):
                if ins.res is not None:
                    s1.env[ins.res] = rv
                res.append(s1)
            return res
        r = d.opaque_call(name, args, ins, self, st)
        if r is NotImplemented:
            raise Unsupported('call to %s in %s' % (name, fn.name))
        st.calls.append((name, args))
        if ins.res is not None:
            st.env[ins.res] = r
        return [st]
