"""SIB - agreement between sibling implementations (DESIGN 3 SIB, variant a).

A function's IR is brought to a canonical, name-free form: blocks in reverse post-order, registers numbered by first
use in that order, struct types and field indices replaced by role labels supplied by the caller (e.g. NODE.L / NODE.R /
NODE.P), pointer-tag masks replaced by MASK, commutative operands ordered.  Two siblings agree under a symmetry when the
canonical forms are equal after applying the symmetry (label swap).  Differences are classified: a bounded number of
position-wise differences in otherwise aligned code = the copies perform different operations at the same place
(VIOLATION); code that cannot be aligned = one copy was rewritten (INCONCLUSIVE)."""
import re
import llir

COMMUTATIVE = {'add', 'mul', 'and', 'or', 'xor', 'fadd', 'fmul'}


class Canon:
    def __init__(self, lines, blocks):
        self.lines = lines      # list of (block_index, text)
        self.blocks = blocks    # block count


def canon(fn, roles, mirror=None, consts=None, callee_map=None):
    """roles: {struct_name: (ROLE, {field_index: label})}; mirror: {label: label} swap applied to field labels;
    consts: function(instr, operand_index, value) -> replacement token or None; callee_map: name -> token"""
    mirror = mirror or {}
    callee_map = callee_map or {}
    order = fn.rpo()
    bnum = {b: i for i, b in enumerate(order)}
    reg = {}

    def r(name):
        if name not in reg:
            reg[name] = 'v%d' % len(reg)
        return reg[name]
    for t, pn in fn.params:
        if pn:
            r(pn)

    def ty(t):
        if t is None:
            return '?'
        if t.k == 'struct':
            nm = t.a.replace('struct.', '')
            return roles.get(nm, (nm, {}))[0]
        if t.k == 'ptr':
            return ty(t.a) + '*'
        if t.k == 'array':
            return '[%d x %s]' % (t.a, ty(t.b))
        if t.k == 'fn':
            return '%s(%s)' % (ty(t.a), ','.join(ty(x) for x in t.b))
        return repr(t)

    def val(v, ins=None, k=None):
        if v is None:
            return '-'
        if v.k == 'reg':
            return r(v.v)
        if v.k == 'int':
            if consts and ins is not None:
                t = consts(ins, k, v.v)
                if t is not None:
                    return t
            return str(v.v)
        if v.k == 'null':
            return 'null'
        if v.k == 'global':
            return '@' + callee_map.get(v.v, v.v)
        if v.k == 'fp':
            return repr(v.v)
        if v.k == 'cexpr':
            return '%s(%s)' % (v.v, ','.join(val(a) for a in v.args if a.k != 'type'))
        return v.k
    lines = []
    for b in order:
        for ins in b.instrs:
            op = ins.op
            if op == 'call' and (ins.x['callee'].k == 'global' and ins.x['callee'].v.startswith('llvm.dbg')):
                continue
            res = r(ins.res) if ins.res else None
            if op == 'gep':
                bt = ins.x['bt']
                labs = []
                t = bt
                for k, o in enumerate(ins.ops[1:]):
                    if k == 0:
                        labs.append(val(o))
                        continue
                    if t.k == 'struct':
                        nm = t.a.replace('struct.', '')
                        role, fields = roles.get(nm, (nm, {}))
                        lab = fields.get(o.v, str(o.v))
                        lab = mirror.get(lab, lab)
                        labs.append('%s.%s' % (role, lab))
                        body = fn.module.structs.get(t.a)
                        t = body[o.v] if body else llir.Ty('opaque')
                    elif t.k == 'array':
                        labs.append(val(o))
                        t = t.b
                    else:
                        labs.append(val(o))
                text = 'gep %s %s [%s]' % (ty(bt), val(ins.ops[0]), ' '.join(labs))
            elif op == 'phi':
                inc = sorted('%s<-b%d' % (val(o), bnum.get(fn.bmap[l], -1)) for o, l in zip(ins.ops, ins.x['labels']))
                text = 'phi %s %s' % (ty(ins.ty), ' '.join(inc))
            elif op in ('br',):
                labs = ['b%d' % bnum[fn.bmap[l]] for l in ins.x['labels']]
                text = 'br %s %s' % (val(ins.ops[0]) if ins.ops else '', ' '.join(labs))
            elif op == 'switch':
                text = 'switch %s %s' % (val(ins.ops[0]), ' '.join('%s:b%d' % (c, bnum[fn.bmap[l]]) for c, l in ins.x['cases']))
            elif op in ('icmp', 'fcmp'):
                a, b_ = val(ins.ops[0], ins, 0), val(ins.ops[1], ins, 1)
                pred = ins.x['pred']
                if pred in ('eq', 'ne', 'oeq', 'une') and a > b_:
                    a, b_ = b_, a
                text = '%s %s %s %s' % (op, pred, a, b_)
            elif op == 'call':
                c = ins.x['callee']
                cn = val(c)
                text = 'call %s(%s)' % (cn, ','.join(val(a) for a in ins.ops))
            elif op in llir.BINOPS:
                a, b_ = val(ins.ops[0], ins, 0), val(ins.ops[1], ins, 1)
                if op in COMMUTATIVE and a > b_:
                    a, b_ = b_, a
                text = '%s %s %s' % (op, a, b_)
            elif op == 'load':
                text = 'load %s %s' % (ty(ins.ty), val(ins.ops[0]))
            elif op == 'store':
                text = 'store %s %s' % (val(ins.ops[0], ins, 0), val(ins.ops[1]))
            elif op in llir.CASTOPS:
                text = '%s %s -> %s' % (op, val(ins.ops[0]), ty(ins.ty))
            elif op == 'ret':
                text = 'ret %s' % (val(ins.ops[0]) if ins.ops else '')
            elif op == 'select':
                text = 'select %s %s %s' % tuple(val(o, ins, k) for k, o in enumerate(ins.ops))
            else:
                text = '%s %s' % (op, ' '.join(val(o, ins, k) for k, o in enumerate(ins.ops)))
            lines.append((bnum[b], (res + ' = ' if res else '') + text))
    return Canon(lines, len(order))


def compare(c1, c2, max_point=8):
    """-> ('equal', []) | ('point', [(i, line1, line2)]) | ('shape', reason)"""
    if c1.blocks != c2.blocks:
        return 'shape', 'block counts differ (%d vs %d)' % (c1.blocks, c2.blocks)
    if len(c1.lines) != len(c2.lines):
        return 'shape', 'instruction counts differ (%d vs %d)' % (len(c1.lines), len(c2.lines))
    diffs = []
    for i, (a, b) in enumerate(zip(c1.lines, c2.lines)):
        if a != b:
            # same block and same opcode shape?
            oa = a[1].split(' = ')[-1].split(' ')[0]
            ob = b[1].split(' = ')[-1].split(' ')[0]
            if a[0] != b[0] or oa != ob:
                return 'shape', 'misaligned at instruction %d (%s | %s)' % (i, a[1], b[1])
            diffs.append((i, a[1], b[1]))
    if not diffs:
        return 'equal', []
    if len(diffs) <= max_point:
        return 'point', diffs
    return 'shape', '%d differing instructions' % len(diffs)
